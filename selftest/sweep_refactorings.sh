#!/bin/sh
# Runs every kept behaviour-preserving refactoring against its property's quick check (scratch copies under /tmp); one line each.
# Expected: pass or undecided (contract no longer applies); FALSE-ALARM must never appear.
DIR="$(cd "$(dirname "$0")/.." && pwd)"
cd "$DIR"
ls refactorings | xargs -P 6 -I{} sh -c 'python3 selftest/try_refactoring.py refactorings/{} --keep --no-tests 2>&1 | grep "check " | sed "s/^/{} /" | cut -c1-200'
