#!/usr/bin/env python3
"""usage: selftest/make_seed_briefs.py <round-tag e.g. r5> [pairing shift]
Creates ten scratch git worktrees of /repo under /tmp (seedwt_<tag>_<n>) and one brief per worktree (/tmp/seedbrief_<tag>_<n>.md) for sub-agents that
seed realistic property-breaking changes.  The brief contains ONLY the property text and one-line summaries of the changes produced earlier (so
that new ones differ in kind); nothing about the checks.  Remove the worktrees afterwards with `git -C /repo worktree remove --force <dir>`."""
import sys, glob
TAG = sys.argv[1]
import json, os, subprocess
props={json.loads(l)['id']:json.loads(l) for l in open('/verif/properties.jsonl')}
ids=['C%02d'%i for i in range(1,21)]
shift=int(sys.argv[2]) if len(sys.argv)>2 else 9      # second argument: how far apart the two properties of a brief are (varies the pairing per round)
pairs=[]
left=list(ids)
while left:
    a=left.pop(0)
    b=left.pop((shift-1)%len(left)) if left else a
    pairs.append((a,b))
for n,(a,b) in enumerate(pairs,1):
    wt='/tmp/seedwt_%s_%d'%(TAG,n)
    if not os.path.isdir(wt):
        subprocess.run(['git','-C','/repo','worktree','add','--detach',wt,'HEAD'],check=True,capture_output=True)
    prev=[]
    for p in (a,b):
        for f in sorted(glob.glob('/verif/seeded/%s-*/meta.json'%p)):
            prev.append('- (%s) %s'%(p,json.load(open(f))['summary'][:200]))
    txt='''# Task: seed realistic property-breaking changes into a Python library (for evaluating a checker you know nothing about)

You work ONLY inside your own git worktree of the library WilmerLab/mofun: `%(wt)s` (detached HEAD of the current code).
Do not read or write anything under /verif or /repo; do not use `git stash` (the stash is shared between worktrees); do not commit.
Python to use: `/venv/bin/python` (the library's dependencies are installed there). No network.

Below are two semantic properties the library is supposed to satisfy. For EACH property produce TWO different, realistic changes to the
library source (the kind of edit a maintainer could plausibly make: a refactoring, an optimisation, a "simplification", an attempted
bug fix, a changed default, an off-by-one, a dropped special case ...) such that

 1. the library still imports and the existing test suite still passes with the change:
    `cd %(wt)s && /venv/bin/python -m pytest -q -p no:cacheprovider --timeout=900 tests`   (all tests must pass; run it and look);
 2. the property is violated for some input, but NOT for every input: the violation should need something specific to manifest
    (a particular shape of input, option value, ordering, boundary, history of calls ...). Subtle is better than blatant;
 3. the change touches only files under `mofun/` (not tests), and is small (a few lines).

Make the four changes different in kind from each other and from these changes that were already produced by others earlier:
%(prev)s

For each change k = 1, 2 of property P write a directory `%(wt)s/_seeds/<P>-%(tag)ss<k>/` containing
 * `patch.diff`  - output of `git diff` for the change (relative to HEAD; must apply with `patch -p1` at the repository root);
 * `demo.py`     - a standalone script, run as `cd <checkout> && PYTHONPATH=<checkout> /venv/bin/python demo.py`, that exercises the
                   property through the public API on an input where the change manifests; it must exit 0 on the unmodified code and
                   exit 1 (printing what is wrong) on the changed code. It must judge by the property statement, not by comparing with
                   remembered output of the old code. Put `sys.path.insert(0, os.getcwd())` first so the checkout's `mofun` is imported;
 * `meta.json`   - {"property": "<P>", "summary": "<what the change does and why it breaks the property>", "needs_to_manifest":
                   "<what an input needs for the violation to show>", "files_changed": [...]}.
After writing one seed restore the worktree with `git checkout -- mofun` (the `_seeds` directory is untracked and stays) before making
the next change. Verify each seed yourself: demo passes on clean tree, tests pass with the patch, demo fails with the patch.
Finish with the worktree clean (apart from `_seeds/`) and reply with a 5-line report: for each seed its directory and one sentence.

## Property %(a)s
%(pa)s

## Property %(b)s
%(pb)s
''' % dict(tag=TAG, wt=wt, prev="\n".join(prev), a=a, b=b,
          pa=json.dumps({k:props[a][k] for k in ('id','title','statement','quantifier','anchors')},indent=1),
          pb=json.dumps({k:props[b][k] for k in ('id','title','statement','quantifier','anchors')},indent=1))
    open('/tmp/seedbrief_%s_%d.md'%(TAG,n),'w').write(txt)
print('briefs written')
