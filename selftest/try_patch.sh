#!/bin/sh
# usage: selftest/try_patch.sh <patch-file|-R:commit> <Cxx> [tier]
# Applies a patch to a scratch copy of /repo (outside /repo and /verif), runs the check against it, removes the copy.
set -u
PATCH="$1"; PROP="$2"; TIER="${3:-quick}"
DIR="$(cd "$(dirname "$0")/.." && pwd)"
SCR="$(mktemp -d /tmp/mofun_scratch.XXXXXX)"
OUT="$(mktemp -d /tmp/mofun_out.XXXXXX)"
trap 'rm -rf "$SCR" "$OUT"' EXIT
git -C /repo archive HEAD | tar -x -C "$SCR"
# include uncommitted working-tree state of /repo as well
(cd /repo && git diff HEAD) | (cd "$SCR" && patch -p1 -s >/dev/null 2>&1 || true)
case "$PATCH" in
  -R:*) (cd /repo && git show "${PATCH#-R:}") | (cd "$SCR" && patch -R -p1 -s) || { echo "reverse patch failed"; exit 9; } ;;
  none) ;;
  *) (cd "$SCR" && patch -p1 -s < "$PATCH") || { echo "patch failed"; exit 9; } ;;
esac
cd "$DIR" && MOFUN_REPO="$SCR" PYVC_OUT_DIR="$OUT" bin/check "$PROP" "$TIER" > "$OUT/log" 2>&1
RC=$?
sed "s|$SCR|<scratch>|g; s|$OUT|<out>|g" "$OUT/log" | cut -c1-300 | head -${MAXLINES:-30}
exit $RC
