"""Deliberate property-breaking edits (and harmless refactorings) used to validate the checks.
Each entry: id, file, old, new, property, expect ('violation' | 'pass').  Applied to a scratch copy only."""
M = []
def m(id, file, old, new, prop, expect='violation', note=''):
    M.append(dict(id=id, file=file, old=old, new=new, prop=prop, expect=expect, note=note))

# ---- C14
m('c14-one-sided', 'mofun/helpers.py', 'delta = abs(elmass - mass)', 'delta = elmass - mass', 'C14')
m('c14-le', 'mofun/helpers.py', 'if delta < best_delta:', 'if delta <= best_delta:', 'C14', note='ties / boundary: picks later element and accepts delta == tol')
m('c14-first-not-nearest', 'mofun/helpers.py', '                best_delta = delta\n', '', 'C14', note='keeps tolerance as threshold: last element within tolerance wins')
m('c14-rename-harmless', 'mofun/helpers.py', 'delta = abs(elmass - mass)\n            if delta < best_delta:\n                best_sym = sym\n                best_delta = delta',
  'dist = abs(mass - elmass)\n            if dist < best_delta:\n                best_sym = sym\n                best_delta = dist', 'C14', 'pass')
# ---- C18
m('c18-rbo-sign', 'mofun/rough_uff.py', 'rBO = -0.1332 *', 'rBO = 0.1332 *', 'C18')
m('c18-zz', 'mofun/rough_uff.py', 'kij = 664.12 * zi * zj / (rij**3)', 'kij = 664.12 * zi * zi / (rij**3)', 'C18')
m('c18-angle-b', 'mofun/rough_uff.py', '            n = 3\n            b = -1', '            n = 3\n            b = 1', 'C18')
m('c18-dih-n6', 'mofun/rough_uff.py', '        n = 6\n', '        n = 3\n', 'C18')
m('c18-ren-denominator', 'mofun/rough_uff.py', '(chii * ri + chij * rj)', '(chii * rj + chij * ri)', 'C18')
m('c18-oxy-asym', 'mofun/rough_uff.py', 'v2 = 2. if el[2] == "O" else 6.8', 'v2 = 2. if el[1] == "O" else 6.8', 'C18')
m('c18-bo-resonant', 'mofun/rough_uff.py', "bond_atom_types <= {'C_R', 'N_R', 'O_R'}:\n        return 1.5", "bond_atom_types <= {'C_R', 'N_R', 'O_R'}:\n        return 1.4", 'C18')
m('c18-angle-rik', 'mofun/rough_uff.py', 'rik = sqrt(rij**2 + rjk**2 - 2 * rij * rjk * cos(theta0rad))', 'rik = sqrt(rij**2 + rjk**2 + 2 * rij * rjk * cos(theta0rad))', 'C18')
m('c18-harmless-commute', 'mofun/rough_uff.py', 'rij = ri + rj + rBO - rEN', 'rij = rj + ri - rEN + rBO', 'C18', 'pass')
m('c18-pair-sigma', 'mofun/rough_uff.py', '(2**(-1./6.))', '(2**(1./6.))', 'C18')
# ---- C10
m('c10-gt-i-plus-1', 'mofun/atoms.py', 'where=updated_arr>i)', 'where=updated_arr>i+1)', 'C10')
m('c10-ge-equivalent', 'mofun/atoms.py', 'where=updated_arr>i)', 'where=updated_arr>=i)', 'C10', 'pass', note='equivalent mutant: survivors never equal a deleted index')
m('c10-any-to-all', 'mofun/atoms.py', 'if np.any([a in sorted_deleted_indices for a in atom_idx_tuple]):', 'if np.all([a in sorted_deleted_indices for a in atom_idx_tuple]):', 'C10')
m('c10-append-off', 'mofun/atoms.py', 'arr_idx_to_delete.append(i)', 'arr_idx_to_delete.append(i + 1)', 'C10')
m('c10-ascending', 'mofun/atoms.py', 'sorted_indices = sorted(indices, reverse=True)', 'sorted_indices = sorted(indices)', 'C10')
m('c10-subtract-2', 'mofun/atoms.py', 'np.subtract(updated_arr, 1, out=updated_arr', 'np.subtract(updated_arr, 2, out=updated_arr', 'C10')
m('c10-types-not-deleted', 'mofun/atoms.py', '            self.angle_types = np.delete(self.angle_types, arr_idx_to_delete, axis=0)\n', '', 'C10')
m('c10-charges-not-deleted', 'mofun/atoms.py', '        self.charges = np.delete(self.charges, indices, axis=0)\n', '', 'C10')
m('c10-pop-noop', 'mofun/atoms.py', '        del(self[[pos]])', '        del(self, pos)', 'C10')
m('c10-pop-negative', 'mofun/atoms.py', '        if pos < 0:\n            pos += len(self)\n        del(self[[pos]])', '        del(self[[pos]])', 'C10')
# ---- C01
m('c01-rtol-default', 'mofun/mofun.py', 'chk_pattern.positions, rtol=0, atol=atol)', 'chk_pattern.positions, atol=atol)', 'C01')
m('c01-atol-doubled', 'mofun/mofun.py', 'chk_pattern.positions, rtol=0, atol=atol)', 'chk_pattern.positions, rtol=0, atol=2*atol)', 'C01')
m('c01-translate-wrong-anchor', 'mofun/mofun.py', 'chk_pattern.translate(atom_positions[axisp1_idx])', 'chk_pattern.translate(atom_positions[axisp2_idx])', 'C01', note='re-check anchored at the wrong atom: rejects everything or accepts wrong poses')
m('c01-quat-stored-before-second-rotation', 'mofun/mofun.py', '            quats.append(q)\n            chk_pattern = pattern.copy()', '            chk_pattern = pattern.copy()', 'C01', note='no rotation stored')
m('c01-no-recheck', 'mofun/mofun.py', '            if np.allclose(atom_positions, chk_pattern.positions, rtol=0, atol=atol):\n                good_indices.append(i)', '            good_indices.append(i)', 'C01', note='mirror images and symmetric mis-orderings reported')
m('c01-mod-wrong', 'mofun/mofun.py', 'match_index_tuples_in_uc = [tuple([near_indices[m] % len(structure) for m in match]) for match in good_match_index_tuples]', 'match_index_tuples_in_uc = [tuple([near_indices[m] % (len(structure) + 1) for m in match]) for match in good_match_index_tuples]', 'C01')
m('c01-harmless-rename', 'mofun/mofun.py', '            chk_pattern = pattern.copy()\n            chk_pattern.positions = q.apply(chk_pattern.positions)\n            chk_pattern.translate(atom_positions[axisp1_idx])', '            chk_pattern = pattern.copy()\n            chk_pattern.positions = q.apply(chk_pattern.positions)\n            chk_pattern.translate(atom_positions[axisp1_idx])\n            unused_debug_value = 0', 'C01', 'pass')
# ---- C07
m('c07-and-ignore', 'mofun/mofun.py', 'if (to_delete.isdisjoint(to_delete_linker) or ignore_atoms_should_not_be_deleted_twice):', 'if (to_delete.isdisjoint(to_delete_linker) and not ignore_atoms_should_not_be_deleted_twice):', 'C07')
m('c07-retained-not-excluded', 'mofun/mofun.py', 'to_delete_linker = set(match_indices[m_i]) - set(structure_index_map.values())', 'to_delete_linker = set(match_indices[m_i])', 'C07')
m('c07-overwrite-set', 'mofun/mofun.py', '                to_delete |= set(to_delete_linker)', '                to_delete = set(to_delete_linker)', 'C07')
m('c07-silent', 'mofun/mofun.py', '                raise AtomsShouldNotBeDeletedTwice()', '                pass', 'C07')
m('c07-keys-instead-of-values', 'mofun/mofun.py', 'set(match_indices[m_i]) - set(structure_index_map.values())', 'set(match_indices[m_i]) - set(structure_index_map.keys())', 'C07')
# ---- C16
m('c16-swap-xy', 'mofun/atoms.py', "float(a['x3']), float(a['y3']), float(a['z3'])) for a in atom_dicts]", "float(a['y3']), float(a['x3']), float(a['z3'])) for a in atom_dicts]", 'C16')
m('c16-first-ref-twice', 'mofun/atoms.py', 'bonds = [(id_to_idx[b1], id_to_idx[b2]) for (b1,b2) in bonds_by_ids]', 'bonds = [(id_to_idx[b1], id_to_idx[b1]) for (b1,b2) in bonds_by_ids]', 'C16')
m('c16-id-number-parse', 'mofun/atoms.py', 'id_to_idx = {id:i for i, id in enumerate(ids)}', 'id_to_idx = {id:int(id[1:]) - 1 for i, id in enumerate(ids)}', 'C16', note='assumes ids are a1..aN in order')
m('c16-harmless-rename', 'mofun/atoms.py', 'id_to_idx = {id:i for i, id in enumerate(ids)}', 'id_to_idx = {atom_id:k for k, atom_id in enumerate(ids)}', 'C16', 'pass')
# ---- C13
m('c13-bond-id-0-based', 'mofun/atoms.py', 'f.write(" %d %d %d %d   # %s\\n" % (i + 1, self.bond_types[i] + 1, *(np.array(tup) + 1)', 'f.write(" %d %d %d %d   # %s\\n" % (i + 1, self.bond_types[i] + 1, *(np.array(tup))', 'C13')
m('c13-full-charge-group-swapped', 'mofun/atoms.py', '(i + 1, self.groups[i] + 1, self.atom_types[i] + 1, self.charges[i], x, y, z,', '(i + 1, self.atom_types[i] + 1, self.groups[i] + 1, self.charges[i], x, y, z,', 'C13')
m('c13-tilt-order', 'mofun/atoms.py', '(self.cell[1,0], self.cell[2,0], self.cell[2,1]))', '(self.cell[1,0], self.cell[2,1], self.cell[2,0]))', 'C13')
m('c13-angle-count', 'mofun/atoms.py', "f.write('%d angles\\n' % len(self.angle_types))", "f.write('%d angles\\n' % len(self.bond_types))", 'C13')
m('c13-reader-type-col', 'mofun/atoms.py', '            atom_types = np.array(atoms[:, 2] - 1, dtype=int)\n            charges = np.array(atoms[:, 3], dtype=float)', '            atom_types = np.array(atoms[:, 2], dtype=int) - 1\n            charges = np.array(atoms[:, 3], dtype=float)', 'C13', 'pass', note='equivalent reader refactoring')
# ---- C20
m('c20-atol-not-wired', 'mofun/cli/mofun_cli.py', 'atoms = replace_pattern_in_structure(atoms, search_pattern, replace_pattern, atol=atol,', 'atoms = replace_pattern_in_structure(atoms, search_pattern, replace_pattern,', 'C20')
m('c20-hints-swapped', 'mofun/cli/mofun_cli.py', 'axisp1_idx=axisp1_idx, axisp2_idx=axisp2_idx, opoint_idx=opoint_idx, replace_fraction=replace_fraction)', 'axisp1_idx=axisp2_idx, axisp2_idx=axisp1_idx, opoint_idx=opoint_idx, replace_fraction=replace_fraction)', 'C20')
m('c20-find-atol-dropped', 'mofun/cli/mofun_cli.py', 'results = find_pattern_in_structure(atoms, search_pattern, atol=atol)', 'results = find_pattern_in_structure(atoms, search_pattern)', 'C20')
m('c20-replace-loads-find-file', 'mofun/cli/mofun_cli.py', 'replace_pattern = Atoms.load(replace_path)', 'replace_pattern = Atoms.load(find_path)', 'C20')
m('c20-harmless-rename', 'mofun/cli/mofun_cli.py', '        search_pattern = Atoms.load(find_path)\n        if replace_path is not None:\n            replace_pattern = Atoms.load(replace_path)\n            atoms = replace_pattern_in_structure(atoms, search_pattern, replace_pattern, atol=atol,', '        pattern_to_find = Atoms.load(find_path)\n        search_pattern = pattern_to_find\n        if replace_path is not None:\n            replace_pattern = Atoms.load(replace_path)\n            atoms = replace_pattern_in_structure(atoms, search_pattern, replace_pattern, atol=atol,', 'C20', 'pass')
# ---- C11 (body of Atoms.extend)
m('c11-bond-offset-index', 'mofun/atoms.py', 'self.bond_types = np.append(self.bond_types, other.bond_types + offsets[1])', 'self.bond_types = np.append(self.bond_types, other.bond_types + offsets[2])', 'C11')
m('c11-no-reverse-match', 'mofun/atoms.py', '            return forward_dir + reverse_dir', '            return forward_dir', 'C11')
m('c11-offset-dropped', 'mofun/atoms.py', 'structure_index_map2 = {a:i + atom_idx_offset for i,a in enumerate(atoms_to_add)}', 'structure_index_map2 = {a:i for i,a in enumerate(atoms_to_add)}', 'C11')
m('c11-groups-from-charges', 'mofun/atoms.py', 'self.groups = np.append(self.groups, other.groups[atoms_to_add], axis=0)', 'self.groups = np.append(self.groups, other.charges[atoms_to_add], axis=0)', 'C11')
m('c11-mapped-type-no-offset', 'mofun/atoms.py', 'self.atom_types[self_index] = other.atom_types[other_index] + offsets[0]', 'self.atom_types[self_index] = other.atom_types[other_index]', 'C11')
m('c11-angle-extra-not-deleted', 'mofun/atoms.py', '            self.extra_angle_fields = np.delete(self.extra_angle_fields, existing_angle_indices, axis=0)\n', '', 'C11')
m('c11-harmless-local-rename', 'mofun/atoms.py', '        atom_idx_offset = len(self.positions)\n', '        atom_idx_offset = len(self.positions)\n        n_before = atom_idx_offset\n', 'C11', 'pass')
