#!/usr/bin/env python3
"""usage: selftest/mutation_survey.py [--max N] [--jobs J] [--out FILE] [--only file:function ...]
Systematic first-order mutants of the functions the properties are anchored in (operator, constant, subscript and keyword mutations spliced into
the source text), each applied to a scratch copy of /repo under /tmp:
  1. run the repository's test suite; mutants it kills are of no interest (the checks are about what the tests cannot settle);
  2. for each SURVIVOR run the quick check of every property anchored in that function: violation / undecided / pass.
A surviving mutant that every check passes is either an equivalent mutant or a gap: the list at the end is for a human to triage.
Nothing is written to /repo or /verif except the report (default /tmp/mutation_survey.json)."""
import ast, collections, concurrent.futures as cf, json, os, random, re, shutil, subprocess, sys, tempfile, time

ROOT = os.path.dirname(os.path.dirname(os.path.abspath(__file__)))
PY = '/venv/bin/python'
args = sys.argv[1:]
def opt(name, default):
    return type(default)(args[args.index(name) + 1]) if name in args else default
MAX = opt('--max', 300)
JOBS = opt('--jobs', 14)
OUT = opt('--out', '/tmp/mutation_survey.json')
ONLY = [a for i, a in enumerate(args) if i > 0 and args[i - 1] == '--only']
OPS = opt('--ops', '')                  # only mutations whose description starts with one of these comma-separated words
EXCLUDE = opt('--exclude', '')          # report of an earlier run: its mutants are not drawn again

anchors = collections.defaultdict(set)
for l in open(os.path.join(ROOT, 'properties.jsonl')):
    d = json.loads(l)
    for mech in d['anchors']['mechanism']:
        for part in re.split(r';\s*', mech['where']):
            mm = re.match(r'(mofun/[\w/]+\.py):([\w\.]+)', part.strip())
            if mm and not mm.group(1).endswith('uff4mof.py'):
                anchors[(mm.group(1), mm.group(2))].add(d['id'])


# functions the anchored ones call (not named in the properties' anchors): --extra surveys these instead
EXTRA = {
    ('mofun/helpers.py', 'atoms_by_type_dict'): {'C01', 'C02'}, ('mofun/helpers.py', 'group_duplicates'): {'C02', 'C03'},
    ('mofun/helpers.py', 'position_index_farthest_from_axis'): {'C01', 'C02', 'C03'}, ('mofun/helpers.py', 'quaternion_from_two_vectors_around_axis'): {'C01', 'C02'},
    ('mofun/helpers.py', 'atoms_of_type'): {'C01', 'C02'}, ('mofun/helpers.py', 'guess_elements_from_masses'): {'C14'},
    ('mofun/atoms.py', 'Atoms.__init__'): {'C09', 'C13', 'C16'}, ('mofun/atoms.py', 'Atoms.__getitem__'): {'C09'}, ('mofun/atoms.py', 'Atoms.elements'): {'C01', 'C09'},
    ('mofun/atoms.py', 'Atoms.translate'): {'C05', 'C12'}, ('mofun/atoms.py', 'Atoms.label_atoms'): {'C13'}, ('mofun/atoms.py', 'Atoms.num_bond_types'): {'C09', 'C11', 'C13'},
    ('mofun/atoms.py', 'Atoms.num_angle_types'): {'C09', 'C11', 'C13'}, ('mofun/atoms.py', 'Atoms.num_dihedral_types'): {'C09', 'C11', 'C13'},
    ('mofun/atoms.py', 'Atoms.num_improper_types'): {'C09', 'C11', 'C13'}, ('mofun/atoms.py', 'Atoms.cell_is_orthorhombic'): {'C02', 'C13'},
    ('mofun/atoms.py', 'Atoms.save'): {'C13', 'C15'}, ('mofun/atoms.py', 'Atoms.copy'): {'C09'}, ('mofun/atoms.py', 'Atoms.__len__'): {'C09', 'C10'},
    ('mofun/rough_uff.py', 'guess_bond_order'): {'C18'}, ('mofun/rough_uff.py', 'calc_dihedrals'): {'C19'}, ('mofun/rough_uff.py', 'delete_if_all_in_set'): {'C19'},
    ('mofun/rough_uff.py', 'assign_angle_types'): {'C19'}, ('mofun/rough_uff.py', 'angle2lammpsdat'): {'C19'}, ('mofun/rough_uff.py', 'dihedral2lammpsdat'): {'C19'},
    ('mofun/cli/mofun_cli.py', 'assign_pair_params_to_structure'): {'C20'}, ('mofun/uff4mof.py', 'uff_key_starts_with'): {'C20'},
}
if '--extra' in args:
    anchors = collections.defaultdict(set, {k: set(v) for k, v in EXTRA.items()})


def functions(tree):
    out = {}
    def walk(node, prefix):
        for n in ast.iter_child_nodes(node):
            if isinstance(n, (ast.FunctionDef, ast.ClassDef)):
                q = prefix + n.name
                if isinstance(n, ast.FunctionDef):
                    out[q] = n
                walk(n, q + '.')
    walk(tree, '')
    return out

CMP = {ast.Lt: '<=', ast.LtE: '<', ast.Gt: '>=', ast.GtE: '>', ast.Eq: '!=', ast.NotEq: '=='}
BIN = {ast.Add: '-', ast.Sub: '+', ast.Mult: '/', ast.Div: '*'}


def mutants_of(src, fn):
    """Yields (description, start offset, end offset, replacement text)."""
    lines = src.splitlines(keepends=True)
    starts = [0]
    for l in lines:
        starts.append(starts[-1] + len(l))
    def off(lineno, col):
        return starts[lineno - 1] + len(lines[lineno - 1].encode()[:col].decode())
    for n in ast.walk(fn):
        if not hasattr(n, 'lineno') or not hasattr(n, 'end_lineno'):
            continue
        a, b = off(n.lineno, n.col_offset), off(n.end_lineno, n.end_col_offset)
        seg = src[a:b]
        if isinstance(n, ast.Compare) and len(n.ops) == 1 and type(n.ops[0]) in CMP:
            l, r = n.left, n.comparators[0]
            la, lb = off(l.lineno, l.col_offset), off(l.end_lineno, l.end_col_offset)
            ra, rb = off(r.lineno, r.col_offset), off(r.end_lineno, r.end_col_offset)
            yield ('compare %s -> %s' % (type(n.ops[0]).__name__, CMP[type(n.ops[0])]), a, b, "%s %s %s" % (src[la:lb], CMP[type(n.ops[0])], src[ra:rb]))
        elif isinstance(n, ast.BinOp) and type(n.op) in BIN:
            l, r = n.left, n.right
            la, lb = off(l.lineno, l.col_offset), off(l.end_lineno, l.end_col_offset)
            ra, rb = off(r.lineno, r.col_offset), off(r.end_lineno, r.end_col_offset)
            yield ('binop %s -> %s' % (type(n.op).__name__, BIN[type(n.op)]), a, b, "(%s %s %s)" % (src[la:lb], BIN[type(n.op)], src[ra:rb]))
        elif isinstance(n, ast.Constant) and isinstance(n.value, int) and not isinstance(n.value, bool) and -3 <= n.value <= 6:
            yield ('constant %d -> %d' % (n.value, n.value + 1), a, b, str(n.value + 1))
            if n.value > 0:
                yield ('constant %d -> %d' % (n.value, n.value - 1), a, b, str(n.value - 1))
        elif isinstance(n, ast.Constant) and isinstance(n.value, bool):
            yield ('constant %r -> %r' % (n.value, not n.value), a, b, str(not n.value))
        elif isinstance(n, ast.BoolOp):
            opn = ' or ' if isinstance(n.op, ast.And) else ' and '
            parts = [src[off(v.lineno, v.col_offset):off(v.end_lineno, v.end_col_offset)] for v in n.values]
            yield ('boolop -> %s' % opn.strip(), a, b, "(" + opn.join("(%s)" % p for p in parts) + ")")
        elif isinstance(n, ast.UnaryOp) and isinstance(n.op, ast.Not):
            o = n.operand
            yield ('not removed', a, b, "(%s)" % src[off(o.lineno, o.col_offset):off(o.end_lineno, o.end_col_offset)])
        elif isinstance(n, ast.If) and not n.orelse and len(n.body) >= 1:
            t = n.test
            ta, tb = off(t.lineno, t.col_offset), off(t.end_lineno, t.end_col_offset)
            yield ('if condition -> True', ta, tb, "True")
        elif isinstance(n, ast.Expr) and isinstance(n.value, ast.Call) and n.lineno == n.end_lineno:
            yield ('statement removed: %s' % seg[:40], a, b, "pass")
        elif isinstance(n, ast.AugAssign) and type(n.op) in BIN:
            t, v = n.target, n.value
            yield ('augassign %s -> %s=' % (type(n.op).__name__, BIN[type(n.op)]), a, b, "%s %s= %s" % (
                src[off(t.lineno, t.col_offset):off(t.end_lineno, t.end_col_offset)], BIN[type(n.op)], src[off(v.lineno, v.col_offset):off(v.end_lineno, v.end_col_offset)]))
        elif isinstance(n, (ast.Attribute, ast.Name)) and isinstance(getattr(n, 'ctx', None), ast.Load):
            # copy-and-paste slips between the four kinds of term (and between the x / y / z or 1 / 2 variants of a name)
            name = n.attr if isinstance(n, ast.Attribute) else n.id
            for x, y in (('bond', 'angle'), ('angle', 'dihedral'), ('dihedral', 'improper'), ('improper', 'bond'), ('cellx', 'celly'), ('celly', 'cellz'),
                         ('axisp1', 'axisp2'), ('axisp2', 'axisp1'), ('search_pattern', 'replace_pattern'), ('replace_pattern', 'search_pattern')):
                if x in name and y not in name:
                    new = name.replace(x, y)
                    if isinstance(n, ast.Attribute):
                        v = n.value
                        yield ('name %s -> %s' % (name, new), a, b, "%s.%s" % (src[off(v.lineno, v.col_offset):off(v.end_lineno, v.end_col_offset)], new))
                    else:
                        yield ('name %s -> %s' % (name, new), a, b, new)
                    break


def run_tests(scr):
    p = subprocess.run([PY, '-m', 'pytest', '-q', '-x', '-p', 'no:cacheprovider', '--timeout=600', 'tests'], cwd=scr, capture_output=True, text=True,
                       env=dict(os.environ, PYTHONPATH=scr))
    return p.returncode == 0


def work(job):
    mid, rel, q, desc, a, b, rep, props = job
    scr = tempfile.mkdtemp(prefix='mut_scratch.')
    out = tempfile.mkdtemp(prefix='mut_out.')
    res = dict(id=mid, file=rel, function=q, mutation=desc, props=sorted(props))
    try:
        subprocess.run('git -C /repo archive HEAD | tar -x -C %s' % scr, shell=True, check=True)
        path = os.path.join(scr, rel)
        src = open(path).read()
        new = src[:a] + rep + src[b:]
        try:
            compile(new, rel, 'exec')
        except SyntaxError:
            res['status'] = 'does-not-compile'
            return res
        open(path, 'w').write(new)
        ln = src[:a].count('\n') + 1
        res['line'] = ln
        res['old'] = src[a:b][:80]
        res['new'] = rep[:80]
        if not run_tests(scr):
            res['status'] = 'killed-by-tests'
            return res
        res['status'] = 'survives-tests'
        res['checks'] = {}
        for pr in sorted(props):
            # the bounded stage alone first (seconds); the full check (deductive stage included) only if that finds nothing
            for extra in ({'PYVC_SKIP_DEDUCTIVE': '1'}, {}):
                r = subprocess.run([os.path.join(ROOT, 'bin', 'check'), pr, 'quick'], capture_output=True, text=True,
                                   env=dict(os.environ, MOFUN_REPO=scr, PYVC_OUT_DIR=out, PYVC_JOBS='4', PYVC_BUILD_BUDGET_S='120', **extra))
                if r.returncode == 1 and any(l.startswith('VIOLATION') for l in r.stdout.splitlines()):
                    break
            viol = [l for l in r.stdout.splitlines() if l.startswith('VIOLATION')]
            got = 'violation' if r.returncode == 1 and viol else {0: 'pass', 2: 'undecided', 3: 'checker-error'}.get(r.returncode, 'rc%d' % r.returncode)
            why = [l for l in r.stdout.splitlines() if l.startswith('# ') or l.startswith('UNDECIDED') or l.startswith('CHECKER')]
            res['checks'][pr] = dict(result=got, stage=('bounded' if extra else 'full'), why=(why or [''])[0][:200].replace(scr, '<scr>'))
        return res
    finally:
        shutil.rmtree(scr, ignore_errors=True)
        shutil.rmtree(out, ignore_errors=True)


def main():
    jobs = []
    rnd = random.Random(1)
    for (rel, q), props in sorted(anchors.items()):
        if ONLY and ('%s:%s' % (rel, q)) not in ONLY:
            continue
        src = open(os.path.join('/repo', rel)).read()
        fns = functions(ast.parse(src))
        if q not in fns:
            continue
        ms = list(mutants_of(src, fns[q]))
        if OPS:
            ms = [m_ for m_ in ms if any(m_[0].startswith(o) for o in OPS.split(','))]
        # nested functions are walked with their parents: attribute each mutant once (to the innermost anchored function is not needed here)
        rnd.shuffle(ms)
        for desc, a, b, rep in ms:
            jobs.append((rel, q, desc, a, b, rep, props))
    # de-duplicate by (file, span, replacement); spread over functions
    seen, uniq = set(), []
    for j in jobs:
        k = (j[0], j[3], j[4], j[5])
        if k not in seen:
            seen.add(k)
            uniq.append(j)
    if EXCLUDE and os.path.exists(EXCLUDE):
        done = set()
        for x in json.load(open(EXCLUDE)):
            done.add((x['file'], x['function'], x['mutation'], x.get('line')))
        def line_of(j):
            return open(os.path.join('/repo', j[0])).read()[:j[3]].count('\n') + 1
        before = len(uniq)
        uniq = [j for j in uniq if (j[0], j[1], j[2], line_of(j)) not in done]
        print("excluding %d mutants of %s" % (before - len(uniq), EXCLUDE), flush=True)
    rnd.shuffle(uniq)
    by_fn = collections.defaultdict(list)
    for j in uniq:
        by_fn[(j[0], j[1])].append(j)
    picked = []
    while len(picked) < MAX and any(by_fn.values()):
        for k in sorted(by_fn):
            if by_fn[k] and len(picked) < MAX:
                picked.append(by_fn[k].pop())
    picked = [(i,) + j for i, j in enumerate(picked)]
    print("%d candidate mutants, %d picked over %d functions" % (len(uniq), len(picked), len(by_fn)), flush=True)
    results = []
    t0 = time.time()
    with cf.ThreadPoolExecutor(max_workers=JOBS) as ex:
        for r in ex.map(work, picked):
            results.append(r)
            if r.get('status') == 'survives-tests':
                ck = r['checks']
                verdict = 'DETECTED' if any(c['result'] == 'violation' for c in ck.values()) else ('undecided' if any(c['result'] == 'undecided' for c in ck.values()) else 'NOT-DETECTED')
                r['verdict'] = verdict
                print("%-13s %s:%s L%s  %s   [%s -> %s]  %s" % (verdict, r['file'], r['function'], r.get('line'), r['mutation'], r.get('old', '')[:40], r.get('new', '')[:40],
                                                                  {p: c['result'] for p, c in ck.items()}), flush=True)
            json.dump(results, open(OUT, 'w'), indent=1)
    surv = [r for r in results if r.get('status') == 'survives-tests']
    c = collections.Counter(r['verdict'] for r in surv)
    print("done in %.0f s: %d mutants, %d killed by the tests, %d do not compile, %d survive: %s" % (
        time.time() - t0, len(results), sum(r.get('status') == 'killed-by-tests' for r in results), sum(r.get('status') == 'does-not-compile' for r in results), len(surv), dict(c)))


if __name__ == '__main__':
    main()
