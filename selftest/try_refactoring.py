#!/usr/bin/env python3
"""usage: selftest/try_refactoring.py <dir> [--keep] [--no-tests] [extra props]
A behaviour-preserving refactoring (patch.diff + meta.json) must NOT be reported as a violation: applies it to a scratch copy of /repo,
runs the existing tests and the property's quick check.  Outcome: pass (exit 0: proofs and bounded stage still go through), undecided
(exit 2: a contract no longer applies to the rewritten code -- no alarm, but the proof has to be re-done) or FALSE-ALARM (exit 1).
With --keep copies the refactoring into /verif/refactorings/<name>/ and records what was run."""
import json, os, shutil, subprocess, sys, tempfile, time
ROOT = os.path.dirname(os.path.dirname(os.path.abspath(__file__)))
args = [a for a in sys.argv[1:] if not a.startswith('--')]
keep = '--keep' in sys.argv
notests = '--no-tests' in sys.argv
sd = os.path.abspath(args[0])
meta = json.load(open(os.path.join(sd, 'meta.json')))
prop = meta['property']
props = list(dict.fromkeys([prop] + args[1:]))
name = os.path.basename(sd.rstrip('/'))
scr = tempfile.mkdtemp(prefix='mofun_scratch.')
out = tempfile.mkdtemp(prefix='mofun_out.')
PY = '/venv/bin/python'
rec = {'checks': {}}
try:
    subprocess.run('git -C /repo archive HEAD | tar -x -C %s' % scr, shell=True, check=True)
    p = subprocess.run(['patch', '-p1', '-s', '-i', os.path.join(sd, 'patch.diff')], cwd=scr, capture_output=True, text=True)
    rec['patch_applies'] = p.returncode == 0
    if not notests:
        p = subprocess.run([PY, '-m', 'pytest', '-q', '-p', 'no:cacheprovider', '--timeout=900', '-q', 'tests'], cwd=scr, capture_output=True, text=True,
                           env=dict(os.environ, PYTHONPATH=scr))
        rec['existing_tests_pass'] = not [l for l in p.stdout.splitlines() if l.startswith('FAILED') or l.startswith('ERROR')]
        rec['pytest_summary'] = ([l for l in p.stdout.splitlines() if 'passed' in l or 'failed' in l][-1:] or [''])[0]
        if os.path.exists(os.path.join(scr, 'test-01.cif')):
            os.unlink(os.path.join(scr, 'test-01.cif'))
    for pr in props:
        t0 = time.time()
        r = subprocess.run([os.path.join(ROOT, 'bin', 'check'), pr, 'quick'], capture_output=True, text=True, env=dict(os.environ, MOFUN_REPO=scr, PYVC_OUT_DIR=out))
        viol = [l for l in r.stdout.splitlines() if l.startswith('VIOLATION')]
        why = [l for l in r.stdout.splitlines() if l.startswith('# ') or l.startswith('UNDECIDED') or l.startswith('CHECKER')]
        got = 'FALSE-ALARM' if r.returncode == 1 and viol else {0: 'pass', 2: 'undecided', 3: 'checker-error'}.get(r.returncode, 'rc%d' % r.returncode)
        rec['checks'][pr] = {'result': got, 'wall_s': round(time.time() - t0, 1), 'first_reason': (why or [''])[0].replace(scr, '<scratch>').replace(out, '<out>')[:300]}
    print("%-12s applies=%s tests=%s" % (name, rec['patch_applies'], rec.get('existing_tests_pass')))
    for pr, c in rec['checks'].items():
        print("   check %s: %-11s %5.1fs  %s" % (pr, c['result'], c['wall_s'], c['first_reason'][:220]))
    if keep and rec['patch_applies']:
        dst = os.path.join(ROOT, 'refactorings', name)
        os.makedirs(dst, exist_ok=True)
        if os.path.abspath(os.path.join(sd, 'patch.diff')) != os.path.abspath(os.path.join(dst, 'patch.diff')):
            shutil.copy(os.path.join(sd, 'patch.diff'), os.path.join(dst, 'patch.diff'))
        meta.update({'main_session': rec, 'repo_head': subprocess.run(['git', '-C', '/repo', 'rev-parse', '--short', 'HEAD'], capture_output=True, text=True).stdout.strip()})
        json.dump(meta, open(os.path.join(dst, 'meta.json'), 'w'), indent=1)
finally:
    shutil.rmtree(scr, ignore_errors=True)
    shutil.rmtree(out, ignore_errors=True)
