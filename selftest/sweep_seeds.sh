#!/bin/sh
# Runs every kept seed against its property's quick check (scratch copies under /tmp); prints one line per seed.
DIR="$(cd "$(dirname "$0")/.." && pwd)"
cd "$DIR"
ls seeded | xargs -P 6 -I{} sh -c 'python3 selftest/try_seed.py seeded/{} --no-tests 2>&1 | grep "check " | sed "s/^/{} /" | cut -c1-160'
