#!/usr/bin/env python3
"""usage: selftest/try_seed.py <seed-dir> [--keep] [--tier quick|thorough] [--no-tests]
Confirms a seeded defect (patch.diff + demo.py + meta.json): applies to a scratch copy of /repo, existing tests still pass, demo passes
without / fails with the change; then runs the property's check against the changed copy.  With --keep copies the seed into
/verif/seeded/<name>/ and records what was run in meta.json."""
import json, os, shutil, subprocess, sys, tempfile, time
ROOT = os.path.dirname(os.path.dirname(os.path.abspath(__file__)))
args = [a for a in sys.argv[1:] if not a.startswith('--')]
keep = '--keep' in sys.argv
notests = '--no-tests' in sys.argv
tier = 'thorough' if '--thorough' in sys.argv else 'quick'
sd = os.path.abspath(args[0])
meta = json.load(open(os.path.join(sd, 'meta.json')))
prop = meta['property']
props = [prop] + [a for a in meta.get('also_check', []) + args[1:] if a != prop]
props = list(dict.fromkeys(props))
name = os.path.basename(sd.rstrip('/'))
scr = tempfile.mkdtemp(prefix='mofun_scratch.')
out = tempfile.mkdtemp(prefix='mofun_out.')
rec = {'property': prop, 'confirmed': {}, 'checks': {}}
PY = '/venv/bin/python'
try:
    subprocess.run('git -C /repo archive HEAD | tar -x -C %s' % scr, shell=True, check=True)
    def demo():
        p = subprocess.run([PY, os.path.join(sd, 'demo.py')], cwd=scr, env=dict(os.environ, PYTHONPATH=scr), capture_output=True, text=True, timeout=1800)
        return p.returncode, (p.stdout + p.stderr)[-400:]
    rc0, o0 = demo()
    rec['confirmed']['demo_passes_without_change'] = (rc0 == 0)
    p = subprocess.run(['patch', '-p1', '-s', '-i', os.path.join(sd, 'patch.diff')], cwd=scr, capture_output=True, text=True)
    rec['confirmed']['patch_applies'] = (p.returncode == 0)
    if p.returncode != 0:
        print("patch does not apply:", p.stdout, p.stderr)
    rc1, o1 = demo()
    rec['confirmed']['demo_fails_with_change'] = (rc1 != 0)
    rec['demo_output_with_change'] = o1.strip()[-300:]
    if not notests:
        p = subprocess.run([PY, '-m', 'pytest', '-q', '-p', 'no:cacheprovider', '--timeout=900', '-q', 'tests'], cwd=scr, capture_output=True, text=True,
                           env=dict(os.environ, PYTHONPATH=scr))
        tail = [l for l in p.stdout.splitlines() if 'passed' in l or 'failed' in l][-1:]
        failed = [l for l in p.stdout.splitlines() if l.startswith('FAILED')]
        rec['confirmed']['existing_tests_pass_with_change'] = (not failed)
        rec['pytest_summary'] = (tail or [''])[0]
        for f in ('test-01.cif',):
            if os.path.exists(os.path.join(scr, f)):
                os.unlink(os.path.join(scr, f))
    for pr in props:
        t0 = time.time()
        r = subprocess.run([os.path.join(ROOT, 'bin', 'check'), pr, tier], capture_output=True, text=True, env=dict(os.environ, MOFUN_REPO=scr, PYVC_OUT_DIR=out))
        viol = [l for l in r.stdout.splitlines() if l.startswith('VIOLATION')]
        why = [l for l in r.stdout.splitlines() if l.startswith('# ')]
        und = [l for l in r.stdout.splitlines() if l.startswith('UNDECIDED')]
        got = 'violation' if r.returncode == 1 and viol else {0: 'pass', 2: 'undecided', 3: 'checker-error'}.get(r.returncode, 'rc%d' % r.returncode)
        rec['checks'][pr] = {'tier': tier, 'result': got, 'wall_s': round(time.time() - t0, 1), 'first_reason': (why or und or [''])[0].replace(scr, '<scratch>').replace(out, '<out>')[:300]}
    ok = all(rec['confirmed'].values())
    print("%-12s confirmed=%s %s" % (name, ok, json.dumps(rec['confirmed'])))
    for pr, c in rec['checks'].items():
        print("   check %s [%s]: %-10s %5.1fs  %s" % (pr, c['tier'], c['result'], c['wall_s'], c['first_reason'][:200]))
    if keep and ok:
        dst = os.path.join(ROOT, 'seeded', name)
        os.makedirs(dst, exist_ok=True)
        for f in ('patch.diff', 'demo.py'):
            if os.path.abspath(os.path.join(sd, f)) != os.path.abspath(os.path.join(dst, f)):
                shutil.copy(os.path.join(sd, f), os.path.join(dst, f))
        if notests and 'confirmed_by_main_session' in meta:
            rec['confirmed'] = dict(meta['confirmed_by_main_session'], **rec['confirmed'])
            rec['pytest_summary'] = meta.get('pytest_summary_with_change')
        meta.update({'confirmed_by_main_session': rec['confirmed'], 'what_was_run': 'selftest/try_seed.py: demo on clean + patched scratch copy of /repo HEAD, pytest tests/ on patched copy, bin/check on patched copy',
                     'pytest_summary_with_change': rec.get('pytest_summary'), 'check_results': rec['checks'], 'repo_head': subprocess.run(['git', '-C', '/repo', 'rev-parse', '--short', 'HEAD'], capture_output=True, text=True).stdout.strip()})
        json.dump(meta, open(os.path.join(dst, 'meta.json'), 'w'), indent=1)
finally:
    shutil.rmtree(scr, ignore_errors=True)
    shutil.rmtree(out, ignore_errors=True)
