#!/bin/sh
# Runs the bounded stage of every property under many VERIF_SEED values on the unchanged tree (PYVC_SKIP_DEDUCTIVE: the deductive stage does not
# depend on the seed).  Any line that is not rc=0 is an oracle false alarm (or a defect) to look at.   usage: selftest/fuzz_seeds.sh 20 60
DIR="$(cd "$(dirname "$0")/.." && pwd)"
cd "$DIR"
LO=${1:-20}; HI=${2:-40}
for sd in $(seq $LO $HI); do
  for i in 01 02 03 04 05 06 07 08 09 10 11 12 13 14 15 16 17 19 20; do echo "$sd C$i"; done
done | xargs -P 8 -L 1 sh -c 'out=/tmp/seedfuzz_$0_$1; PYVC_SKIP_DEDUCTIVE=1 VERIF_SEED=$0 PYVC_OUT_DIR=$out bin/check $1 quick > $out.log 2>&1; rc=$?; if [ $rc -ne 0 ]; then echo "seed=$0 $1 rc=$rc $(grep -v KNOWN $out.log | tail -2 | head -1 | cut -c1-200)"; fi; rm -rf $out'
echo fuzz-done
