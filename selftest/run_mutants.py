#!/usr/bin/env python3
"""usage: selftest/run_mutants.py [id-prefix ...]   -- applies each mutant to a scratch copy of /repo (under /tmp, removed
afterwards) and runs the property's quick check against it."""
import os, shutil, subprocess, sys, tempfile, time
ROOT = os.path.dirname(os.path.dirname(os.path.abspath(__file__)))
sys.path.insert(0, os.path.join(ROOT, 'selftest'))
from mutants import M
sel = sys.argv[1:]
tier = os.environ.get('TIER', 'quick')
ok_all = True
for mu in M:
    if sel and not any(mu['id'].startswith(s) for s in sel):
        continue
    scr = tempfile.mkdtemp(prefix='mofun_scratch.')
    out = tempfile.mkdtemp(prefix='mofun_out.')
    try:
        subprocess.run('git -C /repo archive HEAD | tar -x -C %s' % scr, shell=True, check=True)
        p = os.path.join(scr, mu['file'])
        src = open(p).read()
        if src.count(mu['old']) != 1:
            print("%-28s PATCH-ERROR old text occurs %d times" % (mu['id'], src.count(mu['old'])))
            ok_all = False
            continue
        open(p, 'w').write(src.replace(mu['old'], mu['new']))
        t0 = time.time()
        r = subprocess.run([os.path.join(ROOT, 'bin', 'check'), mu['prop'], tier], capture_output=True, text=True,
                           env=dict(os.environ, MOFUN_REPO=scr, PYVC_OUT_DIR=out))
        viol = [l for l in r.stdout.splitlines() if l.startswith('VIOLATION')]
        got = 'violation' if r.returncode == 1 and viol else {0: 'pass', 2: 'undecided', 3: 'checker-error'}.get(r.returncode, 'rc%d' % r.returncode)
        good = got == mu['expect']
        ok_all &= good
        first = next((l for l in r.stdout.splitlines() if l.startswith('#') or l.startswith('UNDECIDED') or l.startswith('CHECKER')), '')
        ded = next((l for l in r.stdout.splitlines() if l.startswith('deductive stage:')), '')
        first = (ded.replace('deductive stage: ', '[').replace(' obligations refuted by the solver', ' refuted').replace('; bounded stage:', ' |') + '] ' if ded else '') + first
        print("%-28s %-4s expect=%-9s got=%-13s %5.1fs  %s" % (mu['id'], 'ok' if good else 'MISS', mu['expect'], got, time.time() - t0,
                                                             first.replace(scr, '<scr>').replace(out, '<out>')[:150]))
        sys.stdout.flush()
    finally:
        shutil.rmtree(scr, ignore_errors=True)
        shutil.rmtree(out, ignore_errors=True)
sys.exit(0 if ok_all else 1)
