"""The element symbols of the periodic table (Z = 1 .. 118), written down independently of the library and of ASE, plus the IUPAC systematic
placeholder symbols that older tables use for the elements named in 2016 (Z = 113 .. 118)."""
SYMBOLS = """H He Li Be B C N O F Ne Na Mg Al Si P S Cl Ar K Ca Sc Ti V Cr Mn Fe Co Ni Cu Zn Ga Ge As Se Br Kr Rb Sr Y Zr Nb Mo Tc Ru Rh Pd Ag Cd In Sn
Sb Te I Xe Cs Ba La Ce Pr Nd Pm Sm Eu Gd Tb Dy Ho Er Tm Yb Lu Hf Ta W Re Os Ir Pt Au Hg Tl Pb Bi Po At Rn Fr Ra Ac Th Pa U Np Pu Am Cm Bk Cf Es Fm Md
No Lr Rf Db Sg Bh Hs Mt Ds Rg Cn Nh Fl Mc Lv Ts Og""".split()
SYSTEMATIC = {'Uut': 113, 'Uuq': 114, 'Uup': 115, 'Uuh': 116, 'Uus': 117, 'Uuo': 118, 'Uub': 112}
assert len(SYMBOLS) == 118 and len(set(SYMBOLS)) == 118


def atomic_number(sym):
    """Z of a symbol of the periodic table (also systematic placeholder names), None for anything else (isotope names such as D or T, labels)."""
    if sym in SYMBOLS:
        return SYMBOLS.index(sym) + 1
    return SYSTEMATIC.get(sym)
