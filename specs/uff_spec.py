"""Independent implementation of the UFF functional forms (Rappe et al., JACS 1992, 114, 10024) as used for LAMMPS:
eqs 2-4 (bond length with bond-order and electronegativity corrections), 6 (bond force constant), 13 (angle force
constant), the linear / trigonal / square-planar / octahedral cosine forms vs the general Fourier form, 16-17 and the
torsion exceptions, and the Lennard-Jones conversion.  Table columns: 0 r1, 1 theta0, 2 x1, 3 D1, 5 Z1, 6 Vi, 7 Uj, 8 Xi."""
from math import sqrt, log, cos, sin, pi

SINGLE = {'H_', 'F_', 'Cl', 'Br', 'I_', 'C_3', 'N_3', 'O_3'}
GROUP6 = {'O', 'S', 'Se', 'Te', 'Po'}


def guess_bo(a, b, rules=None):
    if rules:
        for types, bo in rules:
            if set(types) == {a, b}:
                return bo
    if a in SINGLE or b in SINGLE:
        return 1
    if a == b and a in ('C_2', 'N_2', 'O_2'):
        return 2
    if a == b and a in ('C_R', 'N_R', 'O_R'):
        return 1.5
    return 1


def r_nat(T, a, b, bo):
    ri, rj = T[a][0], T[b][0]
    xi, xj = T[a][8], T[b][8]
    r_bo = -0.1332 * (ri + rj) * log(bo)
    r_en = ri * rj * (sqrt(xi) - sqrt(xj)) ** 2 / (xi * ri + xj * rj)
    return ri + rj + r_bo - r_en


def bond(T, a, b, bo=None, rules=None):
    if bo is None:
        bo = guess_bo(a, b, rules)
    r = r_nat(T, a, b, bo)
    k = 664.12 * T[a][5] * T[b][5] / r ** 3
    return (0.5 * k, r)          # LAMMPS harmonic: E = K (r - r0)^2 with K = k/2


def angle(T, a, b, c, bos=(None, None), rules=None):
    th0 = T[b][1]
    th = th0 * pi / 180.0
    bo1 = bos[0] if bos[0] is not None else guess_bo(a, b, rules)
    bo2 = bos[1] if bos[1] is not None else guess_bo(b, c, rules)
    rij, rjk = r_nat(T, a, b, bo1), r_nat(T, b, c, bo2)
    rik = sqrt(rij * rij + rjk * rjk - 2.0 * rij * rjk * cos(th))
    k = 664.12 * T[a][5] * T[c][5] / rik ** 5 * (3.0 * rij * rjk * (1.0 - cos(th) ** 2) - rik * rik * cos(th))
    if th0 == 180.0:
        return ('cosine/periodic', k, 1, 1)
    if th0 == 120.0:
        return ('cosine/periodic', k, -1, 3)
    if th0 == 90.0:
        if len(b) > 2 and b[2] == '3':      # coordination-4 centre (square planar)
            return ('cosine/periodic', k, -1, 2)
        return ('cosine/periodic', k, 1, 4)
    c2 = 1.0 / (4.0 * sin(th) ** 2)
    c1 = -4.0 * c2 * cos(th)
    c0 = c2 * (2.0 * cos(th) ** 2 + 1.0)
    return ('fourier', k, c0, c1, c2)


def hyb(s):
    return s[2] if len(s) > 2 else 0


def elem(s):
    return s[0:2].strip('_')


def torsion(T, main_group, a, M=1, bo=None, rules=None):
    a1, a2, a3, a4 = a
    h = [hyb(s) for s in a]
    e2, e3 = elem(a2), elem(a3)
    if bo is None:
        bo = guess_bo(a2, a3, rules)
    sp3 = lambda x: x == '3'
    sp2 = lambda x: x in ('2', 'R')
    if sp3(h[1]) and sp3(h[2]):
        if e2 in GROUP6 and e3 in GROUP6:
            v2 = 2.0 if e2 == 'O' else 6.8
            v3 = 2.0 if e3 == 'O' else 6.8
            return ('harmonic', sqrt(v2 * v3) / M / 2, 1, 2)
        return ('harmonic', sqrt(T[a2][6] * T[a3][6]) / M / 2, 1, 3)
    eq17 = lambda: 5.0 * sqrt(T[a2][7] * T[a3][7]) * (1.0 + 4.18 * log(bo)) / M
    if sp2(h[1]) and sp2(h[2]):
        return ('harmonic', eq17() / 2, -1, 2)
    if (sp2(h[1]) or sp3(h[1])) and (sp2(h[2]) or sp3(h[2])):
        if (h[0] == '2' and h[1] == '2') or (h[2] == '2' and h[3] == '2'):
            return ('harmonic', 2.0 / M / 2, 1, 3)
        if (sp3(h[1]) and e2 in GROUP6 and e3 not in GROUP6) or (sp3(h[2]) and e3 in GROUP6 and e2 not in GROUP6):
            return ('harmonic', eq17() / 2, 1, 2)
        return ('harmonic', 1.0 / M / 2, -1, 6)
    if h[1] == '1' or h[2] == '1':
        return None
    if e2 not in main_group or e3 not in main_group:
        return None
    raise Exception("unsupported torsion")


def pair(T, a):
    return [T[a][3], T[a][2] * 2.0 ** (-1.0 / 6.0)]
