"""Independent, minimal reader of LAMMPS data files (atom styles atomic / full) used as the oracle of C13.  Not mofun's parser:
it follows the LAMMPS read_data documentation -- header keyword lines, section headers followed by a blank line, '#' comments."""
import re

SECTIONS = ['Masses', 'Pair Coeffs', 'Bond Coeffs', 'Angle Coeffs', 'Dihedral Coeffs', 'Improper Coeffs', 'Atoms', 'Bonds', 'Angles',
            'Dihedrals', 'Impropers']
HEADER_KEYS = ['atoms', 'bonds', 'angles', 'dihedrals', 'impropers', 'atom types', 'bond types', 'angle types', 'dihedral types',
               'improper types']


def parse(text, style):
    lines = text.split('\n')
    out = {'header': {}, 'box': {}, 'sections': {}, 'comments': {}}
    i = 1          # first line is a title
    cur = None
    while i < len(lines):
        raw = lines[i]
        body, _, comment = raw.partition('#')
        s = body.strip()
        i += 1
        if not s:
            continue
        if s in SECTIONS:
            cur = s
            out['sections'][cur] = []
            out['comments'][cur] = []
            continue
        if cur is None:
            m = re.match(r'^(-?\d+)\s+(.+)$', s)
            if m and m.group(2).strip() in HEADER_KEYS:
                out['header'][m.group(2).strip()] = int(m.group(1))
                continue
            toks = s.split()
            if s.endswith('xlo xhi') or s.endswith('ylo yhi') or s.endswith('zlo zhi'):
                out['box'][toks[-2][0]] = (float(toks[0]), float(toks[1]))
                continue
            if s.endswith('xy xz yz'):
                out['box']['tilt'] = tuple(float(t) for t in toks[:3])
                continue
            raise ValueError("unrecognised header line %r" % raw)
        out['sections'][cur].append(s.split())
        out['comments'][cur].append(comment.strip() if _ else None)
    return out


def structure(p, style):
    """Interprets the parsed file: atoms (id order), terms, coefficients, masses, cell."""
    sec = p['sections']
    atoms = {}
    for t in sec.get('Atoms', []):
        if style == 'full':
            aid, mol, typ, q = int(t[0]), int(t[1]), int(t[2]), float(t[3])
            xyz = tuple(float(x) for x in t[4:7])
        else:
            aid, typ = int(t[0]), int(t[1])
            mol, q = 1, 0.0
            xyz = tuple(float(x) for x in t[2:5])
        atoms[aid] = dict(type=typ - 1, mol=mol - 1, q=q, pos=xyz)
    order = sorted(atoms)
    res = {'atoms': [atoms[a] for a in order], 'ids_contiguous': order == list(range(1, len(order) + 1))}
    for name, n in (('Bonds', 2), ('Angles', 3), ('Dihedrals', 4), ('Impropers', 4)):
        res[name] = [dict(id=int(t[0]), type=int(t[1]) - 1, atoms=tuple(int(x) - 1 for x in t[2:2 + n])) for t in sec.get(name, [])]
    for name in ('Pair Coeffs', 'Bond Coeffs', 'Angle Coeffs', 'Dihedral Coeffs', 'Improper Coeffs'):
        res[name] = [(int(t[0]), t[1:], c) for t, c in zip(sec.get(name, []), p['comments'].get(name, []))]
    res['Masses'] = [(int(t[0]), float(t[1]), c) for t, c in zip(sec.get('Masses', []), p['comments'].get('Masses', []))]
    box = p['box']
    if all(k in box for k in 'xyz'):
        lx, ly, lz = (box[k][1] - box[k][0] for k in 'xyz')
        xy, xz, yz = box.get('tilt', (0.0, 0.0, 0.0))
        res['cell'] = [[lx, 0.0, 0.0], [xy, ly, 0.0], [xz, yz, lz]]
        res['origin'] = (box['x'][0], box['y'][0], box['z'][0])
    else:
        res['cell'] = None
    res['header'] = p['header']
    return res
