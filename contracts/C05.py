"""C05 -- inserted atoms land where the replacement pattern says, modulo the lattice.

Block contracts on the placement statements inside the match loop of mofun.py:replace_pattern_in_structure, executed
symbolically for one arbitrary replacement atom (array operations are row-wise), rotation = arbitrary linear map,
cell = arbitrary invertible 3x3 matrix:
  * placement: before wrapping the inserted atom sits at q.apply(R_j - S_0) + p_0, hence its deviation from the ideal rigid image
    q.apply(R_j) + t (t taken from the axis point as in C01) equals the deviation of matched atom 0, which C01 bounds by atol;
  * wrap: wrapped - unwrapped is an integer combination of the cell vectors and the fractional coordinates are in [0, 1).
"""
import ast
import z3

from pyvc.values import Sym, RowVal, OutOfSubset, to_z3, Ref
from pyvc import models_py, models_lin
from pyvc.models_lin import MatVal, RotVal, sym_row, sym_mat3

META = {
    'level': 'proof',
    'explanation': "placement algebra and the wrap into the cell proved over reals on the real AST of the placement statements for an "
                   "arbitrary atom / rotation / invertible cell; joint rigid-motion invariance and boundary placements are bounded",
    'trusted_base': ["A2: float arithmetic treated as real arithmetic", "numpy: array arithmetic and matmul act row-wise on (N,3) position arrays",
                     "scipy: Rotation.apply is linear", "numpy: inv(C) @ C = identity", "z3 (nlsat) soundness", "pyvc symbolic interpreter"],
}
REL = 'mofun/mofun.py'
FN = 'replace_pattern_in_structure'
R = z3.RealSort()


def vec(row):
    return [to_z3(x, sort=R) for x in row]


def build(S):
    S.function(REL, FN)
    S.function('mofun/atoms.py', 'Atoms.translate')
    S.assume("A2: float arithmetic treated as real arithmetic")

    def run():
        I = S.interp()
        models_py.install(I)
        models_lin.install(I)
        mod = I.module(REL)
        fn = mod.find(FN)
        loops = [n for n in ast.walk(fn) if isinstance(n, ast.For) and ast.unparse(n.iter) == 'enumerate(match_positions)']
        if len(loops) != 1:
            raise OutOfSubset("match loop not found (contract no longer applies)")
        body = loops[0].body
        # placement statements: from the start of the loop body up to (not including) the identity-map handling
        stop = next((k for k, s in enumerate(body) if 'structure_index_map' in ast.unparse(s)), None)
        if stop is None:
            raise OutOfSubset("end of the placement block not found")
        block = [s for s in body[:stop] if not (isinstance(s, ast.If) and ast.unparse(s.test) == 'verbose')]
        # prologue: both patterns are translated by -search_pattern.positions[0]
        pro = [s for s in fn.body if isinstance(s, ast.Expr) and isinstance(s.value, ast.Call) and ast.unparse(s.value.func).endswith('.translate')]
        if len(pro) != 2:
            raise OutOfSubset("expected the two pattern translations at the top of %s" % FN)
        atoms_mod = I.module('mofun/atoms.py')
        st = {}

        def thunk():
            Rj, S0, p0 = sym_row('R'), sym_row('S0'), sym_row('p0')
            Sk = sym_row('Sk')
            C = sym_mat3('cell')
            rot = RotVal('Q')
            mk = lambda pos: I.state.alloc('Atoms', {'__class__': 'Atoms', '__module__': atoms_mod, 'positions': pos})
            # search pattern: row 0 is S0 (needed by the prologue), an arbitrary other row Sk
            search = mk(MatVal([S0, Sk]))
            replace = mk(MatVal([Rj]))
            new_structure = I.state.alloc('Atoms', {'__class__': 'Atoms', '__module__': atoms_mod, 'cell': C})
            env = {'search_pattern': search, 'replace_pattern': replace, 'quats': [rot], 'm_i': 0,
                   'atom_positions': MatVal([p0]), 'new_structure': new_structure, 'verbose': False}
            ctx = I.block_ctx(REL, FN, env)
            ctx.exec_block(pro)
            st['after_prologue'] = (I.state.heap[replace.oid]['positions'], I.state.heap[search.oid]['positions'])
            # unwrapped position: run the block up to the wrap statement(s)
            wrap_k = next((k for k, s in enumerate(block) if '%' in ast.unparse(s)), None)
            if wrap_k is None:
                raise OutOfSubset("wrap statement (modulo) not found in the placement block")
            first_wrap = wrap_k
            # statements that only prepare the wrap (e.g. `cell = new_structure.cell`) belong to the wrap part
            while first_wrap > 0 and isinstance(block[first_wrap - 1], ast.Assign) and 'cell' in ast.unparse(block[first_wrap - 1].targets[0]):
                first_wrap -= 1
            ctx.exec_block(block[:first_wrap])
            na = ctx.lookup('new_atoms')
            unwrapped = I.state.heap[na.oid]['positions'][0]
            ctx.exec_block(block[first_wrap:])
            wrapped = I.state.heap[na.oid]['positions'][0]
            return dict(Rj=Rj, S0=S0, Sk=Sk, p0=p0, C=C, rot=rot, unwrapped=unwrapped, wrapped=wrapped, inv=getattr(I, '_last_inv', None))

        def replay_for(model):
            return {'kind': 'placement-triclinic', 'input': {}, 'key': 'placement',
                    'what': 'inserted atoms are not wrapped by lattice vectors / not inside the cell for a tilted cell'}

        paths = I.explore(thunk)
        for i, p in enumerate(paths):
            if p.outcome != 'return':
                raise OutOfSubset("placement block raises %r" % (p.value,))
            v = p.value
            Q = v['rot'].Q
            Rj, S0, p0, C = vec(v['Rj']), vec(v['S0']), vec(v['p0']), [vec(r) for r in v['C']]
            un, wr = vec(v['unwrapped']), vec(v['wrapped'])
            apply = lambda x: [sum(Q[a][b] * x[b] for b in range(3)) for a in range(3)]
            want = [a + b for a, b in zip(apply([r - s for r, s in zip(Rj, S0)]), p0)]
            S.add(I, "replace/placement/unwrapped-position-is-q(R-S0)+p0#%d" % i, p.pc, z3.And(*[a == b for a, b in zip(un, want)]),
                  clause='replacement placed in the frame of the matched search pattern')
            # deviation identity: with t = p_ax - q(S_ax) (any axis point ax), inserted - (q(R) + t) == p0 - (q(S0) + t)
            pax, Sax = vec(sym_row('pax')), vec(sym_row('Sax'))
            t = [a - b for a, b in zip(pax, apply(Sax))]
            lhs = [u - (a + b) for u, a, b in zip(un, apply(Rj), t)]
            rhs = [a - (b + c) for a, b, c in zip(p0, apply(S0), t)]
            S.add(I, "replace/placement/deviation-of-inserted-atom-equals-deviation-of-matched-atom-0#%d" % i, p.pc,
                  z3.And(*[a == b for a, b in zip(lhs, rhs)]), clause='deviation bound 1*atol per component (with C01 clause 3)')
            # wrap: the wrapped atom is  sum_a (f_a - floor(f_a)) * C_a  where f are the fractional coordinates of the unwrapped atom
            # (f @ C == unwrapped); this is the only point of the lattice orbit with fractional coordinates in [0, 1)
            f = [z3.Real('spec_frac_%d' % a) for a in range(3)]
            hyp_f = [sum(f[a] * C[a][k] for a in range(3)) == un[k] for k in range(3)]
            fr = getattr(I, '_last_frac', None)
            if fr:
                # the code computed fractional coordinates itself: identify them with the spec's (same defining equation, C invertible)
                hyp_f += [f[a] == to_z3(fr[0][a], sort=R) for a in range(3)]
                src = vec(fr[0].frac_of[0])
                S.add(I, "replace/wrap/fractional-coordinates-are-taken-of-the-unwrapped-position#%d" % i, p.pc,
                      z3.And(*[src[k] == un[k] for k in range(3)]), replay=replay_for)
            S.add_canary(I, "replace/wrap/canary-hypotheses#%d" % i, p.pc + hyp_f)
            g = [f[a] - z3.ToReal(z3.ToInt(f[a])) for a in range(3)]
            spec_w = [sum(g[a] * C[a][k] for a in range(3)) for k in range(3)]
            S.add(I, "replace/wrap/wrapped-is-the-fractional-part-image#%d" % i, p.pc + hyp_f, z3.And(*[wr[k] == spec_w[k] for k in range(3)]),
                  replay=replay_for, clause='wrapping: fractional coordinates reduced modulo 1 (any cell shape)')
            n = [z3.ToInt(f[a]) for a in range(3)]
            S.add(I, "lemma/wrap/moved-by-a-lattice-vector", hyp_f + [wr[k] == spec_w[k] for k in range(3)],
                  z3.And(*[wr[k] == un[k] - sum(z3.ToReal(n[a]) * C[a][k] for a in range(3)) for k in range(3)]), kind='lemma',
                  clause='wrapped - unwrapped is an integer combination of the cell vectors')
            S.add(I, "lemma/wrap/fractional-coordinates-in-unit-interval", [], z3.And(*[z3.And(x >= 0, x < 1) for x in g]), kind='lemma',
                  clause='inserted atoms inside the unit cell')
            S.add_canary(I, "replace/placement/canary#%d" % i, p.pc)
        S.add_interp_obligations(I)
    S.guarded('placement block', run)
    S.clause('placement algebra', 'PROVED (real arithmetic, arbitrary linear map for the rotation)')
    S.clause('wrap into the cell', 'PROVED for any invertible cell (orthorhombic and triclinic alike)')
    S.clause('joint rigid-motion invariance; boundary-straddling placements', 'BOUNDED (bounded/C05.py); invariance is only meaningful when the matched frame is determined (DESIGN C05)')
