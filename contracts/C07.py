"""C07 -- overlapping replacements are refused, never silently corrupted.

Block contract on the overlap test inside the match loop of mofun.py:replace_pattern_in_structure (sets as characteristic
predicates), plus the inductive lemma that lifts it to the whole loop: as long as no error is raised and the caller did not ask
to ignore overlaps, the per-match deletion sets are pairwise disjoint and to_delete is their union.
"""
import ast
import z3

from pyvc.values import Sym, SymSet, Opaque, OutOfSubset, to_z3, zbool
from pyvc import models_py
from pyvc.models_py import ObjS, to_obj

META = {
    'level': 'proof',
    'explanation': "set algebra of the overlap test proved on the real AST (block contract), loop-level disjointness by an inductive lemma; "
                   "exhaustive grid of sharing combinations on the real code (bounded stage)",
    'trusted_base': ["python: set difference / union / isdisjoint as on characteristic predicates; list(set) has no duplicates",
                     "z3 soundness", "pyvc symbolic interpreter"],
}
REL = 'mofun/mofun.py'
FN = 'replace_pattern_in_structure'
INT = z3.IntSort()


def build(S):
    S.function(REL, FN)

    def run_block():
        I = S.interp()
        I.allow_merge = False
        models_py.install(I)
        models_py.install_opaque_algebra(I)
        elem_of = I.reg.ufunc('elem_of', ObjS, INT, z3.BoolSort())

        def set_model(ctx, args, kwargs):
            if args and isinstance(args[0], Opaque):
                t = to_obj(I, args[0])
                return SymSet(lambda x, t=t: elem_of(t, x), INT, 'set(%s)' % args[0].tag)
            return I.lib.bi_set(ctx, args, kwargs)
        I.models['set'] = set_model

        def isdisjoint(ctx, a, b):
            pa, pb = I.lib.set_pred(a), I.lib.set_pred(b)
            x = z3.Int(I.reg.fresh('x'))
            return Sym(z3.ForAll([x], z3.Not(z3.And(pa(x), pb(x)))))
        I.models['set.isdisjoint'] = isdisjoint
        mod = I.module(REL)
        fn = mod.find(FN)
        block = None
        for node in ast.walk(fn):
            body = getattr(node, 'body', None)
            if not isinstance(body, list):
                continue
            for k, s in enumerate(body[:-1]):
                if isinstance(s, ast.Assign) and ast.unparse(s.targets[0]) == 'to_delete_linker' and isinstance(body[k + 1], ast.If):
                    block = [s, body[k + 1]]
        if block is None:
            raise OutOfSubset("overlap test `to_delete_linker = ...; if ...isdisjoint...` not found (contract no longer applies)")
        td = z3.Function('to_delete', INT, z3.BoolSort())
        ignore = z3.Bool('ignore')
        st = {}

        def thunk():
            env = {'to_delete': SymSet(lambda x: td(x), INT, 'to_delete'), 'match_indices': Opaque(z3.Const('match_indices', ObjS), 'match_indices'),
                   'm_i': Sym(z3.Int('m_i')), 'structure_index_map': Opaque(z3.Const('structure_index_map', ObjS), 'structure_index_map'),
                   'ignore_atoms_should_not_be_deleted_twice': Sym(ignore)}
            ctx = I.block_ctx(REL, FN, env)
            ctx.exec_block(block)
            return ctx.lookup('to_delete')

        paths = I.explore(thunk)
        getitem = I.reg.ufunc('getitem', ObjS, ObjS, ObjS)
        match = getitem(z3.Const('match_indices', ObjS), to_obj(I, Sym(z3.Int('m_i'))))
        vals = I.reg.ufunc('call_m_values_1', ObjS, ObjS)(z3.Const('structure_index_map', ObjS))
        x = z3.Int('x')
        Dk = lambda x: z3.And(elem_of(match, x), z3.Not(elem_of(vals, x)))
        disjoint = z3.ForAll([x], z3.Not(z3.And(td(x), Dk(x))))
        kinds = set()
        for i, p in enumerate(paths):
            if p.outcome == 'return':
                kinds.add('normal')
                new = p.value
                if not isinstance(new, SymSet):
                    raise OutOfSubset("to_delete is no longer a set")
                S.add(I, "replace/overlap/accepted-only-if-disjoint-or-ignored#%d" % i, p.pc, z3.Or(disjoint, ignore),
                      clause='no error => no atom removed twice (or caller asked to ignore)')
                S.add(I, "replace/overlap/to_delete-grows-by-match-minus-retained#%d" % i, p.pc,
                      z3.ForAll([x], new.contains(x) == z3.Or(td(x), Dk(x))), clause='deletion set = matched atoms minus retained atoms')
            elif p.outcome == 'raise':
                kinds.add('raise')
                S.add(I, "replace/overlap/raises-only-if-overlap-and-not-ignored#%d" % i, p.pc,
                      z3.And(z3.Not(disjoint), z3.Not(ignore), z3.BoolVal(p.value.cls == 'AtomsShouldNotBeDeletedTwice')),
                      clause='dedicated overlap error')
            S.add_canary(I, "replace/overlap/canary#%d" % i, [h for h in p.pc if not z3.is_quantifier(h)])
        S.add(I, "replace/overlap/both-outcomes-exist", [], z3.BoolVal(kinds == {'normal', 'raise'}))
        S.add_interp_obligations(I)

        # syntactic frame facts taken from the same AST
        empty_branch = [n for n in ast.walk(fn) if isinstance(n, ast.If) and ast.unparse(n.test) == 'len(replace_pattern) == 0']
        ok = len(empty_branch) == 1 and not any(isinstance(n, ast.Raise) for s_ in empty_branch[0].body for n in ast.walk(s_))
        S.add(I, "replace/overlap/empty-replacement-branch-cannot-raise-overlap", [], z3.BoolVal(ok), clause='empty replacement: no overlap error')
        dels = [n for n in ast.walk(fn) if isinstance(n, ast.Delete)]
        ok2 = len(dels) == 1 and ast.unparse(dels[0].targets[0]) in ('new_structure[list(to_delete)]', '(new_structure[list(to_delete)])')
        S.add(I, "replace/overlap/single-bulk-delete-of-the-set", [], z3.BoolVal(ok2), clause='each atom removed at most once (list of a set)')
        # the caller's flag is the flag the overlap test reads: the parameter is never rebound inside the function
        flag = 'ignore_atoms_should_not_be_deleted_twice'
        from contracts import frames
        if flag not in [a.arg for a in fn.args.args + fn.args.kwonlyargs]:
            raise OutOfSubset("parameter %s not found (contract no longer applies)" % flag)
        v = frames.verdict(frames.rebindings(fn, flag))
        if v == 'unknown':
            raise OutOfSubset("the parameter %s is rebound to something the contract cannot read" % flag)
        S.add(I, "replace/overlap/the-ignore-flag-is-the-callers", [], z3.BoolVal(v == 'same'), clause='overlap is refused unless the CALLER asked to ignore it')
    S.guarded('overlap block', run_block)

    # ------------------------------------------------------------------ loop-level lemma (pure logic over the block contract)
    def run_lemma():
        I = S.interp()
        D = z3.Function('D', INT, INT, z3.BoolSort())        # D(k, x): atom x is in the deletion set of match k
        U = z3.Function('U', INT, INT, z3.BoolSort())        # U(k, x): x in to_delete after k matches
        cnt = z3.Function('cnt', INT, INT, INT)              # number of j < k with D(j, x)
        k, x = z3.Int('k'), z3.Int('x')
        ignore = z3.Bool('ignore')
        # inductive hypothesis at k: to_delete is the union so far and, unless ignoring, every atom is in at most one D_j
        hyp = [k >= 0,
               z3.ForAll([x], (cnt(k, x) >= 1) == U(k, x), patterns=[U(k, x)]),
               z3.ForAll([x], z3.And(cnt(k, x) >= 0, z3.Implies(z3.Not(ignore), cnt(k, x) <= 1)), patterns=[cnt(k, x)]),
               # definitions of the ghosts for step k
               z3.ForAll([x], cnt(k + 1, x) == cnt(k, x) + z3.If(D(k, x), 1, 0), patterns=[cnt(k + 1, x)]),
               # block contract (normal exit): accepted only if disjoint or ignored; to_delete grows by D_k
               z3.Or(z3.ForAll([x], z3.Not(z3.And(U(k, x), D(k, x))), patterns=[D(k, x)]), ignore),
               z3.ForAll([x], U(k + 1, x) == z3.Or(U(k, x), D(k, x)), patterns=[U(k + 1, x)])]
        goal = z3.And(z3.ForAll([x], (cnt(k + 1, x) >= 1) == U(k + 1, x)),
                      z3.ForAll([x], z3.And(cnt(k + 1, x) >= 0, z3.Implies(z3.Not(ignore), cnt(k + 1, x) <= 1))))
        S.add(I, "lemma/overlap-loop/inductive-step", hyp, goal, kind='lemma', clause='pairwise disjoint deletion sets over the whole loop')
        base = [z3.ForAll([x], cnt(0, x) == 0, patterns=[cnt(0, x)]), z3.ForAll([x], z3.Not(U(0, x)), patterns=[U(0, x)])]
        S.add(I, "lemma/overlap-loop/base", base, z3.And(z3.ForAll([x], (cnt(0, x) >= 1) == U(0, x)),
                                                         z3.ForAll([x], z3.And(cnt(0, x) >= 0, cnt(0, x) <= 1))), kind='lemma')
    S.guarded('overlap lemma', run_lemma)
    S.clause('raise iff overlap and not ignored (non-empty replacement)', 'PROVED (block contract + inductive lemma)')
    S.clause('empty replacement never raises; each atom removed once', 'PROVED (syntactic frame facts on the same AST + set semantics)')
    S.clause('which matches overlap in which atoms', 'EXHAUSTIVE grid on the real code (bounded stage)')
