"""C01 -- every reported match is a genuine rigid-motion image of the pattern.

Deductive part: the *guard obligation* (clause 3 of DESIGN C01) as a block contract on the body of the re-check loop
`for i, match_tuple in enumerate(match_tuples)` of mofun.py:find_pattern_in_structure, geometry uninterpreted:
an ordering is recorded as good only if np.allclose(atom_positions, q.apply(P') + atom_positions[ax1], rtol=0, atol=atol)
returned True, the rotation stored for that ordering is the same q, and with the assumed contract of np.allclose this is
"every component within the requested absolute tolerance".  Index/element/lattice clauses (1), (2), (4) are BOUNDED.
"""
import ast
import z3

from pyvc.values import Sym, SymSeq, Opaque, Ref, OutOfSubset, to_z3
from pyvc import models_py
from pyvc.models_py import ObjS, to_obj, opaque_call

META = {
    'level': 'proof',
    'explanation': "guard obligation of the rotation re-check proved as a block contract (geometry opaque); the run-time postconditions "
                   "(indices, elements, lattice offsets, proper rotation within atol) are evaluated on planted structures by the bounded stage",
    'trusted_base': ["numpy: np.allclose(a, b, rtol, atol) <=> every component |a-b| <= atol + rtol*|b|",
                     "scipy Rotation.apply is a proper rotation (orthogonal, det +1): a mirror image cannot pass the re-check",
                     "A4: copy.deepcopy returns a structurally equal object sharing nothing mutable", "z3 soundness", "pyvc symbolic interpreter"],
}
REL = 'mofun/mofun.py'
FN = 'find_pattern_in_structure'


def build(S):
    S.function(REL, FN)
    S.assume("geometry (quaternion helpers, Rotation.apply, array arithmetic) is uninterpreted in the block contract")

    def run_guard():
        I = S.interp()
        models_py.install(I)
        models_py.install_opaque_algebra(I)
        models_py.install_opaque(I, ['mofun/helpers.py:quaternion_from_two_vectors', 'mofun/helpers.py:quaternion_from_two_vectors_around_axis',
                                     'scipy.spatial.transform.Rotation.identity', 'numpy.array'], record=False)
        INT = z3.IntSort()
        st = {}

        def comp_opaque(ctx, e, sc):
            names = sorted({n.id for n in ast.walk(e.elt) if isinstance(n, ast.Name)} - {n.id for g in e.generators for n in ast.walk(g.target) if isinstance(n, ast.Name)})
            vals = [ctx.lookup(n) for n in names]
            return opaque_call(I, 'comp[%s]' % ast.unparse(e), [sc.iterable] + vals, {}, record=False)
        I.models['comprehension'] = comp_opaque

        def deepcopy(ctx, args, kwargs):
            (ref,) = args
            if not isinstance(ref, Ref):
                raise OutOfSubset("deepcopy of %r" % (ref,))
            return I.state.alloc(ref.cls, dict(I.state.heap[ref.oid]))
        I.models['copy.deepcopy'] = deepcopy

        def atoms_len(ctx, args, kwargs):
            return Sym(z3.Int('n_pattern'))
        I.models['mofun/atoms.py:Atoms.__len__'] = atoms_len

        def allclose(ctx, args, kwargs):
            a, b = args[0], args[1]
            rtol = kwargs.get('rtol', args[2] if len(args) > 2 else None)
            atol_ = kwargs.get('atol', args[3] if len(args) > 3 else None)
            r = z3.Bool(I.reg.fresh('allclose'))
            st.setdefault('allclose', []).append(dict(a=to_obj(I, a), b=to_obj(I, b), rtol=rtol, atol=atol_, result=r,
                                                       extra=[k for k in kwargs if k not in ('rtol', 'atol')]))
            return Sym(r)
        I.models['numpy.allclose'] = allclose

        mod = I.module(REL)
        fn = mod.find(FN)
        loops = [n for n in ast.walk(fn) if isinstance(n, ast.For) and ast.unparse(n.iter) == 'enumerate(match_tuples)']
        if len(loops) != 1:
            raise OutOfSubset("re-check loop `for i, match_tuple in enumerate(match_tuples)` not found (contract no longer applies)")
        body = loops[0].body

        def thunk():
            st.clear()
            n = z3.Int('n_pattern')
            I.assume(n >= 1)
            pat = I.state.alloc('Atoms', {'__class__': 'Atoms', '__module__': I.module('mofun/atoms.py'),
                                          'positions': Opaque(z3.Const('pattern_positions', ObjS), 'P')})
            Q, G = z3.Int('n_quats'), z3.Int('n_good')
            I.assume(Q >= 0)
            I.assume(G >= 0)
            env = {
                'pattern': pat, 'match_tuple': Opaque(z3.Const('match_tuple', ObjS)), 'i': Sym(z3.Int('i')),
                'all_positions': Opaque(z3.Const('all_positions', ObjS)), 'near_indices': Opaque(z3.Const('near_indices', ObjS)),
                'axisp1_idx': Sym(z3.Int('ax1')), 'axisp2_idx': Sym(z3.Int('ax2')), 'opoint_idx': Sym(z3.Int('op')),
                'search_axis': Opaque(z3.Const('search_axis', ObjS)), 'atol': Sym(z3.Real('atol')),
                'quats': SymSeq(Q, [z3.Array('quats', INT, ObjS)], None, 'list', 'quats'),
                'good_indices': SymSeq(G, [z3.Array('good_indices', INT, INT)], None, 'list', 'good_indices'),
            }
            ctx = I.block_ctx(REL, FN, env)
            ctx.exec_block(body)
            return env, ctx.lookup('quats'), ctx.lookup('good_indices'), ctx.lookup('atom_positions')

        def replay_for(model):
            return {'kind': 'tolerance-boundary', 'input': {}, 'key': 'recheck-guard', 'generic': True,
                    'what': 'a copy with two atoms displaced by 1.0008*atol in opposite directions is accepted somewhere in the cell'}

        paths = I.explore(thunk)
        for k, p in enumerate(paths):
            if p.outcome != 'return':
                raise OutOfSubset("re-check body raises %r" % (p.value,))
            env, quats2, good2, AP = p.value
            quats, good = env['quats'], env['good_indices']
            Q, G = quats.length, good.length
            calls = st.get('allclose', [])
            # the state at the end of the path belongs to the last explored path only: re-derive from the path value
            S.add(I, "find/recheck/rotation-recorded-for-every-ordering#%d" % k, p.pc, quats2.length == Q + 1,
                  clause='one rotation stored per candidate ordering')
            grew = good2.length == G + 1
            same = z3.And(good2.length == G)
            S.add(I, "find/recheck/good-list-grows-by-at-most-this-ordering#%d" % k, p.pc,
                  z3.Or(same, z3.And(grew, z3.Select(good2.cols[0], G) == z3.Int('i'))))
            if len(calls) != 1:
                S.add(I, "find/recheck/exactly-one-tolerance-check#%d" % k, p.pc, z3.BoolVal(False), replay=replay_for)
                continue
            c = calls[0]
            q_used = z3.Select(quats2.cols[0], Q)
            apply_f = I.reg.ufunc('call_m_apply_2', ObjS, ObjS, ObjS)
            add_f = I.reg.ufunc('op_Add', ObjS, ObjS, ObjS)
            getitem = I.reg.ufunc('getitem', ObjS, ObjS, ObjS)
            Pterm = z3.Const('pattern_positions', ObjS)
            expected_b = add_f(apply_f(q_used, Pterm), getitem(to_obj(I, AP), to_obj(I, Sym(z3.Int('ax1')))))
            rtol_zero = z3.BoolVal(False)
            if c['rtol'] is not None:
                try:
                    rz = to_z3(c['rtol'])
                    rtol_zero = rz == 0
                except OutOfSubset:
                    pass
            atol_ok = z3.BoolVal(False)
            if c['atol'] is not None:
                atol_ok = to_z3(c['atol']) == z3.Real('atol')
            S.add(I, "find/recheck/guard/accepted-only-if-allclose-with-requested-atol-and-rtol-0#%d" % k, p.pc,
                  z3.Implies(grew, z3.And(c['result'], rtol_zero, atol_ok, z3.BoolVal(not c['extra']))), replay=replay_for,
                  clause='rotation re-check guards every reported ordering (clause 3)')
            S.add(I, "find/recheck/guard/compares-candidate-with-rotated-translated-pattern#%d" % k, p.pc,
                  z3.And(c['a'] == to_obj(I, AP), c['b'] == expected_b), replay=replay_for,
                  clause='the stored rotation is the one that was checked')
            S.add_canary(I, "find/recheck/canary#%d" % k, p.pc)
        S.add_interp_obligations(I)
    S.guarded('re-check block', run_guard)

    def run_start_atoms():
        # helpers.atoms_of_type(types, element): the start atoms of the search are exactly the atoms whose element EQUALS the first pattern element
        # (arbitrary list of element names, arbitrary name), in index order; and find_pattern_in_structure takes its start atoms from it
        from pyvc import models_ext, models_np
        from pyvc.values import SymSeq, StrS
        S.function('mofun/helpers.py', 'atoms_of_type')
        I = S.interp()
        models_py.install(I)
        models_np.install(I)
        models_ext.install(I)
        INT = z3.IntSort()
        n = z3.Int('n_types')
        types = SymSeq(n, [z3.Array('elements_of_the_atoms', INT, StrS)], None, 'list', 'types')
        el = z3.Const('wanted_element', StrS)
        clo = I.closure_for('mofun/helpers.py', 'atoms_of_type')

        def thunk():
            I.assume(n >= 0)
            return I.call_closure(clo, [types, Sym(el)], {})
        paths = I.explore(thunk)
        for i, p in enumerate(paths):
            fl = p.notes.get('filters', [])
            if p.outcome != 'return' or len(fl) != 1 or not isinstance(p.value, SymSeq) or p.value is not fl[0]['seq']:
                raise OutOfSubset("atoms_of_type is not one filtering comprehension over enumerate(types)")
            f = fl[0]
            k = z3.Int('sa_k')
            # stated for an arbitrary index k (a constant) and without the path's quantified facts about the filter: the filter condition and the
            # collected value are closed expressions of the inputs, so a wrong condition is REFUTED (quantifier-free counter-model), not left open
            S.add(I, "atoms_of_type/post/keeps-exactly-the-atoms-whose-element-equals-the-wanted-one#%d" % i, [],
                  z3.Implies(z3.And(k >= 0, k < n), f['keep'](k) == (z3.Select(types.cols[0], k) == el)), clause='(1) the first atom of a match has the first pattern element')
            S.add(I, "atoms_of_type/post/returns-their-indices#%d" % i, [],
                  z3.Implies(z3.And(k >= 0, k < n), f['elem'](k) == k), clause='(1) the first atom of a match has the first pattern element')
            S.add_canary(I, "atoms_of_type/canary#%d" % i, p.pc)
        S.add_interp_obligations(I)
        fn = I.module(REL).find(FN)
        uses = [c for c in ast.walk(fn) if isinstance(c, ast.Call) and ast.unparse(c.func).split('.')[-1] == 'atoms_of_type']
        import re as _re
        def text_of(node):
            # a local name assigned exactly once stands for the expression it was assigned
            if isinstance(node, ast.Name):
                defs = [a for a in ast.walk(fn) if isinstance(a, ast.Assign) and len(a.targets) == 1 and isinstance(a.targets[0], ast.Name) and a.targets[0].id == node.id]
                if len(defs) == 1:
                    return ast.unparse(defs[0].value)
            return ast.unparse(node)
        texts = [text_of(u.args[1]) if len(u.args) == 2 else '?' for u in uses]
        ok = all(t in ('pattern.elements[0]', 'pattern_elements[0]') for t in texts)
        if not ok and not any(_re.fullmatch(r'pattern(\.|_)(elements|atom_type_elements|symbols)\[.+\]', t) for t in texts if t not in ('pattern.elements[0]', 'pattern_elements[0]')):
            raise OutOfSubset("the element the start atoms are selected by is an expression the contract cannot read: %r" % (texts,))
        if not uses:
            raise OutOfSubset("find_pattern_in_structure no longer takes its start atoms from atoms_of_type (contract no longer applies)")
        S.add(I, "find/start-atoms/are-the-atoms-of-the-first-pattern-element", [], z3.BoolVal(bool(ok)), clause='(1) the first atom of a match has the first pattern element')
    S.guarded('start atoms', run_start_atoms)
    S.clause('(3) rotation + translation within atol for every reported ordering', 'PROVED as guard obligation (block contract) under the assumed np.allclose / scipy Rotation contracts')
    S.clause('(1) indices valid, elements equal; (2) lattice offsets; (4) distinct atoms', 'BOUNDED (run-time postconditions on planted structures)')
    S.clause('mirror images never reported', 'follows from (3) with the ASSUMED properness of scipy rotations; BOUNDED with mirror-image decoys')
