"""C10 -- deleting atoms removes exactly them and the terms that touch them.

Functions under contract (mofun/atoms.py): Atoms._delete_and_reindex_atom_index_array (both loops cut at inductive
invariants), Atoms.__delitem__ (verified against that contract and the assumed numpy contracts), Atoms.pop.
"""
import z3

from pyvc.values import Sym, SymSeq, OutOfSubset, to_z3, Ref
from pyvc.interp import FuncSpec, LoopSpec, RaiseSig, ExcVal
from pyvc import models_py, models_np
from pyvc.models_np import mem_of, cless_of, delete_maps, assume_rank_form
from contracts import atoms_model as AM

META = {
    'level': 'proof',
    'explanation': "loop invariants and postconditions of the deletion / re-indexing code, discharged by z3 (E-matching, "
                   "no bound on array sizes); numpy primitives enter through assumed contracts; bounded stage enumerates "
                   "every deletion subset of small structures on the real code",
    'trusted_base': ["A1: indices are mathematical integers (no int64 wrap-around)", "z3 / cvc5 soundness", "pyvc symbolic interpreter",
                     "A5: value semantics for numpy arrays (no aliasing between distinct Atoms fields; arr.copy() makes the update local)"],
}
REL = 'mofun/atoms.py'
FN = 'Atoms._delete_and_reindex_atom_index_array'
INT = z3.IntSort()


def reindex_ghosts(I, arr, S):
    """touch(r): row r of arr mentions a deleted index; g(r): number of touched rows below r."""
    memS = mem_of(I, S)

    def touch(r):
        return z3.Or(*[memS(z3.Select(c, r)) for c in arr.cols])
    g = z3.Function(I.reg.fresh('gtouch'), INT, INT)
    r = z3.Int(I.reg.fresh('r'))
    I.assume(g(0) == 0)
    I.assume(z3.ForAll([r], z3.Implies(r >= 0, g(r + 1) == g(r) + z3.If(touch(r), 1, 0)), patterns=[g(r + 1)]))
    return memS, touch, g


def build_reindex(S, w):
    """Verify _delete_and_reindex_atom_index_array for arrays of width w."""
    I = S.interp()
    models_py.install(I)
    models_np.install(I)
    st = {}

    def inv1(view, k):
        D1 = view['arr_idx_to_delete']
        if not isinstance(D1, SymSeq):
            raise OutOfSubset("arr_idx_to_delete is not a list")
        touch, g = st['touch'], st['g']
        a = D1.cols[0]
        p, q, r = z3.Int('ip'), z3.Int('iq'), z3.Int('ir')
        k = k if z3.is_expr(k) else z3.IntVal(k)
        return [
            ('len-is-count', z3.And(D1.length == g(k), g(k) >= 0)),
            ('entries-are-touched-rows', z3.ForAll([p], z3.Implies(z3.And(p >= 0, p < D1.length),
                z3.And(z3.Select(a, p) >= 0, z3.Select(a, p) < k, touch(z3.Select(a, p)), g(z3.Select(a, p)) == p)), patterns=[z3.Select(a, p)])),
            ('touched-rows-are-entries', z3.ForAll([r], z3.Implies(z3.And(r >= 0, r < k, touch(r)),
                z3.And(g(r) >= 0, g(r) < D1.length, z3.Select(a, g(r)) == r)), patterns=[g(r)] + [z3.Select(cc, r) for cc in st['arr'].cols])),
            ('increasing', z3.ForAll([p, q], z3.Implies(z3.And(p >= 0, p < q, q < D1.length), z3.Select(a, p) < z3.Select(a, q)),
                                      patterns=[z3.MultiPattern(z3.Select(a, p), z3.Select(a, q))])),
        ]

    def inv2(view, k):
        UA = view['updated_arr']
        D1 = view['arr_idx_to_delete']
        arr, Sd = st['arr'], st['S']
        maps = delete_maps(I, arr.length, D1)
        if maps is None or not isinstance(UA, SymSeq) or UA.width != w:
            raise OutOfSubset("updated_arr is not the np.delete result the contract expects")
        m, src, dst, _ = maps
        st['maps'] = maps
        cl = cless_of(I, Sd)
        memS = st['memS']
        p = z3.Int('jp')
        k = k if z3.is_expr(k) else z3.IntVal(k)
        sa = Sd.cols[0]
        out = [('length', UA.length == m)]
        for c in range(w):
            v = z3.Select(arr.cols[c], src(p))
            cur = z3.Select(UA.cols[c], p)
            cn = cl(k, v)
            body = z3.And(z3.Not(memS(v)), cur == v - cn,
                          z3.Implies(cn > 0, z3.And(z3.Select(sa, k - 1) < v, cur >= z3.Select(sa, k - 1))),
                          z3.Implies(z3.And(cn == 0, k > 0), z3.Select(sa, k - 1) > v))
            out.append(('reindexed-so-far[col%d]' % c, z3.ForAll([p], z3.Implies(z3.And(p >= 0, p < m), body),
                                                               patterns=[z3.Select(UA.cols[c], p)])))
        return out

    I.funcspecs['%s:%s' % (REL, FN)] = FuncSpec(loops=[
        LoopSpec('(i, atom_idx_tuple) in enumerate(arr)', inv=inv1, havoc_types={'arr_idx_to_delete': 'int'}),
        LoopSpec('i in sorted_deleted_indices', inv=inv2),
    ])
    clo = I.closure_for(REL, FN)

    def thunk():
        R, K = z3.Int('R'), z3.Int('K')
        I.assume(R >= 0)
        I.assume(K >= 0)
        arr = AM.seq('arr', R, [INT] * w, w)
        Sd = AM.seq('S', K, [INT], kind='list')
        # requires: sorted_deleted_indices strictly descending (what sorted(distinct, reverse=True) delivers)
        I.assume(AM.strictly_descending(Sd))
        st['arr'], st['S'] = arr, Sd
        st['memS'], st['touch'], st['g'] = reindex_ghosts(I, arr, Sd)
        self_ref = I.state.alloc('Atoms', {'__class__': 'Atoms', '__module__': I.module(REL)})
        return I.call_closure(clo, [self_ref, arr, Sd], {})

    paths = I.explore(thunk)
    rets = [p for p in paths if p.outcome == 'return']
    if not rets:
        raise OutOfSubset("no returning path")
    for i, pth in enumerate(paths):
        if pth.outcome == 'raise':
            raise OutOfSubset("unexpected raise %r" % (pth.value,))
        S.add_canary(I, "reindex[w=%d]/canary#%d" % (w, i), [h for h in pth.pc if not z3.is_quantifier(h)])
    for i, pth in enumerate(rets):
        res = pth.value
        if not (isinstance(res, tuple) and len(res) == 2 and isinstance(res[0], SymSeq) and isinstance(res[1], SymSeq)):
            raise OutOfSubset("unexpected result shape")
        UA, D1 = res
        arr, Sd = st['arr'], st['S']
        # note: st[...] refers to the objects of the *last* explored path; symbols are named deterministically,
        # so formulas built from them denote the same terms on every path.
        touch, memS = st['touch'], st['memS']
        memD = mem_of(I, D1)
        a = D1.cols[0]
        p, q, r = z3.Int('pp'), z3.Int('pq'), z3.Int('pr')
        hyps = list(pth.pc) + I.pc[len(pth.pc):]
        S.add(I, "reindex[w=%d]/post/deleted-rows-increasing#%d" % (w, i), hyps,
              z3.ForAll([p, q], z3.Implies(z3.And(p >= 0, p < q, q < D1.length), z3.Select(a, p) < z3.Select(a, q))),
              clause='second result: rows to delete, increasing')
        S.add(I, "reindex[w=%d]/post/deleted-rows-are-exactly-the-touched-rows#%d" % (w, i), hyps,
              z3.ForAll([r], z3.Implies(z3.And(r >= 0, r < arr.length), memD(r) == touch(r))),
              clause='a term is removed iff one of its atoms is deleted')
        maps = delete_maps(I, arr.length, D1)
        if maps is None:
            raise OutOfSubset("result is not an np.delete of the input")
        m, src, dst, _ = maps
        cl = cless_of(I, Sd)
        goal = [UA.length == m]
        for c in range(w):
            v = z3.Select(arr.cols[c], src(p))
            goal.append(z3.ForAll([p], z3.Implies(z3.And(p >= 0, p < m), z3.Select(UA.cols[c], p) == v - cl(Sd.length, v))))
        S.add(I, "reindex[w=%d]/post/survivors-shifted-by-number-of-deleted-below#%d" % (w, i), hyps, z3.And(*goal),
              clause='surviving entries: v - #{deleted d < v}')
    S.add_interp_obligations(I)
    spec = I.funcspecs['%s:%s' % (REL, FN)]
    if len(spec.seen_loops) != 2:
        raise OutOfSubset("expected both loops of %s to be cut at their invariants (seen %r)" % (FN, sorted(spec.seen_loops)))


def build(S):
    S.function(REL, FN)
    S.assume("A1: indices are mathematical integers")
    S.assume("A5: value semantics for numpy arrays; arr.copy() is the identity on values")
    for w in (2, 3, 4):
        S.guarded('reindex[w=%d]' % w, lambda w=w: build_reindex(S, w))
    S.function(REL, 'Atoms.__delitem__')
    S.guarded('__delitem__', lambda: build_delitem(S))
    S.function(REL, 'Atoms.pop')
    S.guarded('pop', lambda: build_pop(S))
    S.clause('atoms: exactly the listed atoms are removed, others keep data and order', 'PROVED from the assumed np.delete contract (all five per-atom arrays, same index list)')
    S.clause('terms: survive iff no atom deleted; survivors re-indexed to the same physical atoms, types and extra fields follow', 'PROVED (loop invariants of the re-indexing helper + modular proof of __delitem__)')
    S.clause('pop', 'PROVED against the contract of __delitem__')
    S.clause('numpy/sorted contracts', 'ASSUMED, differentially tested on all small arguments by the bounded stage')


# ------------------------------------------------------------------------------------------------ __delitem__ / pop
def reindex_contract(I, st):
    """Contract model of _delete_and_reindex_atom_index_array as proved above (used at call sites: modular)."""
    def model(ctx, args, kwargs):
        _self, arr, Sd = args
        if not (isinstance(arr, SymSeq) and isinstance(Sd, SymSeq) and arr.width in (2, 3, 4)):
            raise OutOfSubset("reindex contract: unexpected arguments")
        I.oblige("%s/pre/reindex-needs-strictly-descending-indices" % ctx.speckey, AM.strictly_descending(Sd, 'pre'), 'pre')
        memS = mem_of(I, Sd)

        def touch(r):
            return z3.Or(*[memS(z3.Select(c, r)) for c in arr.cols])
        D1 = I.fresh_seq('rows_to_delete', 'int')
        a = D1.cols[0]
        p, q, r = z3.Int(I.reg.fresh('p')), z3.Int(I.reg.fresh('q')), z3.Int(I.reg.fresh('r'))
        memD = mem_of(I, D1)
        I.assume(z3.ForAll([p, q], z3.Implies(z3.And(p >= 0, p < q, q < D1.length), z3.Select(a, p) < z3.Select(a, q)),
                           patterns=[z3.MultiPattern(z3.Select(a, p), z3.Select(a, q))]))
        I.assume(z3.ForAll([p], z3.Implies(z3.And(p >= 0, p < D1.length), z3.And(z3.Select(a, p) >= 0, z3.Select(a, p) < arr.length)),
                           patterns=[z3.Select(a, p)]))
        I.assume(z3.ForAll([r], z3.Implies(z3.And(r >= 0, r < arr.length), memD(r) == touch(r)),
                           patterns=[memD(r)] + [z3.Select(c, r) for c in arr.cols]))
        UA0 = models_np.np_delete(ctx, [arr, D1], {'axis': 0})
        m, src, dst, _ = delete_maps(I, arr.length, D1)
        cl = cless_of(I, Sd)
        UA = I.fresh_seq('reindexed', ('row', arr.width, 'int'), kind='ndarray')
        I.assume(UA.length == m)
        for c in range(arr.width):
            v = z3.Select(arr.cols[c], src(p))
            I.assume(z3.ForAll([p], z3.Implies(z3.And(p >= 0, p < m), z3.Select(UA.cols[c], p) == v - cl(Sd.length, v)),
                               patterns=[z3.Select(UA.cols[c], p)]))
        st.setdefault('calls', []).append(dict(arr=arr, S=Sd, D1=D1, UA=UA, maps=(m, src, dst)))
        return (UA, D1)
    return model


def sizes_contract(I, st):
    """assert_arrays_are_consistent_sizes: returning normally requires the size part of WF -> obligations at the call."""
    def model(ctx, args, kwargs):
        (ref,) = args
        f = I.state.heap[ref.oid]
        N = f['positions'].length
        for x in ('atom_types', 'charges', 'groups', 'extra_atom_fields'):
            I.oblige("%s/consistent-sizes/%s" % (ctx.speckey, x), f[x].length == N, 'post')
        for k, _ in AM.KINDS:
            nk = f[AM.PLURAL[k]].length
            I.oblige("%s/consistent-sizes/%s_types" % (ctx.speckey, k), f[k + '_types'].length == nk, 'post')
            I.oblige("%s/consistent-sizes/extra_%s_fields" % (ctx.speckey, k), f['extra_%s_fields' % k].length == nk, 'post')
        st['sizes_checked'] = True
        return None
    return model


def build_delitem(S):
    I = S.interp()
    models_py.install(I)
    models_np.install(I)
    st = {}
    I.models['%s:%s' % (REL, FN)] = reindex_contract(I, st)
    I.models['%s:Atoms.assert_arrays_are_consistent_sizes' % REL] = sizes_contract(I, st)
    # postconditions are emitted inside a second exploration so that path-local symbols are in scope
    I2 = S.interp()
    I2.allow_merge = False       # one path per combination of present / absent term kinds
    models_py.install(I2)
    models_np.install(I2)
    st2 = {}
    I2.models['%s:%s' % (REL, FN)] = reindex_contract(I2, st2)
    I2.models['%s:Atoms.assert_arrays_are_consistent_sizes' % REL] = sizes_contract(I2, st2)
    clo2 = I2.closure_for(REL, 'Atoms.__delitem__')

    def thunk2():
        st2.clear()
        ref, f = AM.make_atoms(I2, 'self')
        old = dict(f)
        L = z3.Int('L')
        I2.assume(L >= 0)
        idx = AM.seq('indices', L, [INT], kind='list')
        idx.distinct = True
        N = f['positions'].length
        I2.assume(AM.pairwise_distinct(idx))
        I2.assume(AM.all_in_range(idx, 0, N, 'rq'))
        for k, _w in AM.KINDS:
            I2.assume(AM.all_in_range(f[AM.PLURAL[k]], 0, N, 'rq_' + k))      # requires: terms refer to existing atoms
        I2.call_closure(clo2, [ref, idx], {})
        new = I2.state.heap[ref.oid]
        tag = "__delitem__"
        maps = delete_maps(I2, N, idx)
        if maps is None:
            raise OutOfSubset("no np.delete(…, indices) on a per-atom array")
        mI, srcI, dstI, _ = maps
        assume_rank_form(I2, N, idx)          # ASSUMED numpy contract (rank form), idx distinct
        memI = mem_of(I2, idx)
        p, r = z3.Int('qp'), z3.Int('qr')
        # atoms: every per-atom array is the order-preserving deletion by `indices`
        for fld in ('positions', 'atom_types', 'charges', 'groups', 'extra_atom_fields'):
            nf, of = new[fld], old[fld]
            if not isinstance(nf, SymSeq) or len(nf.cols) != len(of.cols):
                raise OutOfSubset("field %s has unexpected shape" % fld)
            goal = z3.And(nf.length == mI, z3.ForAll([p], z3.Implies(z3.And(p >= 0, p < mI),
                          z3.And(*[z3.Select(cn, p) == z3.Select(co, srcI(p)) for cn, co in zip(nf.cols, of.cols)]))))
            I2.oblige("%s/post/atoms/%s-survivors-in-order" % (tag, fld), goal, 'post')
        if not st2.get('sizes_checked'):
            I2.oblige("%s/post/consistency-assertion-is-run" % tag, False, 'post')
        calls = {c['arr'].name: c for c in st2.get('calls', [])}
        for k, w in AM.KINDS:
            pl = AM.PLURAL[k]
            ot, oty, ox = old[pl], old[k + '_types'], old['extra_%s_fields' % k]
            nt, nty, nx = new[pl], new[k + '_types'], new['extra_%s_fields' % k]
            if nt is ot:
                # branch `len(...) > 0` not taken: nothing to delete, fields untouched
                I2.oblige("%s/post/%s/untouched-when-empty" % (tag, pl), z3.And(ot.length == 0, z3.BoolVal(nty is oty and nx is ox)), 'post')
                continue
            c = calls.get(ot.name)
            if c is None:
                raise OutOfSubset("%s changed without the re-indexing helper" % pl)
            mD, srcD, dstD = c['maps']
            memD = mem_of(I2, c['D1'])
            touch = lambda rr: z3.Or(*[memI(z3.Select(col, rr)) for col in ot.cols])
            I2.oblige("%s/post/%s/removed-iff-touches-deleted-atom" % (tag, pl),
                      z3.ForAll([r], z3.Implies(z3.And(r >= 0, r < ot.length), memD(r) == touch(r))), 'post')
            I2.oblige("%s/post/%s/survivors-in-order-pointing-to-same-atoms" % (tag, pl),
                      z3.And(nt.length == mD, z3.ForAll([p], z3.Implies(z3.And(p >= 0, p < mD),
                             z3.And(*[z3.And(z3.Select(cn, p) == dstI(z3.Select(co, srcD(p))),
                                             dstI(z3.Select(co, srcD(p))) >= 0, dstI(z3.Select(co, srcD(p))) < new['positions'].length)
                                      for cn, co in zip(nt.cols, ot.cols)])))), 'post')
            I2.oblige("%s/post/%s/types-and-extra-fields-follow" % (tag, pl),
                      z3.And(nty.length == mD, nx.length == mD, z3.ForAll([p], z3.Implies(z3.And(p >= 0, p < mD),
                             z3.And(z3.Select(nty.cols[0], p) == z3.Select(oty.cols[0], srcD(p)),
                                    z3.Select(nx.cols[0], p) == z3.Select(ox.cols[0], srcD(p)))))), 'post')
        # tables untouched
        for fld in ('atom_type_elements', 'atom_type_masses', 'atom_type_labels', 'pair_coeffs') + tuple(k + '_type_coeffs' for k, _ in AM.KINDS):
            I2.oblige("%s/frame/%s-unchanged" % (tag, fld), z3.BoolVal(new[fld] is old[fld]), 'frame')
        # corollary used by callers (self-replacement deletes nothing): an empty index list leaves every array as it was.
        # Stepping stones: with no index to delete every row keeps its place (rank form), first for atoms, then for the rows of each term kind.
        e = z3.Int('qe')
        empty = (L == 0)
        lemA = z3.Implies(empty, z3.ForAll([e], z3.Implies(z3.And(e >= 0, e < N), z3.And(dstI(e) == e, srcI(e) == e)), patterns=[dstI(e)]))
        I2.oblige("%s/lemma/empty-list/every-atom-keeps-its-place" % tag, lemA, 'lemma')
        I2.assume(z3.Implies(empty, z3.ForAll([e], z3.Implies(z3.And(e >= 0, e < N), z3.And(dstI(e) == e, srcI(e) == e)), patterns=[srcI(e)])))
        I2.assume(z3.Implies(empty, z3.ForAll([e], z3.Implies(z3.And(e >= 0, e < N), z3.And(dstI(e) == e, srcI(e) == e)), patterns=[dstI(e)])))

        def unchanged(fld):
            nf, of = new[fld], old[fld]
            if nf is of:
                return z3.BoolVal(True)
            return z3.And(nf.length == of.length, z3.ForAll([e], z3.Implies(z3.And(e >= 0, e < of.length), z3.And(*[z3.Select(cn, e) == z3.Select(co, e) for cn, co in zip(nf.cols, of.cols)]))))
        for fld in ('positions', 'atom_types', 'charges', 'groups', 'extra_atom_fields'):
            I2.oblige("%s/post/empty-index-list-changes-nothing/%s" % (tag, fld), z3.Implies(empty, unchanged(fld)), 'post')
        for k, w in AM.KINDS:
            pl = AM.PLURAL[k]
            if new[pl] is old[pl]:
                continue
            c = calls.get(old[pl].name)
            mD, srcD, dstD = c['maps']
            D1 = c['D1']
            assume_rank_form(I2, old[pl].length, D1)         # D1 is strictly increasing (contract of the helper), hence distinct
            memD = mem_of(I2, D1)
            lemB = z3.Implies(empty, D1.length == 0)
            I2.oblige("%s/lemma/empty-list/%s/no-row-is-removed" % (tag, pl), z3.Implies(z3.And(empty, D1.length > 0), z3.BoolVal(False)) if False else lemB, 'lemma')
            I2.assume(lemB)
            R_ = old[pl].length
            lemC = z3.Implies(empty, z3.ForAll([e], z3.Implies(z3.And(e >= 0, e < R_), z3.And(dstD(e) == e, srcD(e) == e)), patterns=[dstD(e)]))
            I2.oblige("%s/lemma/empty-list/%s/every-row-keeps-its-place" % (tag, pl), lemC, 'lemma')
            I2.assume(z3.Implies(empty, z3.ForAll([e], z3.Implies(z3.And(e >= 0, e < R_), z3.And(dstD(e) == e, srcD(e) == e)), patterns=[srcD(e)])))
            for fld in (pl, k + '_types', 'extra_%s_fields' % k):
                I2.oblige("%s/post/empty-index-list-changes-nothing/%s" % (tag, fld), z3.Implies(empty, unchanged(fld)), 'post')
        return None

    paths2 = I2.explore(thunk2, max_paths=64)
    S.add_interp_obligations(I2, clause='__delitem__')
    for i, pth in enumerate(paths2):
        S.add_canary(I2, "__delitem__/canary#%d" % i, [h for h in pth.pc if not z3.is_quantifier(h)])
    S.assume("requires of __delitem__: indices pairwise distinct, each in [0, N); term atom indices in [0, N)")


def build_pop(S):
    """pop(pos): removes exactly atom pos (default: the last) -- verified against the contract of __delitem__."""
    I = S.interp()
    models_py.install(I)
    models_np.install(I)
    st = {}

    def delitem_contract(ctx, args, kwargs):
        ref, idx = args
        st['deleted'] = idx
        st['N'] = I.state.heap[ref.oid]['positions'].length
        if not (isinstance(idx, list) and len(idx) == 1):
            raise OutOfSubset("pop does not delete a one-element list")
        v = to_z3(idx[0])
        I.oblige("Atoms.pop/pre/delitem-index-valid", z3.And(v >= 0, v < st['N']), 'pre')
        return None
    I.models['%s:Atoms.__delitem__' % REL] = delitem_contract

    def len_contract(ctx, args, kwargs):
        return Sym(I.state.heap[args[0].oid]['positions'].length)
    I.models['%s:Atoms.__len__' % REL] = len_contract
    clo = I.closure_for(REL, 'Atoms.pop')
    for variant in ('default', 'given'):
        def thunk(variant=variant):
            st.clear()
            ref, f = AM.make_atoms(I, 'self')
            N = f['positions'].length
            I.assume(N >= 1)
            if variant == 'default':
                I.call_closure(clo, [ref], {})
                want = N - 1
            else:
                pos = z3.Int('pos')
                I.assume(z3.And(pos >= -N, pos < N))
                I.call_closure(clo, [ref, Sym(pos)], {})
                want = z3.If(pos < 0, pos + N, pos)
            if 'deleted' not in st:
                I.oblige("Atoms.pop[%s]/post/deletes-something" % variant, False, 'post')
            else:
                I.oblige("Atoms.pop[%s]/post/deletes-exactly-the-selected-atom" % variant, to_z3(st['deleted'][0]) == want, 'post')
            return None
        paths = I.explore(thunk)
        for i, pth in enumerate(paths):
            if pth.outcome != 'return':
                raise OutOfSubset("pop raises %r" % (pth.value,))
            S.add_canary(I, "pop[%s]/canary#%d" % (variant, i), pth.pc)
    S.add_interp_obligations(I, clause='pop')
