"""C12 -- replication describes the same crystal in a larger cell.

Atoms.replicate is executed symbolically (one arbitrary atom row, arbitrary 3x3 cell, symbolic integer factors) with Atoms.copy, Atoms.extend
and the image enumeration under contract: proved that every image is a fresh copy of the original translated by i*A + j*B + k*C for the
enumerated multiplier (i, j, k), is appended with shared type ids through extend(..., offsets) with one offset per term kind and no identity
map, that the new cell rows are a*A, b*B, c*C for any cell shape, and that the original object is not modified.  What extend does with the
image (atoms appended in order, terms re-targeted, no supersession since all targets are fresh) is C11's contract; the composition over the
loop (a*b*c*N atoms, each offset once) and the real arrays are BOUNDED (bounded/C12.py).
"""
import ast
import z3

from pyvc.values import Sym, SymSeq, RowVal, Ref, OutOfSubset, to_z3
from pyvc.interp import FuncSpec, LoopSpec, RaiseSig, ExcVal
from pyvc import models_py, models_lin
from pyvc.models_lin import MatVal, sym_row, sym_mat3

META = {
    'level': 'proof',
    'explanation': "lattice translation of every image, wiring of extend (offsets arity, no identity map), cell scaling and frame proved on the real "
                   "AST of Atoms.replicate; image enumeration is an assumed numpy contract; whole-structure result checked with a bound",
    'trusted_base': ["numpy: np.array(np.meshgrid(*[range(r) for r in dims])).T.reshape(-1, 3) enumerates every triple of the product once; boolean "
                     "mask indexing with np.any(x != 0, axis=1) removes exactly the zero triple (composite contract)",
                     "A2 reals; row-wise numpy arithmetic; A4 deepcopy", "contract of Atoms.extend (C11)", "z3 soundness", "pyvc symbolic interpreter"],
}
REL = 'mofun/atoms.py'
R = z3.RealSort()
INT = z3.IntSort()


def build(S):
    S.function(REL, 'Atoms.replicate')
    S.function(REL, 'Atoms.translate')

    def run():
        I = S.interp()
        models_py.install(I)
        models_lin.install(I)
        st = {}
        a, b, c = z3.Int('rep_a'), z3.Int('rep_b'), z3.Int('rep_c')

        class Grid:
            """The value of np.array(np.meshgrid(...)).T.reshape(-1, 3) and of its filtered version."""
            def __init__(self, filtered):
                self.filtered = filtered

        def meshgrid(ctx, args, kwargs):
            return Grid(False)
        I.models['numpy.meshgrid'] = meshgrid

        def np_array(ctx, args, kwargs):
            if isinstance(args[0], Grid):
                return args[0]
            raise OutOfSubset("np.array(%r)" % (args[0],))
        I.models['numpy.array'] = np_array
        prev_T = I.models['attr.T']
        I.models['attr.T'] = lambda ctx, obj: obj if isinstance(obj, Grid) else prev_T(ctx, obj)

        def m_reshape(ctx, recv, args, kwargs, f):
            if isinstance(recv, Grid) and tuple(args) == (-1, 3):
                return recv
            return NotImplemented
        I.models['method.reshape'] = m_reshape

        class NonZeroMask:
            pass

        def seq_compare(ctx, op, x, y):
            raise OutOfSubset("array comparison")
        prev_any = None

        def np_any(ctx, args, kwargs):
            if isinstance(args[0], NonZeroMask) and kwargs.get('axis') == 1:
                return args[0]
            raise OutOfSubset("np.any(%r)" % (args[0],))
        I.models['numpy.any'] = np_any

        def grid_getitem(ctx, cont, idx):
            if idx[0] == 'index' and isinstance(idx[1], NonZeroMask) and not cont.filtered:
                n = z3.Int(I.reg.fresh('n_images'))
                I.assume(n == a * b * c - 1)
                seq = SymSeq(n, [z3.Array('ucmult_%s' % ax, INT, INT) for ax in 'ijk'], 3, 'ndarray', 'ucmults')
                k = z3.Int('gk')
                ci, cj, ck = seq.cols
                I.assume(z3.ForAll([k], z3.Implies(z3.And(k >= 0, k < n), z3.And(
                    z3.Select(ci, k) >= 0, z3.Select(ci, k) < a, z3.Select(cj, k) >= 0, z3.Select(cj, k) < b, z3.Select(ck, k) >= 0, z3.Select(ck, k) < c,
                    z3.Or(z3.Select(ci, k) != 0, z3.Select(cj, k) != 0, z3.Select(ck, k) != 0))), patterns=[z3.Select(ci, k)]))
                st['ucmults'] = seq
                return seq
            return NotImplemented
        I.models['getitem:Grid'] = grid_getitem
        # `ucmults != 0` on the grid
        orig_compare = I.lib.compare

        def compare(ctx, op, x, y):
            if isinstance(x, Grid) and op == 'NotEq' and y == 0:
                return NonZeroMask()
            return orig_compare(ctx, op, x, y)
        I.lib.compare = compare

        def extend_contract(ctx, args, kwargs):
            recv, other = args[0], args[1]
            st.setdefault('extend_calls', []).append(dict(recv=recv, other=other, offsets=kwargs.get('offsets', args[2] if len(args) > 2 else None),
                                                          idmap=kwargs.get('structure_index_map', args[3] if len(args) > 3 else None),
                                                          other_pos=I.state.heap[other.oid]['positions'] if isinstance(other, Ref) else None))
            return None
        I.models['%s:Atoms.extend' % REL] = extend_contract
        I.funcspecs['%s:Atoms.replicate' % REL] = FuncSpec(loops=[LoopSpec('ucmult in ucmults', inv=lambda view, k: [])])
        clo = I.closure_for(REL, 'Atoms.replicate')
        atoms_mod = I.module(REL)

        def thunk():
            st.clear()
            for x in (a, b, c):
                I.assume(x >= 1)
            row = sym_row('p')
            C = sym_mat3('cell')
            selfref = I.state.alloc('Atoms', {'__class__': 'Atoms', '__module__': atoms_mod, 'positions': MatVal([row]), 'cell': C})
            st['self_before'] = dict(I.state.heap[selfref.oid])
            r = I.call_closure(clo, [selfref, (Sym(a), Sym(b), Sym(c))], {})
            return dict(result=r, row=row, C=C, selfref=selfref, self_after=dict(I.state.heap[selfref.oid]), before=st['self_before'],
                        calls=list(st.get('extend_calls', [])), ucmults=st.get('ucmults'), k=getattr(I, 'last_loop_k', None),
                        result_cell=(I.state.heap[r.oid].get('cell') if isinstance(r, Ref) else None))

        def replay_cell(model):
            def iv(n, d):
                try:
                    return max(1, min(3, int(model.get(n, d))))
                except Exception:
                    return d
            reps = [iv('rep_a', 2), iv('rep_b', 1), iv('rep_c', 3)]
            if len(set(reps)) == 1:
                reps = [2, 1, 3]
            return {'kind': 'replicate', 'input': dict(cell='tri', n=3, seed=1, terms=True, coeffs=True, extra=False, kinds=None, reps=reps),
                    'key': 'replicate-cell', 'what': 'replicate%r of a tilted cell does not give cell rows a*A, b*B, c*C' % (tuple(reps),)}

        paths = I.explore(thunk)
        body_paths = ret_paths = 0
        for i, p in enumerate(paths):
            if p.outcome == 'raise':
                raise OutOfSubset("replicate raises %r on a structure with a cell" % (p.value,))
            if p.outcome == 'loopend':
                body_paths += 1
                continue
            ret_paths += 1
            v = p.value
            C = [[to_z3(x, sort=R) for x in r] for r in v['C']]
            rc = v['result_cell']
            if rc is None or not (isinstance(rc, list) and len(rc) == 3):
                raise OutOfSubset("result has no 3x3 cell")
            reps = [a, b, c]
            S.add(I, "replicate/post/new-cell-rows-are-a*A-b*B-c*C#%d" % i, p.pc,
                  z3.And(*[to_z3(rc[r][k], sort=R) == z3.ToReal(reps[r]) * C[r][k] for r in range(3) for k in range(3)]),
                  replay=replay_cell, clause='new cell vectors a*A, b*B, c*C for any cell shape')
            S.add(I, "replicate/frame/original-object-not-modified#%d" % i, p.pc,
                  z3.BoolVal(all(v['self_after'].get(k) is v['before'].get(k) for k in set(v['before']) | set(v['self_after']))),
                  clause='the original object is not modified')
            S.add(I, "replicate/post/result-is-a-fresh-object#%d" % i, p.pc, z3.BoolVal(isinstance(v['result'], Ref) and v['result'].oid != v['selfref'].oid))
            S.add_canary(I, "replicate/canary#%d" % i, [h for h in p.pc if not z3.is_quantifier(h)])
        # loop body obligations are emitted by a dedicated exploration of the body path (see below)
        S.add_interp_obligations(I)
        if body_paths == 0 or ret_paths == 0:
            raise OutOfSubset("loop over images was not cut (contract no longer applies)")
    S.guarded('replicate', run)

    # ---------------------------------------------------------------- one iteration of the image loop, as a block
    def run_body():
        I = S.interp()
        models_py.install(I)
        models_lin.install(I)
        mod = I.module(REL)
        fn = mod.find('Atoms.replicate')
        loops = [n for n in ast.walk(fn) if isinstance(n, ast.For)]
        if len(loops) != 1:
            raise OutOfSubset("expected exactly one loop in replicate")
        st = {}

        def extend_contract(ctx, args, kwargs):
            recv, other = args[0], args[1]
            st['call'] = dict(recv=recv, other=other, offsets=kwargs.get('offsets', args[2] if len(args) > 2 else None),
                              idmap=kwargs.get('structure_index_map', args[3] if len(args) > 3 else None),
                              other_pos=I.state.heap[other.oid]['positions'])
            st['ncalls'] = st.get('ncalls', 0) + 1
            return None
        I.models['%s:Atoms.extend' % REL] = extend_contract
        atoms_mod = I.module(REL)
        i_, j_, k_ = z3.Int('img_i'), z3.Int('img_j'), z3.Int('img_k')

        def thunk():
            st.clear()
            row = sym_row('p')
            C = sym_mat3('cell')
            selfref = I.state.alloc('Atoms', {'__class__': 'Atoms', '__module__': atoms_mod, 'positions': MatVal([row]), 'cell': C})
            repl = I.state.alloc('Atoms', {'__class__': 'Atoms', '__module__': atoms_mod, 'positions': MatVal([row]), 'cell': C})
            before = dict(I.state.heap[selfref.oid])
            ctx = I.block_ctx(REL, 'Atoms.replicate', {'self': selfref, 'repl_atoms': repl, 'ucmult': RowVal([Sym(i_), Sym(j_), Sym(k_)])})
            ctx.exec_block(loops[0].body)
            return dict(row=row, C=C, selfref=selfref, repl=repl, before=before, after=dict(I.state.heap[selfref.oid]), call=st.get('call'), ncalls=st.get('ncalls', 0))
        paths = I.explore(thunk)
        for n, p in enumerate(paths):
            if p.outcome != 'return':
                raise OutOfSubset("image loop body raises")
            v = p.value
            c = v['call']
            ok_wiring = (v['ncalls'] == 1 and isinstance(c['recv'], Ref) and c['recv'].oid == v['repl'].oid and isinstance(c['other'], Ref)
                         and c['other'].oid not in (v['selfref'].oid, v['repl'].oid) and (c['idmap'] is None or c['idmap'] == {}))
            S.add(I, "replicate/image/appended-to-the-result-as-a-fresh-copy-without-identity-map#%d" % n, p.pc, z3.BoolVal(bool(ok_wiring)),
                  clause='each image appended once, no atom identified with an existing one')
            offs = c['offsets']
            ok_off = isinstance(offs, tuple) and len(offs) == 5 and all(isinstance(x, int) and x == 0 for x in offs)
            S.add(I, "replicate/image/shared-type-ids-one-offset-per-term-kind#%d" % n, p.pc, z3.BoolVal(bool(ok_off)),
                  clause='type ids shared (offset 0 for atoms, bonds, angles, dihedrals, impropers)')
            C = [[to_z3(x, sort=R) for x in r] for r in v['C']]
            row = [to_z3(x, sort=R) for x in v['row']]
            pos = c['other_pos']
            if not (isinstance(pos, list) and len(pos) == 1):
                raise OutOfSubset("translated image has unexpected positions")
            got = [to_z3(x, sort=R) for x in pos[0]]
            mult = [z3.ToReal(i_), z3.ToReal(j_), z3.ToReal(k_)]
            want = [row[d] + sum(mult[r] * C[r][d] for r in range(3)) for d in range(3)]
            S.add(I, "replicate/image/translated-by-i*A+j*B+k*C#%d" % n, p.pc, z3.And(*[g == w for g, w in zip(got, want)]),
                  clause='image (i,j,k) is the original shifted by the lattice vector i*A + j*B + k*C')
            S.add(I, "replicate/image/original-untouched#%d" % n, p.pc,
                  z3.BoolVal(all(v['after'].get(k) is v['before'].get(k) for k in set(v['before']) | set(v['after']))))
            S.add_canary(I, "replicate/image/canary#%d" % n, p.pc)
        S.add_interp_obligations(I)
    S.guarded('replicate image loop body', run_body)
    S.clause('new cell a*A, b*B, c*C (any shape)', 'PROVED')
    S.clause('image (i,j,k) translated by i*A+j*B+k*C, appended with shared type ids, original unmodified', 'PROVED (block contract on the loop body)')
    S.clause('all offsets once / a*b*c*N atoms / terms copied per image', 'image enumeration ASSUMED (numpy composite), composition through extend: C11 contract; BOUNDED on the real code')
