"""C02 -- every occurrence is found exactly once.

Deductive part ("at most once"): helpers.group_duplicates is verified with a loop invariant -- every tuple filed under a key
has that key -- so, with the selection block proved in C03 (at most one tuple per key is reported, taken from that key's list)
and the language guarantee that dict keys are distinct, two reported matches have different sorted unit-cell index tuples.
Completeness ("every occurrence is found") is BOUNDED only (floating-point geometry of the search; DESIGN C02).
"""
import z3

from pyvc.values import Sym, SymSeq, OutOfSubset, to_z3, Builtin
from pyvc.interp import FuncSpec, LoopSpec
from pyvc import models_py
from pyvc.models_py import SymDictOfLists

META = {
    'level': 'other',
    'explanation': "uniqueness of reported groups proved from the loop invariant of group_duplicates (+ the selection block of C03); "
                   "completeness only checked with a stated bound on the real code, which is why the level is 'other' and not 'proof'",
    'trusted_base': ["A6: dict keys are distinct and iteration visits each key once (language guarantee)", "z3 soundness", "pyvc symbolic interpreter"],
}
REL = 'mofun/helpers.py'


def build(S):
    S.function(REL, 'group_duplicates')
    Key = z3.DeclareSort('Key')
    Elem = z3.DeclareSort('Elem')

    def run():
        I = S.interp()
        models_py.install(I)
        models_py.install_dict_of_lists(I)
        keyf = I.reg.ufunc('key_of', Elem, Key)
        I.models['ghost.key'] = lambda ctx, args, kwargs: Sym(keyf(to_z3(args[0])))
        INT = z3.IntSort()
        st = {}

        def inv(view, k):
            d = view['keyed_tuples']
            if not isinstance(d, SymDictOfLists):
                raise OutOfSubset("keyed_tuples is not a dict of lists")
            kk, p = z3.Const('ik', Key), z3.Int('ip')
            cnt = z3.Select(d.cnt, kk)
            return [('every-filed-tuple-has-its-key', z3.ForAll([kk, p], z3.Implies(z3.And(z3.Select(d.dom, kk), p >= 0, p < cnt),
                        keyf(z3.Select(z3.Select(d.item, kk), p)) == kk), patterns=[z3.Select(z3.Select(d.item, kk), p)])),
                    ('lists-non-empty', z3.ForAll([kk], z3.Implies(z3.Select(d.dom, kk), cnt >= 1), patterns=[z3.Select(d.cnt, kk)])),
                    ('processed-tuples-are-filed', z3.ForAll([p], z3.Implies(z3.And(p >= 0, p < (k if z3.is_expr(k) else z3.IntVal(k))),
                        z3.Select(d.dom, keyf(z3.Select(st['M'].cols[0], p)))), patterns=[z3.Select(st['M'].cols[0], p)]))]

        I.funcspecs['%s:group_duplicates' % REL] = FuncSpec(loops=[
            LoopSpec('m in match_indices', inv=inv, convert={'keyed_tuples': lambda I_, v: SymDictOfLists.empty(Key, Elem, 'keyed') if isinstance(v, dict) and not v else v})])
        clo = I.closure_for(REL, 'group_duplicates')

        def thunk():
            n = z3.Int('n_tuples')
            I.assume(n >= 0)
            M = SymSeq(n, [z3.Array('match_indices', INT, Elem)], None, 'list', 'match_indices')
            st['M'] = M
            return I.call_closure(clo, [M], {'key': Builtin('ghost.key', None)}), M

        paths = I.explore(thunk)
        for i, pth in enumerate(paths):
            if pth.outcome == 'loopend':
                continue
            if pth.outcome != 'return':
                raise OutOfSubset("group_duplicates raises")
            d, M = pth.value
            if not isinstance(d, SymDictOfLists):
                raise OutOfSubset("result is not the dict")
            kk, p = z3.Const('qk', Key), z3.Int('qp')
            S.add(I, "group_duplicates/post/every-tuple-under-a-key-has-that-key#%d" % i, pth.pc,
                  z3.ForAll([kk, p], z3.Implies(z3.And(z3.Select(d.dom, kk), p >= 0, p < z3.Select(d.cnt, kk)),
                                                keyf(z3.Select(z3.Select(d.item, kk), p)) == kk)),
                  clause='at most once: groups are keyed by their sorted unit-cell indices')
            S.add(I, "group_duplicates/post/every-input-tuple-is-filed#%d" % i, pth.pc,
                  z3.ForAll([p], z3.Implies(z3.And(p >= 0, p < M.length), z3.Select(d.dom, keyf(z3.Select(M.cols[0], p))))),
                  clause='no candidate is dropped by the grouping')
            S.add_canary(I, "group_duplicates/canary#%d" % i, [h for h in pth.pc if not z3.is_quantifier(h)])
        S.add_interp_obligations(I)
        if 'm in match_indices' not in I.funcspecs['%s:group_duplicates' % REL].seen_loops:
            raise OutOfSubset("loop of group_duplicates was not cut at its invariant")
    S.guarded('group_duplicates', run)
    S.clause('each atom group reported at most once', 'PROVED (group_duplicates invariant + C03 selection block + dict key distinctness)')
    S.clause('nothing clearly outside tolerance is reported', 'see C01 guard obligation')
    S.clause('every planted occurrence is reported (completeness)', 'BOUNDED only')
