"""Symbolic Atoms objects (the abstract view of DESIGN section 7) and shared helper predicates."""
import z3

from pyvc.values import Sym, SymSeq, StrS, Ref, RowVal
from pyvc import models_np

INT, REAL = z3.IntSort(), z3.RealSort()
RowS = z3.DeclareSort('ExtraRow')       # one row of an extra_*_fields array (uninterpreted)
KINDS = [('bond', 2), ('angle', 3), ('dihedral', 4), ('improper', 4)]
PLURAL = {'bond': 'bonds', 'angle': 'angles', 'dihedral': 'dihedrals', 'improper': 'impropers'}


def seq(name, n, sorts, width=None, kind='ndarray'):
    cols = [z3.Array('%s_c%d' % (name, i) if len(sorts) > 1 else name, INT, s) for i, s in enumerate(sorts)]
    return SymSeq(n, cols, width, kind, name)


def make_atoms(I, name, cell=True):
    """Allocates a symbolic Atoms object `name` in the interpreter heap.  Returns (ref, fields dict)."""
    N = z3.Int(name + '_N')
    I.assume(N >= 0)
    f = {'__class__': 'Atoms', '__module__': I.module('mofun/atoms.py')}
    f['positions'] = seq(name + '_pos', N, [REAL] * 3, 3)
    f['atom_types'] = seq(name + '_atype', N, [INT])
    f['charges'] = seq(name + '_q', N, [REAL])
    f['groups'] = seq(name + '_grp', N, [INT])
    f['extra_atom_fields'] = seq(name + '_xatom', N, [RowS])
    for k, w in KINDS:
        nk = z3.Int('%s_n%s' % (name, k))
        I.assume(nk >= 0)
        f[PLURAL[k]] = seq('%s_%s' % (name, PLURAL[k]), nk, [INT] * w, w)
        f[k + '_types'] = seq('%s_%s_types' % (name, k), nk, [INT])
        f['extra_%s_fields' % k] = seq('%s_x%s' % (name, k), nk, [RowS])
        nt = z3.Int('%s_n%s_coeffs' % (name, k))
        I.assume(nt >= 0)
        f[k + '_type_coeffs'] = seq('%s_%s_coeffs' % (name, k), nt, [StrS], kind='list')
    T = z3.Int(name + '_T')
    I.assume(T >= 0)
    f['atom_type_elements'] = seq(name + '_elements', T, [StrS], kind='list')
    f['atom_type_masses'] = seq(name + '_masses', T, [REAL], kind='list')
    f['atom_type_labels'] = seq(name + '_labels', T, [StrS], kind='list')
    npc = z3.Int(name + '_npair')
    I.assume(npc >= 0)
    f['pair_coeffs'] = seq(name + '_pair', npc, [StrS], kind='list')
    if cell:
        f['cell'] = [RowVal([Sym(z3.Real('%s_cell%d%d' % (name, i, j))) for j in range(3)]) for i in range(3)]
    else:
        f['cell'] = None
    ref = I.state.alloc('Atoms', f)
    return ref, f


def snapshot(I, ref):
    return dict(I.state.heap[ref.oid])


def all_in_range(s, lo, hi, name='j'):
    """forall j: 0 <= j < len s  ->  lo <= s[j][c] < hi  (all columns)"""
    j = z3.Int(name)
    body = z3.And(*[z3.And(z3.Select(c, j) >= lo, z3.Select(c, j) < hi) for c in s.cols])
    return z3.ForAll([j], z3.Implies(z3.And(j >= 0, j < s.length), body), patterns=[z3.Select(s.cols[0], j)])


def pairwise_distinct(s, name='d'):
    i, j = z3.Int(name + 'i'), z3.Int(name + 'j')
    a = s.cols[0]
    return z3.ForAll([i, j], z3.Implies(z3.And(i >= 0, i < j, j < s.length), z3.Select(a, i) != z3.Select(a, j)),
                     patterns=[z3.MultiPattern(z3.Select(a, i), z3.Select(a, j))])


def strictly_descending(s, name='s'):
    i, j = z3.Int(name + 'i'), z3.Int(name + 'j')
    a = s.cols[0]
    return z3.ForAll([i, j], z3.Implies(z3.And(i >= 0, i < j, j < s.length), z3.Select(a, i) > z3.Select(a, j)),
                     patterns=[z3.MultiPattern(z3.Select(a, i), z3.Select(a, j))])


def wf_sizes(f):
    """Size part of the representation invariant WF."""
    N = f['positions'].length
    parts = [f[x].length == N for x in ('atom_types', 'charges', 'groups', 'extra_atom_fields')]
    for k, _ in KINDS:
        nk = f[PLURAL[k]].length
        parts += [f[k + '_types'].length == nk, f['extra_%s_fields' % k].length == nk]
    T = f['atom_type_elements'].length
    parts += [f['atom_type_masses'].length == T, f['atom_type_labels'].length == T]
    return z3.And(*parts)


def wf_ranges(f):
    """Index / type range part of WF: term atoms are existing atoms, type ids are covered by non-empty tables."""
    N = f['positions'].length
    parts = []
    for k, _ in KINDS:
        parts.append(all_in_range(f[PLURAL[k]], 0, N, 'wr_' + k))
        nt = f[k + '_type_coeffs'].length
        j = z3.Int('wt_' + k)
        t = f[k + '_types']
        parts.append(z3.ForAll([j], z3.Implies(z3.And(j >= 0, j < t.length),
                                               z3.And(z3.Select(t.cols[0], j) >= 0, z3.Implies(nt > 0, z3.Select(t.cols[0], j) < nt))),
                               patterns=[z3.Select(t.cols[0], j)]))
    T = f['atom_type_elements'].length
    j = z3.Int('wt_atom')
    t = f['atom_types']
    parts.append(z3.ForAll([j], z3.Implies(z3.And(j >= 0, j < t.length), z3.And(z3.Select(t.cols[0], j) >= 0, z3.Select(t.cols[0], j) < T)),
                           patterns=[z3.Select(t.cols[0], j)]))
    return z3.And(*parts)
