"""C16 -- CML molecules load faithfully.

Atoms.load_cml is executed symbolically against an abstract ElementTree result: two symbolic lists of attribute dictionaries (atoms
with id / elementType / x3 / y3 / z3, bonds with atomRefs2 / order).  Postcondition from the statement: one atom per entry in document
order with the stated element and coordinates, one bond per bond entry joining the atoms named by its references, including zero bonds.
"""
import z3

from pyvc.values import Sym, SymSeq, StrS, OutOfSubset, to_z3, Ref, ModuleVal
from pyvc.interp import RaiseSig, ExcVal
from pyvc import models_py

META = {
    'level': 'proof',
    'explanation': "load_cml verified against an abstract parsed document for any number of atoms and bonds; the real XML parser, "
                   "path-vs-file equality and id spellings are exercised by the bounded stage",
    'trusted_base': ["xml.etree: ET.parse(f).getroot().findall('.//tag') returns the elements of that tag in document order, .attrib their attributes",
                     "float(str) and str.split() are uninterpreted total functions (a reference has exactly two ids: requires)",
                     "np.array([x, y, z]).T stacks three equally long sequences as columns", "z3 soundness", "pyvc symbolic interpreter"],
}
REL = 'mofun/atoms.py'
INT, REAL = z3.IntSort(), z3.RealSort()


class XmlTree:
    def __init__(self, doc):
        self.doc = doc


def build(S):
    from contracts import dispatch
    dispatch.prove_dispatch(S, which=('load',))
    S.function(REL, 'Atoms.load_cml')

    def run():
        I = S.interp()
        models_py.install(I)
        st = {}

        def rec_seq(name, n, fields):
            cols = [z3.Array('%s_%s' % (name, f), INT, StrS) for f in fields]
            s = SymSeq(n, cols, len(cols), 'list', name)
            s.shape = ('d', [(f, ('s', StrS)) for f in fields])
            return s

        def et_parse(ctx, args, kwargs):
            return XmlTree(st['doc'])
        I.models['xml.etree.ElementTree.parse'] = et_parse

        def m_getroot(ctx, recv, args, kwargs, f):
            if isinstance(recv, XmlTree):
                return recv
            return NotImplemented
        I.models['method.getroot'] = m_getroot

        def m_findall(ctx, recv, args, kwargs, f):
            if isinstance(recv, XmlTree) and args and args[0] in ('.//atom', './/bond'):
                return recv.doc['atoms' if args[0] == './/atom' else 'bonds']
            raise OutOfSubset("findall(%r)" % (args,))
        I.models['method.findall'] = m_findall
        I.models['attr.attrib'] = lambda ctx, obj: obj if isinstance(obj, dict) else NotImplemented
        tok = [I.reg.ufunc('split_tok%d' % i, StrS, StrS) for i in range(2)]

        def str_split(ctx, recv, args):
            if args:
                raise OutOfSubset("split with separator")
            return [Sym(tok[0](recv.e)), Sym(tok[1](recv.e))]
        I.models['str.split'] = str_split

        class Stack:
            def __init__(self, seqs):
                self.seqs = seqs

        def np_array(ctx, args, kwargs):
            v = args[0]
            if isinstance(v, list) and v and all(isinstance(x, SymSeq) and x.width is None for x in v):
                return Stack(v)
            raise OutOfSubset("np.array(%r)" % (v,))
        I.models['numpy.array'] = np_array

        def attr_T(ctx, obj):
            if isinstance(obj, Stack):
                n = obj.seqs[0].length
                for s_ in obj.seqs[1:]:
                    I.oblige("%s/safety/stacked-columns-equal-length" % ctx.speckey, s_.length == n, 'safety')
                return SymSeq(n, [s_.cols[0] for s_ in obj.seqs], len(obj.seqs), 'ndarray', 'positions')
            return NotImplemented
        I.models['attr.T'] = attr_T

        def atoms_init(ctx, args, kwargs):
            st['ctor'] = dict(kwargs)
            st['ctor_args'] = args
            return I.state.alloc('Atoms', dict(kwargs, __class__='Atoms'))
        I.models['%s:Atoms.__init__' % REL] = atoms_init
        clo = I.closure_for(REL, 'Atoms.load_cml')
        fofs = I.reg.ufunc('float_of_str', StrS, REAL)

        def thunk():
            st.clear()
            NA, NB = z3.Int('n_atoms'), z3.Int('n_bonds')
            I.assume(NA >= 1)          # requires: at least one atom (the statement: "any number of atoms (including one)")
            I.assume(NB >= 0)
            atoms = rec_seq('atom', NA, ['id', 'elementType', 'x3', 'y3', 'z3'])
            bonds = rec_seq('bond', NB, ['atomRefs2', 'order'])
            st['doc'] = {'atoms': atoms, 'bonds': bonds}
            ids = atoms.cols[0]
            a, b = z3.Int('ua'), z3.Int('ub')
            # requires: atom ids unique; every bond reference names an atom id
            I.assume(z3.ForAll([a, b], z3.Implies(z3.And(a >= 0, a < b, b < NA), z3.Select(ids, a) != z3.Select(ids, b)),
                               patterns=[z3.MultiPattern(z3.Select(ids, a), z3.Select(ids, b))]))
            idx = z3.Function('doc_index_of_id', StrS, INT)       # ghost: document position of the atom carrying an id
            I.assume(z3.ForAll([a], z3.Implies(z3.And(a >= 0, a < NA), idx(z3.Select(ids, a)) == a), patterns=[z3.Select(ids, a)]))
            refs = bonds.cols[0]
            for t in tok:
                I.assume(z3.ForAll([b], z3.Implies(z3.And(b >= 0, b < NB), z3.And(idx(t(z3.Select(refs, b))) >= 0, idx(t(z3.Select(refs, b))) < NA,
                                                                                   z3.Select(ids, idx(t(z3.Select(refs, b)))) == t(z3.Select(refs, b)))),
                                   patterns=[t(z3.Select(refs, b))]))
            st['idx'] = idx
            cls = ModuleVal('class:Atoms', {'__class__': 'Atoms', '__module__': I.module(REL)})
            f = z3.Const('file_or_path', models_py.ObjS)
            r = I.call_closure(clo, [cls, models_py.Opaque(f, 'f')], {})
            return r, atoms, bonds, st.get('ctor'), st['idx']

        def replay_for(model):
            nb = model.get('n_bonds', '0')
            na = model.get('n_atoms', '1')
            return {'kind': 'cml', 'input': {'n_atoms': max(1, min(int(na), 6)), 'n_bonds': max(0, min(int(nb), 5))}, 'key': 'load_cml',
                    'what': 'load_cml fails or misreads a document with %s atoms and %s bonds' % (na, nb)}

        paths = I.explore(thunk)
        for i, p in enumerate(paths):
            if p.outcome == 'raise':
                S.add(I, "load_cml/never-raises-on-well-formed-documents#%d" % i, p.pc, z3.BoolVal(False), replay=replay_for,
                      clause='a molecule without bonds loads with zero bonds; any well-formed document loads')
                continue
            r, atoms, bonds, kw, idx = p.value
            if kw is None or not isinstance(r, Ref):
                raise OutOfSubset("load_cml does not end in cls(...)")
            NA, NB = atoms.length, bonds.length
            els, pos, bnd, bt = kw.get('elements'), kw.get('positions'), kw.get('bonds'), kw.get('bond_types')
            if not (isinstance(els, SymSeq) and isinstance(pos, SymSeq) and isinstance(bnd, SymSeq) and isinstance(bt, SymSeq)):
                raise OutOfSubset("constructor arguments have unexpected shapes")
            k = z3.Int('qk')
            S.add(I, "load_cml/post/one-atom-per-entry-with-stated-element#%d" % i, p.pc,
                  z3.And(els.length == NA, z3.ForAll([k], z3.Implies(z3.And(k >= 0, k < NA), z3.Select(els.cols[0], k) == z3.Select(atoms.cols[1], k)))),
                  replay=replay_for, clause='elements in document order')
            S.add(I, "load_cml/post/coordinates-are-x3-y3-z3#%d" % i, p.pc,
                  z3.And(pos.length == NA, z3.BoolVal(pos.width == 3), z3.ForAll([k], z3.Implies(z3.And(k >= 0, k < NA),
                         z3.And(*[z3.Select(pos.cols[c], k) == fofs(z3.Select(atoms.cols[2 + c], k)) for c in range(3)])))) if pos.width == 3 else z3.BoolVal(False),
                  replay=replay_for, clause='positions')
            flat = bnd.cols
            S.add(I, "load_cml/post/one-bond-per-entry-between-the-referenced-atoms#%d" % i, p.pc,
                  z3.And(bnd.length == NB, z3.BoolVal(len(flat) == 2), z3.ForAll([k], z3.Implies(z3.And(k >= 0, k < NB),
                         z3.And(*[z3.Select(flat[c], k) == idx(tok[c](z3.Select(bonds.cols[0], k))) for c in range(2)])))) if len(flat) == 2 else z3.BoolVal(False),
                  replay=replay_for, clause='bonds resolved through the id table')
            S.add(I, "load_cml/post/one-bond-type-per-bond#%d" % i, p.pc, bt.length == NB, replay=replay_for)
            S.add_canary(I, "load_cml/canary#%d" % i, [h for h in p.pc if not z3.is_quantifier(h)])
        S.add_interp_obligations(I, replay=replay_for)
    S.guarded('load_cml', run)
    S.clause('atoms / elements / coordinates / bonds from an abstract parsed document', 'PROVED (any number of atoms >= 1 and bonds >= 0, any id scheme with unique ids)')
    S.clause('real XML parser, path vs open file, id spellings', 'BOUNDED (bounded/C16.py)')
