"""C20 -- the command line does exactly load, replicate, find/replace, save.

mofun_cli's body is executed symbolically with every callee (Atoms.load, replicate, replace_pattern_in_structure, find_pattern_in_structure, save,
ase.io.read, numpy helpers) an uninterpreted, effect-recording function and the structure an object whose state is a version term.  For each
scenario of present / absent options the term that reaches `save` is compared with the specification term
    load -> cell / positions / charges overrides -> replicate -> minimum-image replication (orthorhombic) -> pair parameters -> replace(...)
with every option value at the keyword of the call it names.  The click decorator table is read from the same AST.  click's parsing and the real
file effects are BOUNDED (bounded/C20.py: CliRunner in-process vs the API sequence with the same seeds).
"""
import ast
import z3

from pyvc.values import Sym, SymOpt, Opaque, Ref, OutOfSubset, to_z3, StrS
from pyvc.interp import RaiseSig, ExcVal
from pyvc import models_py
from pyvc.models_py import ObjS, to_obj, opaque_call

META = {
    'level': 'proof',
    'explanation': "call-trace contract of mofun_cli proved per option scenario with callees uninterpreted; click parsing and file effects bounded",
    'trusted_base': ["click delivers each option value to the parameter named by its declaration (decorator table checked syntactically)",
                     "callees are uninterpreted: what load / replicate / replace / save do is C12, C04-C08, C13-C16", "z3 soundness", "pyvc symbolic interpreter"],
}
CLI = 'mofun/cli/mofun_cli.py'
ATOMS = 'mofun/atoms.py'


class PathVal(Opaque):
    def __init__(self, name, suffix):
        Opaque.__init__(self, z3.Const(name, ObjS), name)
        self.suffix = suffix


def declared_attributes(mod):
    """Attributes an Atoms object has: assigned as self.X anywhere in the class, properties and methods."""
    names = set()
    cls = mod.classes['Atoms']
    for n in ast.walk(cls):
        if isinstance(n, ast.Attribute) and isinstance(n.value, ast.Name) and n.value.id == 'self' and isinstance(n.ctx, ast.Store):
            names.add(n.attr)
        if isinstance(n, ast.FunctionDef):
            names.add(n.name)
    return names


def build(S):
    S.function(CLI, 'mofun_cli')
    S.function(CLI, 'assign_pair_params_to_structure')

    def run_scenario(name, present, expect):
        I = S.interp()
        I.allow_merge = False
        models_py.install(I)
        models_py.install_opaque_algebra(I)
        amod = I.module(ATOMS)
        declared = declared_attributes(amod)
        saved = []

        def new_atoms(version):
            return I.state.alloc('Atoms', {'__class__': 'Atoms', '__module__': amod, '__version__': version})

        def ver(ref):
            return I.state.heap[ref.oid]['__version__']

        def call_term(fname, *args, **kw):
            return opaque_call(I, fname, list(args), kw, record=False).term

        def m_load(ctx, args, kwargs):
            a = [x for x in args if not (hasattr(x, 'name') and str(getattr(x, 'name', '')).startswith('class:'))]
            return new_atoms(call_term('Atoms.load', *a, **kwargs))
        I.models['%s:Atoms.load' % ATOMS] = m_load
        I.models['%s:Atoms.from_ase_atoms' % ATOMS] = lambda ctx, args, kwargs: new_atoms(call_term('Atoms.from_ase_atoms', *args[1:]))

        def m_replicate(ctx, args, kwargs):
            return new_atoms(call_term('replicate', Opaque(ver(args[0])), *args[1:], **kwargs))
        I.models['%s:Atoms.replicate' % ATOMS] = m_replicate

        def m_ortho(ctx, args, kwargs):
            f = I.reg.ufunc('cell_is_orthorhombic', ObjS, z3.BoolSort())
            return Sym(f(ver(args[0])))
        I.models['%s:Atoms.cell_is_orthorhombic' % ATOMS] = m_ortho

        def m_save(ctx, args, kwargs):
            saved.append((ver(args[0]), to_obj(I, args[1]), dict(kwargs)))
            I.notes.setdefault('saved', []).append((ver(args[0]), to_obj(I, args[1])))
            return None
        I.models['%s:Atoms.save' % ATOMS] = m_save
        I.models['%s:Atoms.to_ase' % ATOMS] = lambda ctx, args, kwargs: Opaque(call_term('to_ase', Opaque(ver(args[0]))))

        def m_replace(ctx, args, kwargs):
            a = [Opaque(ver(x)) if isinstance(x, Ref) else x for x in args]
            return new_atoms(call_term('replace_pattern_in_structure', *a, **{k: (Opaque(ver(v)) if isinstance(v, Ref) else v) for k, v in kwargs.items()}))
        I.models['mofun/mofun.py:replace_pattern_in_structure'] = m_replace

        def m_find(ctx, args, kwargs):
            a = [Opaque(ver(x)) if isinstance(x, Ref) else x for x in args]
            t = call_term('find_pattern_in_structure', *a, **kwargs)
            I.notes.setdefault('found', []).append(t)
            return Opaque(t)
        I.models['mofun/mofun.py:find_pattern_in_structure'] = m_find
        models_py.install_opaque(I, ['ase.io.read', 'numpy.array', 'numpy.ceil', 'numpy.diag', 'mofun/rough_uff.py:pair_coeffs', 'mofun/uff4mof.py:uff_key_starts_with'], record=False)

        def comp_opaque(ctx, e, sc):
            names = sorted({n.id for n in ast.walk(e) if isinstance(n, ast.Name)} - {n.id for g in e.generators for n in ast.walk(g.target) if isinstance(n, ast.Name)})
            vals = []
            for n_ in names:
                try:
                    v = ctx.lookup(n_)
                except OutOfSubset:
                    continue
                if isinstance(v, (Opaque, Sym, SymOpt, int, str)) or isinstance(v, Ref):
                    vals.append(Opaque(ver(v)) if isinstance(v, Ref) else v)
            return opaque_call(I, 'comp[%s]' % ast.unparse(e), [sc.iterable] + vals, {}, record=False)
        I.models['comprehension'] = comp_opaque

        # attribute access on a versioned Atoms object: declared attributes are opaque reads, anything else is an AttributeError
        orig_getattr = I.lib.getattr

        def getattr_hook(ctx, obj, name_, node=None, for_call=False):
            if isinstance(obj, Ref) and '__version__' in I.state.heap[obj.oid] and name_ not in I.state.heap[obj.oid]:
                key = "%s:Atoms.%s" % (ATOMS, name_)
                if for_call:
                    return orig_getattr(ctx, obj, name_, node, for_call)
                if name_ not in declared:
                    raise RaiseSig(ExcVal('AttributeError', (name_,)))
                if key in I.models:
                    return orig_getattr(ctx, obj, name_, node, for_call)
                return Opaque(I.reg.ufunc('attr_' + name_, ObjS, ObjS)(ver(obj)), 'attr_' + name_)
            return orig_getattr(ctx, obj, name_, node, for_call)
        I.lib.getattr = getattr_hook

        def setattr_hook(ctx, obj, name_, v):
            h = I.state.heap[obj.oid]
            if '__version__' in h and name_ != '__version__':
                f = I.reg.ufunc('with_' + name_, ObjS, ObjS, ObjS)
                h['__version__'] = f(h['__version__'], to_obj(I, v))
                h.pop(name_, None)
        I.models['ref.setattr.hook'] = setattr_hook
        I.models['attr.suffix'] = lambda ctx, obj: obj.suffix if isinstance(obj, PathVal) else NotImplemented
        clo = I.closure_for(CLI, 'mofun_cli')
        sym = {}

        def thunk():
            del saved[:]
            kw = {}
            sym.clear()
            sym['in'] = PathVal('inputpath', present.get('insuffix', '.cif'))
            sym['out'] = PathVal('outputpath', present.get('outsuffix', '.lmpdat'))
            for k_, mk in (('find_path', lambda: PathVal('find_path', '.cml')), ('replace_path', lambda: PathVal('replace_path', '.cml')),
                           ('extract_uc_path', lambda: PathVal('extract_uc_path', '.cif')), ('dumppath', lambda: PathVal('dumppath', '.dump')),
                           ('chargefile', lambda: Opaque(z3.Const('chargefile', ObjS), 'chargefile')),
                           ('replicate', lambda: (Sym(z3.Int('rx')), Sym(z3.Int('ry')), Sym(z3.Int('rz')))),
                           ('mic', lambda: Sym(z3.Real('mic'))), ('framework_element', lambda: Sym(z3.Const('framework_element', StrS)))):
                if present.get(k_):
                    sym[k_] = mk()
                    kw[k_] = sym[k_]
            sym['atol'], sym['fraction'] = Sym(z3.Real('atol')), Sym(z3.Real('replace_fraction'))
            kw['atol'], kw['replace_fraction'] = sym['atol'], sym['fraction']
            for h_ in ('axisp1_idx', 'axisp2_idx', 'opoint_idx'):
                sym[h_] = SymOpt(z3.Bool(h_ + '_none'), Sym(z3.Int(h_)))
                kw[h_] = sym[h_]
            kw['pp'] = bool(present.get('pp'))
            I.call_closure(clo, [sym['in'], sym['out']], kw)
            return None

        paths = I.explore(thunk, max_paths=200)
        tag = "mofun_cli[%s]" % name
        # ---- specification term
        def spec_term(ortho_path):
            t = lambda fname, *a, **k: opaque_call(I, fname, list(a), k, record=False).term
            w = lambda field, base, v: I.reg.ufunc('with_' + field, ObjS, ObjS, ObjS)(base, to_obj(I, v))
            at = lambda field, base: I.reg.ufunc('attr_' + field, ObjS, ObjS)(base)
            s = t('Atoms.load', sym['in'])
            if present.get('extract_uc_path'):
                s = w('cell', s, Opaque(at('cell', t('Atoms.load', sym['extract_uc_path']))))
            if present.get('dumppath'):
                s = w('positions', s, Opaque(at('positions', t('ase.io.read', sym['dumppath'], format='lammps-dump-text'))))
            if present.get('chargefile'):
                s = None     # the charge list is a comprehension term: checked structurally below
            return s
        for n, p in enumerate(paths):
            if p.outcome == 'raise':
                exc = p.value
                if exc.cls == 'AssertionError' and (present.get('chargefile') or present.get('dumppath')):
                    # documented asserts on the lengths of the charge / dump data: they may fire only when two of the lengths involved differ
                    lens, stack, seen = [], list(p.pc), set()
                    while stack:
                        t = stack.pop()
                        if t.get_id() in seen:
                            continue
                        seen.add(t.get_id())
                        if z3.is_app(t) and t.decl().name().endswith('len_obj') and not any(z3.eq(t, x) for x in lens):
                            lens.append(t)
                        stack.extend(t.children())
                    if len(lens) < 2:
                        raise OutOfSubset("AssertionError on a path that compares no two lengths")
                    S.add(I, "%s/length-assert-fires-only-on-a-length-mismatch#%d" % (tag, n), p.pc, z3.Not(z3.And(*[lens[0] == x for x in lens[1:]])),
                          clause='every documented option reaches the operation it names')
                    continue
                S.add(I, "%s/does-not-raise#%d" % (tag, n), p.pc, z3.BoolVal(False),
                      replay=(lambda model: {'kind': 'cli', 'input': dict(pair='swap-element', opts=dict(find=True, replace=True, framework_element='C'), infmt='cif', outfmt='lmpdat', seed=99, rng=1),
                                             'key': 'cli-framework-element', 'what': 'the command line raises %s with --framework-element' % exc.cls}) if present.get('framework_element') else None,
                      clause='every documented option reaches the operation it names')
                continue
            sv = p.notes.get('saved', [])
            ok_one = len(sv) == 1
            S.add(I, "%s/saves-exactly-once-to-outputpath#%d" % (tag, n), p.pc,
                  z3.And(z3.BoolVal(ok_one), (sv[0][1] == sym['out'].term) if ok_one else z3.BoolVal(False)), clause='writes one file: the output path')
            if not ok_one:
                continue
            final = sv[0][0]
            # structural reading of the saved term, outermost first
            text = str(final)
            order = expect(present)
            pos = [text.find(x) for x in order]
            S.add(I, "%s/operations-nested-in-the-documented-order#%d" % (tag, n), p.pc,
                  z3.BoolVal(all(q >= 0 for q in pos) and pos == sorted(pos)), clause='load, overrides, replicate, minimum-image replication, pair parameters, find/replace, save in this order')
            if present.get('replace_path') and present.get('find_path'):
                # the outermost operation is the replacement, with every option at the keyword it names
                rep = final
                ok = rep.decl().name().startswith('u_call_replace_pattern_in_structure')
                S.add(I, "%s/replace-is-the-last-operation-before-save#%d" % (tag, n), p.pc, z3.BoolVal(bool(ok)))
                if ok:
                    name_parts = rep.decl().name()
                    kws = sorted(['atol', 'axisp1_idx', 'axisp2_idx', 'opoint_idx', 'replace_fraction'])
                    args = [rep.arg(i) for i in range(rep.num_args())]
                    want_kw = {'atol': to_obj(I, sym['atol']), 'replace_fraction': to_obj(I, sym['fraction']), 'axisp1_idx': to_obj(I, sym['axisp1_idx']),
                               'axisp2_idx': to_obj(I, sym['axisp2_idx']), 'opoint_idx': to_obj(I, sym['opoint_idx'])}
                    good = all(k_ in name_parts for k_ in kws) and len(args) == 3 + len(kws)
                    conds = [z3.BoolVal(bool(good))]
                    if good:
                        for k_, a_ in zip(kws, args[3:]):
                            conds.append(a_ == want_kw[k_])
                        load = lambda pth: opaque_call(I, 'Atoms.load', [pth], {}, record=False).term
                        conds.append(args[1] == load(sym['find_path']))
                        conds.append(args[2] == load(sym['replace_path']))
                    S.add(I, "%s/every-option-reaches-the-keyword-it-names#%d" % (tag, n), p.pc, z3.And(*conds),
                          clause='atol, replacement fraction and the three hints reach replace_pattern_in_structure; patterns are the loaded find / replace files')
            elif present.get('find_path'):
                fd = p.notes.get('found', [])
                ok = len(fd) == 1 and 'find_pattern_in_structure' in fd[0].decl().name() and 'atol' in fd[0].decl().name()
                S.add(I, "%s/find-only-searches-the-structure-that-is-saved-unmodified#%d" % (tag, n), p.pc,
                      z3.And(z3.BoolVal(bool(ok)), (fd[0].arg(0) == final) if ok else z3.BoolVal(False), (fd[0].arg(2) == to_obj(I, sym['atol'])) if ok else z3.BoolVal(False)),
                      clause='find only: reports the matches of the API and writes the structure unmodified')
            S.add_canary(I, "%s/canary#%d" % (tag, n), p.pc)
        S.add_interp_obligations(I)

    def expect(present):
        order = []
        if present.get('replace_path') and present.get('find_path'):
            order.append('u_call_replace_pattern_in_structure')
        if present.get('pp'):
            order += ['u_with_atom_type_labels', 'u_with_pair_coeffs']
        if present.get('mic'):
            order.append('u_call_replicate')
        if present.get('replicate'):
            order.append('u_call_replicate')
        if present.get('chargefile'):
            order.append('u_with_charges')
        if present.get('dumppath'):
            order.append('u_with_positions')
        if present.get('extract_uc_path'):
            order.append('u_with_cell')
        order.append('u_call_Atoms.load')
        # nested terms print outermost first; repeated names are searched left to right
        return order

    scenarios = {
        'all-options': dict(find_path=1, replace_path=1, extract_uc_path=1, chargefile=1, replicate=1, mic=1, pp=1),
        'replace-plain': dict(find_path=1, replace_path=1),
        'replace-with-dump': dict(find_path=1, replace_path=1, dumppath=1, replicate=1),
        'find-only': dict(find_path=1, replicate=1),
        'convert-only': dict(outsuffix='.cif'),
        'framework-element': dict(find_path=1, replace_path=1, framework_element=1),
    }
    for nm, pres in scenarios.items():
        S.guarded('mofun_cli[%s]' % nm, lambda nm=nm, pres=pres: run_scenario(nm, pres, expect))

    # ---- the click decorator table: every option destination is a parameter of the function
    def run_decorators():
        I = S.interp()
        mod = I.module(CLI)
        fn = mod.find('mofun_cli')
        params = [a.arg for a in fn.args.args]
        dests = []
        for d in fn.decorator_list:
            if isinstance(d, ast.Call) and ast.unparse(d.func) in ('click.option', 'click.argument'):
                names = [a.value for a in d.args if isinstance(a, ast.Constant) and isinstance(a.value, str)]
                explicit = [x for x in names if not x.startswith('-')]
                if explicit:
                    dests.append(explicit[-1])
                else:
                    longs = [x for x in names if x.startswith('--')]
                    dests.append(longs[0][2:].replace('-', '_') if longs else names[0].lstrip('-').replace('-', '_'))
        S.add(I, "mofun_cli/decorators/every-option-destination-is-a-parameter", [], z3.BoolVal(bool(dests) and all(x in params for x in dests) and sorted(dests) == sorted(params)),
              clause='click delivers each option to the parameter of the same name')
    S.guarded('decorators', run_decorators)
    S.clause('sequencing and option wiring of mofun_cli (6 option scenarios)', 'PROVED with callees uninterpreted')
    S.clause('--framework-element', 'refuted: AttributeError (known finding F14)')
    S.clause('click parsing, file formats, same output as the API with the same seed', 'BOUNDED (bounded/C20.py)')
