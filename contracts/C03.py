"""C03 -- search results do not depend on how crystal or pattern are represented.

Deductive part (block contracts inside mofun.py:find_pattern_in_structure, geometry opaque):
  * hint normalisation: after the first statements axisp1_idx / axisp2_idx are what the hints say (index 0 included);
  * RNG independence: for every group of candidate orderings a match is reported iff at least one ordering passed the
    rotation re-check, and the reported tuple / rotation are those of one passing ordering -- random.choice enters only
    through "returns a member".
All metamorphic relations (shift, permutation, rigid motion, hint triples, supercells) are BOUNDED (bounded/C03.py).
"""
import ast
import z3

from pyvc.values import Sym, SymOpt, SymSeq, Opaque, OutOfSubset, to_z3
from pyvc import models_py
from pyvc.models_py import ObjS, to_obj

META = {
    'level': 'other',
    'explanation': "hint normalisation and RNG-independence of the reported groups are proved as block contracts on the real AST of "
                   "find_pattern_in_structure (geometry uninterpreted); every metamorphic relation of the statement is only checked "
                   "with a stated bound on the real code (relations between two runs rest on completeness of the search, which is out "
                   "of deductive reach)",
    'trusted_base': ["np.argmax / np.unravel_index / cdist are uninterpreted functions of their arguments",
                     "random.choice(l) returns a member of l", "z3 soundness", "pyvc symbolic interpreter"],
}
REL = 'mofun/mofun.py'
FN = 'find_pattern_in_structure'


def find_stmt(fn, pred, what):
    hits = [n for n in ast.walk(fn) if pred(n)]
    if len(hits) != 1:
        raise OutOfSubset("expected exactly one statement `%s` in %s, found %d (contract no longer applies)" % (what, FN, len(hits)))
    return hits[0]


def build(S):
    S.function(REL, FN)
    S.assume("geometry (cdist, argmax) is uninterpreted in the block contracts")

    # ------------------------------------------------------------------ hint normalisation
    def run_hints():
        I = S.interp()
        models_py.install(I)
        models_py.install_opaque_algebra(I)
        models_py.install_opaque(I, ['scipy.spatial.distance.cdist'], record=False)
        INT = z3.IntSort()
        am_i = I.reg.ufunc('argmax_i', ObjS, INT)
        am_j = I.reg.ufunc('argmax_j', ObjS, INT)
        am_row = I.reg.ufunc('argmax_1d', ObjS, INT)

        def np_argmax(ctx, args, kwargs):
            x = args[0]
            if 'axis' in kwargs and kwargs['axis'] is None:
                return Opaque(I.reg.ufunc('flat_argmax', ObjS, ObjS)(to_obj(I, x)), 'flat_argmax')
            if kwargs:
                raise OutOfSubset("np.argmax with axis")
            return Sym(am_row(to_obj(I, x)))

        def np_unravel(ctx, args, kwargs):
            flat, shape = args
            if not (isinstance(flat, Opaque) and flat.tag == 'flat_argmax'):
                raise OutOfSubset("np.unravel_index of something else than np.argmax(p_ss, axis=None)")
            src = flat.term.arg(0)
            return (Sym(am_i(src)), Sym(am_j(src)))
        I.models['numpy.argmax'] = np_argmax
        I.models['numpy.unravel_index'] = np_unravel
        mod = I.module(REL)
        fn = mod.find(FN)
        body = fn.body
        first_if = next((k for k, s in enumerate(body) if isinstance(s, ast.If) and 'axisp1_idx is None' in ast.unparse(s.test)
                         and 'axisp2_idx' in ast.unparse(s.test)), None)
        pss = next((k for k, s in enumerate(body) if isinstance(s, ast.Assign) and ast.unparse(s.targets[0]) == 'p_ss'), None)
        if first_if is None or pss is None or pss > first_if:
            raise OutOfSubset("hint normalisation block not found (contract no longer applies)")
        block = [body[pss], body[first_if]]
        a1 = SymOpt(z3.Bool('a1_none'), Sym(z3.Int('a1')))
        a2 = SymOpt(z3.Bool('a2_none'), Sym(z3.Int('a2')))
        st = {}

        def thunk():
            pat = Opaque(z3.Const('pattern', ObjS), 'pattern')
            I.assume(z3.Implies(z3.Not(a1.is_none), a1.val.e >= 0))
            I.assume(z3.Implies(z3.Not(a2.is_none), a2.val.e >= 0))
            ctx = I.block_ctx(REL, FN, {'pattern': pat, 'axisp1_idx': a1, 'axisp2_idx': a2, 'verbose': False})
            ctx.exec_block(block)
            st['p_ss'] = ctx.lookup('p_ss')
            return ctx.lookup('axisp1_idx'), ctx.lookup('axisp2_idx')

        def as_opt(v):
            if v is None:
                return z3.BoolVal(True), z3.IntVal(0)
            if isinstance(v, SymOpt):
                return v.is_none, to_z3(v.val)
            return z3.BoolVal(False), to_z3(v)

        def replay_for(model):
            def g(n, d=None):
                v = model.get(n)
                return d if v is None else v
            h = {}
            if g('a1_none') != 'True':
                h['axisp1_idx'] = int(g('a1', '0'))
            if g('a2_none') != 'True':
                h['axisp2_idx'] = int(g('a2', '0'))
            return {'kind': 'hints', 'input': {'hints': h}, 'key': 'hint-normalisation',
                    'what': 'find_pattern_in_structure with hints %r does not behave like the hint-free search' % (h,)}

        paths = I.explore(thunk)
        for i, p in enumerate(paths):
            if p.outcome != 'return':
                raise OutOfSubset("hint block raises")
            o1, o2 = p.value
            n1, v1 = as_opt(o1)
            n2, v2 = as_opt(o2)
            pss_t = to_obj(I, st['p_ss'])
            getitem = I.reg.ufunc('getitem', ObjS, ObjS, ObjS)
            row = lambda ix: getitem(pss_t, I.reg.ufunc('mk_index_tuple_2', ObjS, ObjS, ObjS)(
                to_obj(I, Sym(ix)), I.reg.ufunc('mk_slice', ObjS, ObjS, ObjS, ObjS)(*[z3.Const('py_None', ObjS)] * 3)))
            both = z3.And(z3.Not(a1.is_none), z3.Not(a2.is_none))
            only1 = z3.And(z3.Not(a1.is_none), a2.is_none)
            only2 = z3.And(a1.is_none, z3.Not(a2.is_none))
            none = z3.And(a1.is_none, a2.is_none)
            ok = z3.And(z3.Not(n1), z3.Not(n2))
            goal = z3.And(
                z3.Implies(both, z3.And(ok, v1 == a1.val.e, v2 == a2.val.e)),
                z3.Implies(only1, z3.And(ok, v1 == a1.val.e, v2 == am_row(row(a1.val.e)))),
                z3.Implies(only2, z3.And(ok, v1 == a2.val.e, v2 == am_row(row(a2.val.e)))),
                z3.Implies(none, z3.And(ok, v1 == am_i(pss_t), v2 == am_j(pss_t))))
            S.add(I, "find/hints/normalised#%d" % i, p.pc, goal, replay=replay_for, clause='hint normalisation')
            S.add_canary(I, "find/hints/canary#%d" % i, p.pc)
        S.add_interp_obligations(I, only=lambda ob: 'index-not-none' in ob.name or 'safety' not in ob.name, replay=replay_for)
    S.guarded('hint normalisation', run_hints)

    # ------------------------------------------------------------------ RNG independence of the reported groups
    def run_choice():
        I = S.interp()
        I.allow_merge = False
        models_py.install(I)
        models_py.install_opaque_algebra(I)
        INT = z3.IntSort()

        def rnd_choice(ctx, args, kwargs):
            l = args[0]
            if not isinstance(l, SymSeq):
                raise OutOfSubset("random.choice of %r" % (l,))
            j = I.fresh_int('choice')
            I.assume(z3.And(j >= 0, j < l.length))
            return l.get(j)
        I.models['random.choice'] = rnd_choice
        mod = I.module(REL)
        fn = mod.find(FN)
        sel = find_stmt(fn, lambda n: isinstance(n, ast.If) and ast.unparse(n.test) == 'len(good_indices) > 1', 'if len(good_indices) > 1')

        def seq(name, n, sort):
            return SymSeq(n, [z3.Array(name, INT, sort)], None, 'list', name)

        def thunk():
            G, M, A = z3.Int('n_good'), z3.Int('n_tuples'), z3.Int('n_reported')
            for x in (G, M, A):
                I.assume(x >= 0)
            good = seq('good_indices', G, INT)
            j = z3.Int('gj')
            # requires (established by the inner loop: good_indices.append(i) with i from enumerate(match_tuples))
            I.assume(z3.ForAll([j], z3.Implies(z3.And(j >= 0, j < G), z3.And(z3.Select(good.cols[0], j) >= 0, z3.Select(good.cols[0], j) < M)),
                               patterns=[z3.Select(good.cols[0], j)]))
            env = {'good_indices': good, 'match_tuples': seq('match_tuples', M, ObjS), 'quats': seq('quats', M, ObjS),
                   'good_match_index_tuples': seq('reported_tuples', A, ObjS), 'good_match_quats': seq('reported_quats', A, ObjS)}
            ctx = I.block_ctx(REL, FN, env)
            ctx.exec_stmt(sel)
            return env, ctx.lookup('good_match_index_tuples'), ctx.lookup('good_match_quats'), (G, M, A)

        paths = I.explore(thunk)
        for i, p in enumerate(paths):
            if p.outcome != 'return':
                raise OutOfSubset("selection block raises")
            env, rt, rq, (G, M, A) = p.value
            good, mt, qs = env['good_indices'], env['match_tuples'], env['quats']
            g = z3.Int('g')
            some_good = z3.Exists([g], z3.And(g >= 0, g < G,
                                              z3.Select(rt.cols[0], A) == z3.Select(mt.cols[0], z3.Select(good.cols[0], g)),
                                              z3.Select(rq.cols[0], A) == z3.Select(qs.cols[0], z3.Select(good.cols[0], g))),
                                  patterns=[z3.Select(good.cols[0], g)])
            goal = z3.And(z3.Implies(G > 0, z3.And(rt.length == A + 1, rq.length == A + 1, some_good)),
                          z3.Implies(G == 0, z3.And(rt.length == A, rq.length == A)))
            S.add(I, "find/selection/reported-iff-some-ordering-passed#%d" % i, p.pc, goal,
                  clause='RNG independence of the reported groups')
            k = z3.Int('kk')
            S.add(I, "find/selection/earlier-results-untouched#%d" % i, p.pc,
                  z3.ForAll([k], z3.Implies(z3.And(k >= 0, k < A), z3.And(z3.Select(rt.cols[0], k) == z3.Select(env['good_match_index_tuples'].cols[0], k),
                                                                           z3.Select(rq.cols[0], k) == z3.Select(env['good_match_quats'].cols[0], k)))))
            S.add_canary(I, "find/selection/canary#%d" % i, [h for h in p.pc if not z3.is_quantifier(h)])
        S.add_interp_obligations(I)
    S.guarded('selection block', run_choice)
    S.clause('hint normalisation (index 0 honoured)', 'PROVED (block contract)')
    S.clause('reported groups independent of the random state', 'PROVED (block contract; np.random inside quaternion_from_two_vectors is BOUNDED)')
    S.clause('shift-and-wrap, permutation, rigid motion of the pattern, hint triples, supercell count', 'BOUNDED only (bounded/C03.py)')
