"""Contracts of Atoms methods in ASSUME form, for modular proofs of their callers.

Each model raises the callee's precondition as obligations at the call site and then replaces the callee's effect by what was PROVED
about it (never more):
  * Atoms.extend_types      -- contracts/C11.prove_extend_types
  * Atoms.extend            -- contracts/C11.prove_extend  (postconditions of the whole body; thorough tier: all 16 kind scenarios)
  * Atoms.__delitem__       -- contracts/C10.build_delitem
A caller verified against these models is checked against the callee's contract, not its body; a change inside the callee is caught by the
callee's own obligations (C10 / C11), a change of the call by the obligations raised here.
"""
import z3

from pyvc.values import Sym, SymSeq, Ref, OutOfSubset, to_z3
from pyvc import models_np
from pyvc.models_np import mem_of, delete_maps, assume_rank_form
from contracts import atoms_model as AM

INT = z3.IntSort()
TABLES = ['atom_type_elements', 'atom_type_masses', 'atom_type_labels', 'pair_coeffs'] + [k + '_type_coeffs' for k, _ in AM.KINDS]
PER_ATOM = ('positions', 'atom_types', 'charges', 'groups', 'extra_atom_fields')


def fresh_like_seq(I, s, base, length):
    cols = [z3.Array(I.reg.fresh('%s.c%d' % (base, i)), INT, c.range()) for i, c in enumerate(s.cols)]
    out = SymSeq(length, cols, s.width, s.kind, base)
    out.shape = s.shape
    return out


def extend_types_contract(I, st):
    """tables become old ++ other's; offsets = old table lengths where a table exists (atom types: always), else an id above those in use."""
    def model(ctx, args, kwargs):
        me, other = args
        hs, ho = I.state.heap[me.oid], I.state.heap[other.oid]
        old = {t: hs[t] for t in TABLES}
        for t in TABLES:
            hs[t] = models_np.np_append(ctx, [hs[t], ho[t]], {})
        offs = [Sym(old['atom_type_elements'].length)]
        for k, _ in AM.KINDS:
            o = z3.Int(I.reg.fresh('off_' + k))
            tab = old[k + '_type_coeffs'].length
            I.assume(o >= 0)
            I.assume(z3.Implies(tab > 0, o == tab))
            offs.append(Sym(o))
        st['old_tables'] = old
        st['offsets'] = tuple(offs)
        I.reg.assumptions_used.add("contract of Atoms.extend_types (proved in C11): tables appended, offsets = old table lengths")
        return tuple(offs)
    return model


def extend_contract(I, st, tag='extend'):
    """Atoms.extend(other, offsets=<5-tuple>, structure_index_map=<injective partial map other index -> self index>), assume form.
    Used part of the proved postcondition: per-atom arrays grow by the unmapped atoms; existing atoms keep position, charge and group;
    an existing atom changes its type only if the map sends an atom of `other` onto it; every term refers to existing atoms; sizes stay
    consistent; `other` and -- with explicit offsets -- the type tables are not modified."""
    def model(ctx, args, kwargs):
        me, other = args[0], args[1]
        offsets = kwargs.get('offsets')
        m = kwargs.get('structure_index_map', {})
        hs, ho = I.state.heap[me.oid], I.state.heap[other.oid]
        if offsets is None or not isinstance(offsets, tuple) or len(offsets) != 5:
            raise OutOfSubset("extend contract: explicit 5-tuple of offsets expected")
        N, NB = hs['positions'].length, ho['positions'].length
        # ---- requires
        I.oblige("%s/pre/%s/self-sizes-consistent" % (ctx.speckey, tag), AM.wf_sizes(hs), 'pre')
        I.oblige("%s/pre/%s/other-sizes-consistent" % (ctx.speckey, tag), AM.wf_sizes(ho), 'pre')
        for k, _ in AM.KINDS:
            I.oblige("%s/pre/%s/self-%s-refer-to-existing-atoms" % (ctx.speckey, tag, AM.PLURAL[k]), AM.all_in_range(hs[AM.PLURAL[k]], 0, N, 'pr_s_' + k), 'pre')
            I.oblige("%s/pre/%s/other-%s-refer-to-existing-atoms" % (ctx.speckey, tag, AM.PLURAL[k]), AM.all_in_range(ho[AM.PLURAL[k]], 0, NB, 'pr_o_' + k), 'pre')
        if isinstance(m, dict) and not m:
            keys = vals = None
            memV = lambda x: z3.BoolVal(False)
        else:
            keys, vals = getattr(m, 'keys', None), getattr(m, 'vals', None)
            if not (isinstance(keys, SymSeq) and isinstance(vals, SymSeq)):
                raise OutOfSubset("extend contract: unexpected identity map %r" % (m,))
            I.oblige("%s/pre/%s/map-keys-distinct" % (ctx.speckey, tag), AM.pairwise_distinct(keys, 'pmk'), 'pre')
            I.oblige("%s/pre/%s/map-values-distinct" % (ctx.speckey, tag), AM.pairwise_distinct(vals, 'pmv'), 'pre')
            I.oblige("%s/pre/%s/map-keys-are-atoms-of-other" % (ctx.speckey, tag), AM.all_in_range(keys, 0, NB, 'pmkr'), 'pre')
            I.oblige("%s/pre/%s/map-values-are-atoms-of-self" % (ctx.speckey, tag), AM.all_in_range(vals, 0, N, 'pmvr'), 'pre')
            memV = mem_of(I, vals)
        # caller-side lemmas about the map (each an obligation of the caller, then a hypothesis); the contract itself adds nothing here
        cb = st.get('extend_lemmas')
        if cb is not None and keys is not None:
            cb(ctx, hs, ho, keys, vals, mem_of(I, keys), memV)
        # ---- ensures (assumed: proved in C11)
        I.reg.assumptions_used.add("contract of Atoms.extend (proved in C11.prove_extend): existing atoms keep position / charge / group, only mapped atoms "
                                   "change type, terms refer to existing atoms, sizes consistent, other and (explicit offsets) the tables untouched")
        mA = z3.Int(I.reg.fresh('n_appended'))
        I.assume(mA >= 0)
        s = z3.Int(I.reg.fresh('es'))
        new = {}
        for fld in PER_ATOM:
            new[fld] = fresh_like_seq(I, hs[fld], 'ext_' + fld, N + mA)
        keep = []
        for fld in ('positions', 'charges', 'groups'):
            keep += [z3.Select(cn, s) == z3.Select(co, s) for cn, co in zip(new[fld].cols, hs[fld].cols)]
        I.assume(z3.ForAll([s], z3.Implies(z3.And(s >= 0, s < N), z3.And(*keep)), patterns=[z3.Select(new['positions'].cols[0], s)]))
        for fld in ('charges', 'groups'):
            I.assume(z3.ForAll([s], z3.Implies(z3.And(s >= 0, s < N), z3.And(*keep)), patterns=[z3.Select(new[fld].cols[0], s)]))
        I.assume(z3.ForAll([s], z3.Implies(z3.And(s >= 0, s < N, z3.Not(memV(s))),
                                           z3.Select(new['atom_types'].cols[0], s) == z3.Select(hs['atom_types'].cols[0], s)),
                           patterns=[z3.Select(new['atom_types'].cols[0], s)]))
        for k, w in AM.KINDS:
            pl = AM.PLURAL[k]
            nk = z3.Int(I.reg.fresh('n_' + pl))
            I.assume(z3.And(nk >= 0, nk <= hs[pl].length + ho[pl].length))      # C11: post/<kind>/lengths
            new[pl] = fresh_like_seq(I, hs[pl], 'ext_' + pl, nk)
            new[k + '_types'] = fresh_like_seq(I, hs[k + '_types'], 'ext_%s_types' % k, nk)
            new['extra_%s_fields' % k] = fresh_like_seq(I, hs['extra_%s_fields' % k], 'ext_x%s' % k, nk)
            I.assume(AM.all_in_range(new[pl], 0, N + mA, I.reg.fresh('er_' + k)))
        # the appended atoms are the atoms of `other` that are not keys of the map (filter comprehension `atoms_to_add`), in order, with the other's
        # position / charge / group and type id + offset; a mapped atom takes the type id + offset of the atom mapped onto it  (C11: post/atoms/...)
        off0 = to_z3(offsets[0])
        A = SymSeq(mA, [z3.Array(I.reg.fresh('unmapped'), INT, INT)], None, 'list', 'unmapped')
        pj = z3.Int(I.reg.fresh('ej'))
        memK = mem_of(I, keys) if keys is not None else (lambda x: z3.BoolVal(False))
        a0 = A.cols[0]
        in_A = z3.And(z3.Select(a0, pj) >= 0, z3.Select(a0, pj) < NB, z3.Not(memK(z3.Select(a0, pj))))
        I.assume(z3.ForAll([pj], z3.Implies(z3.And(pj >= 0, pj < mA), in_A), patterns=[z3.Select(a0, pj)]))
        I.assume(z3.Implies(mA > 0, z3.substitute(in_A, (pj, z3.IntVal(0)))))
        app = []
        for fld in ('positions', 'charges', 'groups'):
            app += [z3.Select(cn, N + pj) == z3.Select(co, z3.Select(a0, pj)) for cn, co in zip(new[fld].cols, ho[fld].cols)]
        app.append(z3.Select(new['atom_types'].cols[0], N + pj) == z3.Select(ho['atom_types'].cols[0], z3.Select(a0, pj)) + off0)
        I.assume(z3.ForAll([pj], z3.Implies(z3.And(pj >= 0, pj < mA), z3.And(*app)), patterns=[z3.Select(a0, pj)]))
        if keys is not None:
            witV = z3.Function(I.reg.fresh('wit_vals'), INT, INT)
            I.assume(z3.ForAll([pj], z3.Implies(z3.And(pj >= 0, pj < vals.length), witV(z3.Select(vals.cols[0], pj)) == pj), patterns=[z3.Select(vals.cols[0], pj)]))
            I.assume(z3.ForAll([s], z3.Implies(z3.And(s >= 0, s < N, memV(s)), z3.And(witV(s) >= 0, witV(s) < vals.length, z3.Select(vals.cols[0], witV(s)) == s,
                     z3.Select(new['atom_types'].cols[0], s) == z3.Select(ho['atom_types'].cols[0], z3.Select(keys.cols[0], witV(s))) + off0)),
                     patterns=[z3.Select(new['atom_types'].cols[0], s)]))
        # a kind of term that `other` does not have is left exactly as it was  (C11: post/<kind>/untouched-when-other-has-none)
        for k, w in AM.KINDS:
            for fld in (AM.PLURAL[k], k + '_types', 'extra_%s_fields' % k):
                nf, of = new[fld], hs[fld]
                I.assume(z3.Implies(ho[AM.PLURAL[k]].length == 0, z3.And(nf.length == of.length, z3.ForAll([pj], z3.Implies(z3.And(pj >= 0, pj < of.length),
                         z3.And(*[z3.Select(cn, pj) == z3.Select(co, pj) for cn, co in zip(nf.cols, of.cols)])), patterns=[z3.Select(nf.cols[0], pj)]))))
        hs.update(new)
        info = dict(N=N, mA=mA, memV=memV, keys=keys, vals=vals, unmapped=A)
        st.setdefault('extend_calls', []).append(info)
        cb2 = st.get('after_extend')          # ghost code of the caller's proof (e.g. recording which pattern atom each appended row came from)
        if cb2 is not None:
            cb2(ctx, hs, ho, info)
        return None
    return model


def delitem_contract(I, st, tag='__delitem__'):
    """Atoms.__delitem__(indices), assume form (proved in C10.build_delitem for any number >= 0 of distinct valid indices): every per-atom
    array becomes the order-preserving deletion by `indices` (np.delete rank form), surviving terms are re-targeted and refer to existing
    atoms, tables untouched."""
    def model(ctx, args, kwargs):
        me, idx = args
        hs = I.state.heap[me.oid]
        if not (isinstance(idx, SymSeq) and idx.width is None):
            raise OutOfSubset("__delitem__ contract: a list of atom indices expected")
        N = hs['positions'].length
        I.oblige("%s/pre/%s/indices-distinct" % (ctx.speckey, tag), AM.pairwise_distinct(idx, 'pdi'), 'pre')
        I.oblige("%s/pre/%s/indices-are-atoms" % (ctx.speckey, tag), AM.all_in_range(idx, 0, N, 'pdr'), 'pre')
        I.oblige("%s/pre/%s/sizes-consistent" % (ctx.speckey, tag), AM.wf_sizes(hs), 'pre')
        for k, _ in AM.KINDS:
            I.oblige("%s/pre/%s/%s-refer-to-existing-atoms" % (ctx.speckey, tag, AM.PLURAL[k]), AM.all_in_range(hs[AM.PLURAL[k]], 0, N, 'pd_' + k), 'pre')
        I.reg.assumptions_used.add("contract of Atoms.__delitem__ (proved in C10.build_delitem): per-atom arrays = order-preserving deletion by the index list, "
                                   "terms re-targeted and in range, tables untouched")
        old = dict(hs)
        hs['positions'] = models_np.np_delete(ctx, [hs['positions'], idx], {'axis': 0})
        mI, srcI, dstI, _ = delete_maps(I, N, idx)
        idx.distinct = True
        assume_rank_form(I, N, idx)
        # the same surviving rows, in the same order, in every per-atom array (C10: `<field>-survivors-in-order`, one src map)
        p = z3.Int(I.reg.fresh('dp'))
        for fld in PER_ATOM[1:]:
            nf = fresh_like_seq(I, old[fld], 'del_' + fld, mI)
            I.assume(z3.ForAll([p], z3.Implies(z3.And(p >= 0, p < mI), z3.And(*[z3.Select(cn, p) == z3.Select(co, srcI(p)) for cn, co in zip(nf.cols, old[fld].cols)])),
                               patterns=[z3.Select(nf.cols[0], p)]))
            hs[fld] = nf
        for k, w in AM.KINDS:
            pl = AM.PLURAL[k]
            nk = z3.Int(I.reg.fresh('nd_' + pl))
            I.assume(nk >= 0)
            hs[pl] = fresh_like_seq(I, old[pl], 'del_' + pl, nk)
            hs[k + '_types'] = fresh_like_seq(I, old[k + '_types'], 'del_%s_types' % k, nk)
            hs['extra_%s_fields' % k] = fresh_like_seq(I, old['extra_%s_fields' % k], 'del_x%s' % k, nk)
            I.assume(AM.all_in_range(hs[pl], 0, mI, I.reg.fresh('dr_' + k)))
        # corollary (C10: post/empty-index-list-changes-nothing/<field>): an empty index list leaves every array as it was
        pe = z3.Int(I.reg.fresh('de'))
        for fld in PER_ATOM + tuple(x for k, _ in AM.KINDS for x in (AM.PLURAL[k], k + '_types', 'extra_%s_fields' % k)):
            nf, of = hs[fld], old[fld]
            I.assume(z3.Implies(idx.length == 0, z3.And(nf.length == of.length, z3.ForAll([pe], z3.Implies(z3.And(pe >= 0, pe < of.length),
                     z3.And(*[z3.Select(cn, pe) == z3.Select(co, pe) for cn, co in zip(nf.cols, of.cols)])), patterns=[z3.Select(nf.cols[0], pe)]))))
        st['delitem'] = dict(N=N, idx=idx, m=mI, src=srcI, dst=dstI, mem=mem_of(I, idx), old=old)
        return None
    return model
