"""Contract of the format dispatch  Atoms.load(f, filetype=None, **kwargs)  /  Atoms.save(f, filetype=None, **kwargs)   (shared by C13, C15, C16).

Both bodies are executed symbolically for the two kinds of `f` (an open text file / anything else = a path) with an optional symbolic file type
and two caller keywords; readers and writers are uninterpreted calls.  Proved:
  * a file object without file type is refused; an unsupported type is refused (nothing is read or written);
  * an explicit file type decides, the extension of the path is looked at only when no type was given;
  * 'lmpdat' / 'cif' / 'cml' ('mol') reach load_lmpdat / load_p1_cif / load_cml (save_lmpdat / save_p1_cif / save_raspa_mol), exactly one call;
  * the reader / writer gets the handle of use_or_open(file object or None, path or None[, mode 'w']) (load_cml: the file object or the path);
  * every caller keyword reaches the reader / writer unchanged, nothing is added; the reader's result is what load returns.
What readers and writers do with it is C13 / C15 / C16.
"""
import ast
import z3

from pyvc.values import Sym, SymOpt, StrS, Opaque, OutOfSubset, to_z3
from pyvc import models_py
from pyvc.models_py import ObjS, opaque_call, to_obj

REL = 'mofun/atoms.py'
READERS = {'lmpdat': 'load_lmpdat', 'cif': 'load_p1_cif', 'cml': 'load_cml'}
WRITERS = {'lmpdat': 'save_lmpdat', 'cif': 'save_p1_cif', 'mol': 'save_raspa_mol'}


def prove_dispatch(S, which=('load', 'save')):
    for fn in which:
        S.function(REL, 'Atoms.' + fn)
        for is_file in (True, False):
            S.guarded('Atoms.%s dispatch [%s]' % (fn, 'file object' if is_file else 'path'), lambda fn=fn, is_file=is_file: _dispatch(S, fn, is_file))
    S.clause('format dispatch of Atoms.load / Atoms.save: explicit file type before extension, file objects need a type, keywords passed through, one reader / writer call',
             'PROVED (call-trace contract, readers / writers uninterpreted)')


def _dispatch(S, fn, is_file):
    I = S.interp()
    I.allow_merge = False
    models_py.install(I)
    models_py.install_opaque_algebra(I)
    reg = I.reg
    table = READERS if fn == 'load' else WRITERS
    calls = []
    f = Opaque(z3.Const('the_file_object' if is_file else 'the_path', ObjS), 'f')
    ft_none, ft = z3.Bool('no_filetype'), z3.Const('filetype', StrS)
    kw1, kw2 = Sym(z3.Const('kw_atom_format', StrS)), Sym(z3.Real('kw_guess_atol'))
    ext = reg.ufunc('extension_of', ObjS, StrS)
    drop = reg.ufunc('drop_first_char', StrS, StrS)

    def isinstance_(ctx, args, kwargs):
        if args[0] is f:
            return is_file          # the only class the dispatch asks about is io.TextIOBase (an open text file)
        raise OutOfSubset("isinstance of %r" % (args[0],))
    I.models['isinstance'] = isinstance_

    def splitext(ctx, args, kwargs):
        if args[0] is not f:
            raise OutOfSubset("splitext of something else than the path")
        return (Opaque(z3.Const('path_root', ObjS)), Sym(ext(f.term)))
    I.models['os.path.splitext'] = splitext
    I.models['str.getitem'] = lambda ctx, cont, idx: Sym(drop(to_z3(cont))) if idx == ('slice', 1, None, None) else (_ for _ in ()).throw(OutOfSubset("string index %r" % (idx,)))
    # other things a dispatcher may do with the path: uninterpreted
    for nm in ('os.path.basename', 'os.path.dirname', 'os.fspath', 'os.path.abspath'):
        I.models[nm] = (lambda ctx, args, kwargs, nm=nm: Sym(reg.ufunc(nm, ObjS, StrS)(to_obj(I, args[0]))))
    prev_str = I.models.get('str')
    I.models['str'] = lambda ctx, args, kwargs: (Sym(reg.ufunc('str_of_object', ObjS, StrS)(args[0].term)) if len(args) == 1 and isinstance(args[0], Opaque)
                                                 else (prev_str(ctx, args, kwargs) if prev_str else I.lib.bi_str(ctx, args, kwargs)))
    I.models['mofun/helpers.py:use_or_open'] = lambda ctx, args, kwargs: opaque_call(I, 'use_or_open', list(args), kwargs, record=False)

    def callee(name):
        def model(ctx, args, kwargs):
            calls.append((name, list(args), dict(kwargs)))
            return Opaque(z3.Const('result_of_' + name, ObjS), name)
        return model
    for name in set(READERS.values()) | set(WRITERS.values()):
        I.models['%s:Atoms.%s' % (REL, name)] = callee(name)
    mod = I.module(REL)
    clo = I.closure_for(REL, 'Atoms.' + fn)
    def thunk():
        del calls[:]
        me = I.state.alloc('Atoms', {'__class__': 'Atoms', '__module__': mod})      # the object (save) / stands for the class (load is a classmethod)
        r = I.call_closure(clo, [me, f], {'filetype': SymOpt(ft_none, Sym(ft)), 'atom_format': kw1, 'guess_atol': kw2})
        return r, list(calls), me
    paths = I.explore(thunk, max_paths=64)
    tag = 'Atoms.%s[%s]' % (fn, 'file' if is_file else 'path')
    lit = reg.strlit
    eff = ft if is_file else z3.If(ft_none, drop(ext(f.term)), ft)        # the file type that decides
    known = z3.Or(*[eff == lit(k) for k in table])
    n_ok = 0
    for i, p in enumerate(paths):
        add = lambda name, goal, clause=None: S.add(I, "%s/%s#%d" % (tag, name, i), p.pc, goal, clause=clause or 'format dispatch')
        if p.outcome == 'raise':
            cs = []
            # refusing is right only for a file object without type or an unsupported type
            add('refuses-only-untyped-file-objects-and-unsupported-types', z3.Or(z3.And(z3.BoolVal(is_file), ft_none), z3.Not(known)))
            continue
        if p.outcome != 'return':
            raise OutOfSubset("unexpected outcome %r" % (p.outcome,))
        n_ok += 1
        r, cs, me = p.value
        add('exactly-one-reader-or-writer-call', z3.BoolVal(len(cs) == 1))
        if len(cs) != 1:
            continue
        name, args, kwargs = cs[0]
        typ = next(k for k, v in table.items() if v == name)
        add('dispatch-follows-the-explicit-type-else-the-extension', z3.And(eff == lit(typ), z3.Not(z3.And(z3.BoolVal(is_file), ft_none))))
        add('caller-keywords-reach-the-callee-unchanged', z3.And(z3.BoolVal(sorted(kwargs) == ['atom_format', 'guess_atol']),
                                                                 *([to_z3(kwargs['atom_format']) == kw1.e, to_z3(kwargs['guess_atol']) == kw2.e] if sorted(kwargs) == ['atom_format', 'guess_atol'] else [])))
        fd = f if is_file else None
        path = None if is_file else f
        if name == 'load_cml':
            want = to_obj(I, f)
        else:
            want = opaque_call(I, 'use_or_open', [fd, path], ({'mode': 'w'} if fn == 'save' else {}), record=False).term
        got = [a for a in args if getattr(a, 'oid', None) != me.oid]
        add('callee-works-on-the-handle-of-the-given-file-or-path', z3.And(z3.BoolVal(len(got) == 1), (to_obj(I, got[0]) == want) if len(got) == 1 else z3.BoolVal(False)))
        if fn == 'load':
            add('returns-what-the-reader-returns', z3.BoolVal(isinstance(r, Opaque) and r.tag == name))
        S.add_canary(I, "%s/canary#%d" % (tag, i), [h for h in p.pc if not z3.is_quantifier(h)])
    if n_ok < len(table):
        raise OutOfSubset("fewer normal paths (%d) than supported file types (%d)" % (n_ok, len(table)))
    S.add_interp_obligations(I)
