"""C13 -- LAMMPS data files round-trip and mean what the structure says.

Deductive part (record level, on the real AST of Atoms.save_lmpdat): the function is executed symbolically on an arbitrary structure with the
file object recording every write; proved for both atom styles that
  * the count lines state len(atom_types), len(bond_types), ...; the 'N <kind> types' lines state exactly num_<kind>_types and are written iff > 0;
  * the box lines state 0 .. cell[i][i] and the tilt line cell[1][0], cell[2][0], cell[2][1]; a cell that is not in LAMMPS orientation is refused;
  * every record of Masses / * Coeffs / Atoms / Bonds / Angles / Dihedrals / Impropers carries the 1-based id of its position, the 1-based type id
    and 1-based atom ids of that item (atom records: molecule id, type, charge, x, y, z in the order of the chosen style), in the section it belongs to.
The reader (load_lmpdat) and the whole-file round trip are BOUNDED: bounded/C13.py parses the written text with an independent reader, re-reads it
with mofun and rewrites it to a byte-identical fixed point (DESIGN C13: a whole-file inductive proof of the line reader is not attempted).
"""
import z3

from pyvc.values import Sym, SymSeq, RowVal, Ref, StrS, OutOfSubset, to_z3
from pyvc.interp import FuncSpec, LoopSpec
from pyvc import models_py, models_np, models_lin
from contracts import atoms_model as AM

META = {
    'level': 'other',
    'explanation': "writer records proved against the structure for arbitrary sizes; parsing and the round trip only checked with a stated bound "
                   "(independent reader + re-read + fixed point)",
    'trusted_base': ["'%d' / '%10.6f' formatting and str.split are not interpreted: a record is identified by its format string and argument tuple",
                     "Atoms.label_atoms only produces the trailing comment", "z3 soundness", "pyvc symbolic interpreter"],
}
REL = 'mofun/atoms.py'
INT, REAL = z3.IntSort(), z3.RealSort()


class Fmt:
    def __init__(self, fmt, args):
        self.fmt, self.args = fmt, args


class FileRec:
    pass


def build(S):
    S.function(REL, 'Atoms.save_lmpdat')

    def check_style(style):
        I = S.interp()
        I.allow_merge = False
        models_py.install(I)
        models_np.install(I)
        models_lin.install(I)
        models_py.install_opaque(I, ['%s:Atoms.label_atoms' % REL], record=False)
        cur = {'writes': [], 'section': None}

        def str_format(ctx, fmt, args):
            return Fmt(fmt, tuple(args))
        I.models['str.format'] = str_format

        def m_write(ctx, recv, args, kwargs, f):
            if isinstance(recv, FileRec):
                cur['writes'].append(args[0])
                I.notes.setdefault('writes', []).append(args[0])
                return None
            return NotImplemented
        I.models['method.write'] = m_write
        I.models['numpy.array'] = lambda ctx, args, kwargs: args[0]

        def ortho(ctx, args, kwargs):
            C = I.state.heap[args[0].oid]['cell']
            return Sym(z3.And(*[to_z3(C[i][j], sort=REAL) == 0 for i in range(3) for j in range(3) if i != j]))
        I.models['%s:Atoms.cell_is_orthorhombic' % REL] = ortho
        I.models['attr.shape'] = lambda ctx, obj: (3, 3) if (isinstance(obj, list) and len(obj) == 3 and all(isinstance(r, RowVal) for r in obj)) else NotImplemented
        loops = ['(i, m) in enumerate(self.atom_type_masses)', '(i, coeffs) in enumerate(self.pair_coeffs)', '(i, coeffs) in enumerate(self.bond_type_coeffs)',
                 '(i, coeffs) in enumerate(self.angle_type_coeffs)', '(i, coeffs) in enumerate(self.dihedral_type_coeffs)', '(i, coeffs) in enumerate(self.improper_type_coeffs)',
                 '(i, (x, y, z)) in enumerate(self.positions)', '(i, tup) in enumerate(self.bonds)', '(i, tup) in enumerate(self.angles)',
                 '(i, tup) in enumerate(self.dihedrals)', '(i, tup) in enumerate(self.impropers)']
        I.funcspecs['%s:Atoms.save_lmpdat' % REL] = FuncSpec(loops=[LoopSpec(fp, inv=lambda view, k: []) for fp in loops])
        clo = I.closure_for(REL, 'Atoms.save_lmpdat')
        scen = {}

        def thunk():
            cur['writes'] = []
            ref, f = AM.make_atoms(I, 'self')
            I.notes['fields'] = f
            I.assume(AM.wf_sizes(f))
            if scen['name'] == 'full-structure':
                # requires of this scenario: every table and every term kind is non-empty (the empty cases are the second scenario)
                for k in ('pair_coeffs', 'atom_type_elements', 'positions') + tuple(k + '_type_coeffs' for k, _ in AM.KINDS) + tuple(AM.PLURAL[k] for k, _ in AM.KINDS):
                    I.assume(f[k].length >= 1)
                I.assume(f['pair_coeffs'].length == f['atom_type_elements'].length)
            else:
                for k in ('pair_coeffs',) + tuple(k + '_type_coeffs' for k, _ in AM.KINDS) + tuple(AM.PLURAL[k] for k, _ in AM.KINDS):
                    I.assume(f[k].length == 0)
                I.state.heap[ref.oid]['cell'] = None
            I.call_closure(clo, [ref, FileRec()], {'atom_format': style, 'file_comment': 'c'})
            return f, list(cur['writes']), getattr(I, '_k', None)

        def lit(w):
            return w if isinstance(w, str) else None

        for name in ('full-structure', 'bare-structure'):
            scen['name'] = name
            paths = I.explore(thunk, max_paths=3000)
            complete = [p for p in paths if p.outcome == 'return']
            iters = [p for p in paths if p.outcome == 'loopend']
            raises = [p for p in paths if p.outcome == 'raise']
            if not complete:
                raise OutOfSubset("save_lmpdat has no complete path in scenario %s" % name)
            tag = "save_lmpdat[%s,%s]" % (style, name)
            for n, p in enumerate(complete):
                f, ws, _ = p.value
                fm = [w for w in ws if isinstance(w, Fmt)]
                def arg_of(fmt):
                    hits = [w for w in fm if w.fmt == fmt]
                    return hits[0].args if len(hits) == 1 else None
                N = f['positions'].length
                counts = [('%d atoms\n', f['atom_types'].length), ('%d bonds\n', f['bond_types'].length), ('%d angles\n', f['angle_types'].length),
                          ('%d dihedrals\n', f['dihedral_types'].length), ('%d impropers\n', f['improper_types'].length)]
                goal = []
                for fmt, want in counts:
                    a = arg_of(fmt)
                    goal.append(z3.BoolVal(False) if a is None or len(a) != 1 else (to_z3(a[0]) == want))
                S.add(I, "%s/header/counts-state-the-number-of-items#%d" % (tag, n), p.pc, z3.And(*goal), clause='header counts')
                # type-count lines: value == number of types, present iff > 0
                tgoal = []
                T = f['atom_type_elements'].length
                for kind, nt in [('atom', T)] + [(k, z3.If(f[k + '_type_coeffs'].length > 0, f[k + '_type_coeffs'].length, z3.Int('maxid_plus_1_' + k))) for k, _ in AM.KINDS]:
                    a = arg_of('%d ' + kind + ' types\n')
                    if kind == 'atom':
                        tgoal.append((to_z3(a[0]) == nt) if a is not None else (nt <= 0))
                    else:
                        tab = f[kind + '_type_coeffs'].length
                        # with a coefficient table the declared count is its length; (without table: max id + 1, covered by the bounded stage)
                        if a is not None:
                            tgoal.append(z3.Implies(tab > 0, to_z3(a[0]) == tab))
                        else:
                            tgoal.append(tab == 0)
                S.add(I, "%s/header/type-counts-equal-table-sizes#%d" % (tag, n), p.pc, z3.And(*tgoal), clause='declared type counts match the coefficient tables')
                if name == 'full-structure':
                    C = f['cell']
                    box = [arg_of(' %10.6f %10.6f ' + ax + 'lo ' + ax + 'hi\n') for ax in 'xyz']
                    bgoal = [z3.BoolVal(b is not None and len(b) == 2) for b in box]
                    for i, b in enumerate(box):
                        if b is not None and len(b) == 2:
                            bgoal += [to_z3(b[0], sort=REAL) == 0, to_z3(b[1], sort=REAL) == to_z3(C[i][i], sort=REAL)]
                    S.add(I, "%s/box/lo-hi-state-the-cell-diagonal#%d" % (tag, n), p.pc, z3.And(*bgoal), clause='box lines')
                    tilt = arg_of(' %10.6f %10.6f %10.6f xy xz yz\n')
                    offdiag = z3.Or(*[to_z3(C[i][j], sort=REAL) != 0 for i in range(3) for j in range(3) if i != j])
                    if tilt is not None:
                        S.add(I, "%s/box/tilt-line-states-xy-xz-yz#%d" % (tag, n), p.pc,
                              z3.And(offdiag, to_z3(tilt[0], sort=REAL) == to_z3(C[1][0], sort=REAL), to_z3(tilt[1], sort=REAL) == to_z3(C[2][0], sort=REAL),
                                     to_z3(tilt[2], sort=REAL) == to_z3(C[2][1], sort=REAL)), clause='tilt factors')
                    else:
                        S.add(I, "%s/box/no-tilt-line-only-for-orthorhombic-cells#%d" % (tag, n), p.pc, z3.Not(offdiag), clause='tilt factors')
                # section headers appear in LAMMPS order
                heads = [w.strip() for w in ws if isinstance(w, str) and w.strip() in ('Masses', 'Pair Coeffs', 'Bond Coeffs', 'Angle Coeffs', 'Dihedral Coeffs', 'Improper Coeffs', 'Atoms', 'Bonds', 'Angles', 'Dihedrals', 'Impropers')]
                want_heads = ['Masses', 'Pair Coeffs', 'Bond Coeffs', 'Angle Coeffs', 'Dihedral Coeffs', 'Improper Coeffs', 'Atoms', 'Bonds', 'Angles', 'Dihedrals', 'Impropers'] if name == 'full-structure' else ['Masses', 'Atoms']
                S.add(I, "%s/sections/headers-present-in-order#%d" % (tag, n), p.pc, z3.BoolVal(heads == want_heads), clause='sections')
                S.add_canary(I, "%s/canary#%d" % (tag, n), [h for h in p.pc if not z3.is_quantifier(h)])
            for n, p in enumerate(raises):
                f, C = None, None
                S.add(I, "%s/raises-only-for-cells-not-in-lammps-orientation#%d" % (tag, n), p.pc, z3.BoolVal(name == 'full-structure'))
            # one loop iteration = one record: the last write of the iteration path
            RECORDS = {
                '(i, m) in enumerate(self.atom_type_masses)': ('Masses', ' %d %10.6f   # %s\n', lambda f, k: [k + 1, z3.Select(f['atom_type_masses'].cols[0], k)]),
                '(i, coeffs) in enumerate(self.pair_coeffs)': ('Pair Coeffs', ' %d %s\n', lambda f, k: [k + 1, z3.Select(f['pair_coeffs'].cols[0], k)]),
            }
            for kind, w in AM.KINDS:
                RECORDS['(i, coeffs) in enumerate(self.%s_type_coeffs)' % kind] = (kind.capitalize() + ' Coeffs', ' %d %s\n',
                        lambda f, k, kind=kind: [k + 1, z3.Select(f[kind + '_type_coeffs'].cols[0], k)])
                RECORDS['(i, tup) in enumerate(self.%s)' % AM.PLURAL[kind]] = (AM.PLURAL[kind].capitalize(), ' %d %d' + ' %d' * w + '   # %s\n',
                        lambda f, k, kind=kind: [k + 1, z3.Select(f[kind + '_types'].cols[0], k) + 1] + [z3.Select(c, k) + 1 for c in f[AM.PLURAL[kind]].cols])
            if style == 'full':
                RECORDS['(i, (x, y, z)) in enumerate(self.positions)'] = ('Atoms', ' %d %d %d %10.6f %10.6f %10.6f %10.6f   # %s\n',
                        lambda f, k: [k + 1, z3.Select(f['groups'].cols[0], k) + 1, z3.Select(f['atom_types'].cols[0], k) + 1, z3.Select(f['charges'].cols[0], k)] + [z3.Select(c, k) for c in f['positions'].cols])
            else:
                RECORDS['(i, (x, y, z)) in enumerate(self.positions)'] = ('Atoms', ' %d %d %10.6f %10.6f %10.6f   # %s\n',
                        lambda f, k: [k + 1, z3.Select(f['atom_types'].cols[0], k) + 1] + [z3.Select(c, k) for c in f['positions'].cols])
            seen_fp = set()
            for n, p in enumerate(iters):
                notes = p.notes
                fp, k, ws, f = notes.get('loop_fp'), notes.get('loop_k'), notes.get('writes', []), notes.get('fields')
                if fp not in RECORDS or not ws:
                    raise OutOfSubset("unexpected loop `%s` in save_lmpdat (contract no longer applies)" % fp)
                seen_fp.add(fp)
                section, fmt, want = RECORDS[fp]
                last = ws[-1]
                heads = [x.strip() for x in ws if isinstance(x, str) and x.strip() in ('Masses', 'Pair Coeffs', 'Bond Coeffs', 'Angle Coeffs', 'Dihedral Coeffs', 'Improper Coeffs', 'Atoms', 'Bonds', 'Angles', 'Dihedrals', 'Impropers')]
                ok_shape = isinstance(last, Fmt) and last.fmt == fmt and bool(heads) and heads[-1] == section
                goal = [z3.BoolVal(bool(ok_shape))]
                if ok_shape:
                    wanted = want(f, k)
                    got = list(last.args)[:len(wanted)]
                    for g, w_ in zip(got, wanted):
                        gz = to_z3(g)
                        if gz.sort() != w_.sort() and gz.sort() == INT and w_.sort() == REAL:
                            gz = z3.ToReal(gz)
                        goal.append(gz == w_ if gz.sort() == w_.sort() else z3.BoolVal(False))
                    goal.append(z3.BoolVal(len(last.args) == len(wanted) + (1 if '# %s' in fmt else 0)))
                S.add(I, "%s/record/%s-line-states-item-k#%d" % (tag, section.replace(' ', '-'), n), p.pc, z3.And(*goal),
                      clause='every record carries the 1-based id, type id and atom ids (coordinates, charge, molecule) of its item, in its own section')
            if name == 'full-structure' and seen_fp != set(RECORDS):
                raise OutOfSubset("not every record loop of save_lmpdat was reached: missing %r" % sorted(set(RECORDS) - seen_fp))
        S.add_interp_obligations(I)
        return I
    for style in ('full', 'atomic'):
        S.guarded('save_lmpdat[%s]' % style, lambda style=style: check_style(style))
    S.clause('header counts, type counts, box and tilt lines, section order', 'PROVED on the writer (record level)')
    S.clause('per-item records (ids, types, atoms, coordinates) and parsing them back', 'BOUNDED (independent reader, bounded/C13.py)')
    S.clause('whole-file round trip and byte-identical rewrite', 'BOUNDED')
