"""C13 -- LAMMPS data files round-trip and mean what the structure says.

Deductive part (record level, on the real AST of Atoms.save_lmpdat): the function is executed symbolically on an arbitrary structure with the
file object recording every write; proved for both atom styles that
  * the count lines state len(atom_types), len(bond_types), ...; the 'N <kind> types' lines state exactly num_<kind>_types and are written iff > 0;
  * the box lines state 0 .. cell[i][i] and the tilt line cell[1][0], cell[2][0], cell[2][1]; a cell that is not in LAMMPS orientation is refused;
  * every record of Masses / * Coeffs / Atoms / Bonds / Angles / Dihedrals / Impropers carries the 1-based id of its position, the 1-based type id
    and 1-based atom ids of that item (atom records: molecule id, type, charge, x, y, z in the order of the chosen style), in the section it belongs to.
Reader side (prove_decode): the decoding statements of load_lmpdat (style switch, get_types_tups) are executed on token arrays that carry what the
writer was PROVED to put into the records (shared table `records(style)`); proved for both styles and every combination of empty / non-empty
sections: reading back gives the structure's type ids, molecule groups and charges (full style; zeros for atomic), positions, and every term with
its type and atoms -- i.e. decode(encode(item)) == item at record level, column order and 1-based / 0-based shifts included.
Line reader (prove_reader): the body of `for unprocessed_line in f:` is executed from an arbitrary reader state on an arbitrary line with the str
operations as uninterpreted functions (pyvc/models_text.py); proved: the transition relation of the section state machine -- headers open their
section and store nothing, blank lines end a section unless they follow the header, a record line adds exactly one entry computed from THAT line
(mass = token 1, label = its comment or None, coefficient = tokens 1.. + its own comment, atom / term record = its tokens) to the list(s) of the
current section and to no other list, box / tilt lines set their own cell numbers only, and nothing leaks from one line to the next.
What stays BOUNDED (bounded/C13.py: independent reader, re-read, rewrite to a fixed point): the characters themselves (how split / strip / '%'
tokenise and format), the text <-> number bridge, and the composition over a whole file in the writer's section order.
"""
import z3

from pyvc.values import Sym, SymSeq, RowVal, Ref, StrS, OutOfSubset, to_z3
from pyvc.interp import FuncSpec, LoopSpec
from pyvc import models_py, models_np, models_lin
from contracts import atoms_model as AM

META = {
    'level': 'proof',
    'explanation': "writer records proved against the structure for arbitrary sizes; the reader's decoding statements proved to invert them (record-level "
                   "round trip for atoms and all term kinds, both styles); the line loop of the reader proved as a transition relation per line (section state machine, dispatch of records to "
                   "lists, data flow from the line's own tokens and comment; str operations uninterpreted); the characters (tokenisation, number text), "
                   "whole-file composition and the byte-identical rewrite only checked with a stated bound (independent reader + re-read + fixed point)",
    'trusted_base': ["'%d' / '%10.6f' formatting and str.split are not interpreted: a record is identified by its format string and argument tuple",
                     "Atoms.label_atoms only produces the trailing comment", "z3 soundness", "pyvc symbolic interpreter"],
}
REL = 'mofun/atoms.py'
INT, REAL = z3.IntSort(), z3.RealSort()


class Fmt:
    def __init__(self, fmt, args):
        self.fmt, self.args = fmt, args


class FileRec:
    pass


def records(style):
    """What each record of a section carries, as proved of the writer: loop fingerprint -> (section, format, lambda fields, k: argument terms)."""
    RECORDS = {
        '(i, m) in enumerate(self.atom_type_masses)': ('Masses', ' %d %10.6f   # %s\n', lambda f, k: [k + 1, z3.Select(f['atom_type_masses'].cols[0], k)]),
        '(i, coeffs) in enumerate(self.pair_coeffs)': ('Pair Coeffs', ' %d %s\n', lambda f, k: [k + 1, z3.Select(f['pair_coeffs'].cols[0], k)]),
    }
    for kind, w in AM.KINDS:
        RECORDS['(i, coeffs) in enumerate(self.%s_type_coeffs)' % kind] = (kind.capitalize() + ' Coeffs', ' %d %s\n',
                lambda f, k, kind=kind: [k + 1, z3.Select(f[kind + '_type_coeffs'].cols[0], k)])
        RECORDS['(i, tup) in enumerate(self.%s)' % AM.PLURAL[kind]] = (AM.PLURAL[kind].capitalize(), ' %d %d' + ' %d' * w + '   # %s\n',
                lambda f, k, kind=kind: [k + 1, z3.Select(f[kind + '_types'].cols[0], k) + 1] + [z3.Select(c, k) + 1 for c in f[AM.PLURAL[kind]].cols])
    if style == 'full':
        RECORDS['(i, (x, y, z)) in enumerate(self.positions)'] = ('Atoms', ' %d %d %d %10.6f %10.6f %10.6f %10.6f   # %s\n',
                lambda f, k: [k + 1, z3.Select(f['groups'].cols[0], k) + 1, z3.Select(f['atom_types'].cols[0], k) + 1, z3.Select(f['charges'].cols[0], k)] + [z3.Select(c, k) for c in f['positions'].cols])
    else:
        RECORDS['(i, (x, y, z)) in enumerate(self.positions)'] = ('Atoms', ' %d %d %10.6f %10.6f %10.6f   # %s\n',
                lambda f, k: [k + 1, z3.Select(f['atom_types'].cols[0], k) + 1] + [z3.Select(c, k) for c in f['positions'].cols])
    return RECORDS


def build(S):
    from contracts import dispatch
    dispatch.prove_dispatch(S)
    S.function(REL, 'Atoms.save_lmpdat')

    def check_style(style):
        I = S.interp()
        I.allow_merge = False
        models_py.install(I)
        models_np.install(I)
        models_lin.install(I)
        models_py.install_opaque(I, ['%s:Atoms.label_atoms' % REL], record=False)
        cur = {'writes': [], 'section': None}

        def str_format(ctx, fmt, args):
            return Fmt(fmt, tuple(args))
        I.models['str.format'] = str_format

        def m_write(ctx, recv, args, kwargs, f):
            if isinstance(recv, FileRec):
                cur['writes'].append(args[0])
                I.notes.setdefault('writes', []).append(args[0])
                return None
            return NotImplemented
        I.models['method.write'] = m_write
        I.models['numpy.array'] = lambda ctx, args, kwargs: args[0]

        def ortho(ctx, args, kwargs):
            C = I.state.heap[args[0].oid]['cell']
            return Sym(z3.And(*[to_z3(C[i][j], sort=REAL) == 0 for i in range(3) for j in range(3) if i != j]))
        I.models['%s:Atoms.cell_is_orthorhombic' % REL] = ortho
        I.models['attr.shape'] = lambda ctx, obj: (3, 3) if (isinstance(obj, list) and len(obj) == 3 and all(isinstance(r, RowVal) for r in obj)) else NotImplemented
        loops = ['(i, m) in enumerate(self.atom_type_masses)', '(i, coeffs) in enumerate(self.pair_coeffs)', '(i, coeffs) in enumerate(self.bond_type_coeffs)',
                 '(i, coeffs) in enumerate(self.angle_type_coeffs)', '(i, coeffs) in enumerate(self.dihedral_type_coeffs)', '(i, coeffs) in enumerate(self.improper_type_coeffs)',
                 '(i, (x, y, z)) in enumerate(self.positions)', '(i, tup) in enumerate(self.bonds)', '(i, tup) in enumerate(self.angles)',
                 '(i, tup) in enumerate(self.dihedrals)', '(i, tup) in enumerate(self.impropers)']
        I.funcspecs['%s:Atoms.save_lmpdat' % REL] = FuncSpec(loops=[LoopSpec(fp, inv=lambda view, k: []) for fp in loops])
        clo = I.closure_for(REL, 'Atoms.save_lmpdat')
        scen = {}

        def thunk():
            cur['writes'] = []
            ref, f = AM.make_atoms(I, 'self')
            I.notes['fields'] = f
            I.assume(AM.wf_sizes(f))
            if scen['name'] == 'full-structure':
                # requires of this scenario: every table and every term kind is non-empty (the empty cases are the second scenario)
                for k in ('pair_coeffs', 'atom_type_elements', 'positions') + tuple(k + '_type_coeffs' for k, _ in AM.KINDS) + tuple(AM.PLURAL[k] for k, _ in AM.KINDS):
                    I.assume(f[k].length >= 1)
                I.assume(f['pair_coeffs'].length == f['atom_type_elements'].length)
            elif scen['name'] == 'tables-without-terms':
                # coefficient tables of kinds that currently have no terms (e.g. after every bond was deleted) are still part of the structure
                for k in ('pair_coeffs', 'atom_type_elements', 'positions') + tuple(k + '_type_coeffs' for k, _ in AM.KINDS):
                    I.assume(f[k].length >= 1)
                I.assume(f['pair_coeffs'].length == f['atom_type_elements'].length)
                for k, _ in AM.KINDS:
                    I.assume(f[AM.PLURAL[k]].length == 0)
                I.state.heap[ref.oid]['cell'] = None
            else:
                for k in ('pair_coeffs',) + tuple(k + '_type_coeffs' for k, _ in AM.KINDS) + tuple(AM.PLURAL[k] for k, _ in AM.KINDS):
                    I.assume(f[k].length == 0)
                I.state.heap[ref.oid]['cell'] = None
            I.notes['structure_fields'] = f
            I.call_closure(clo, [ref, FileRec()], {'atom_format': style, 'file_comment': 'c'})
            return f, list(cur['writes']), getattr(I, '_k', None)

        def lit(w):
            return w if isinstance(w, str) else None

        for name in ('full-structure', 'bare-structure', 'tables-without-terms'):
            scen['name'] = name
            paths = I.explore(thunk, max_paths=3000)
            complete = [p for p in paths if p.outcome == 'return']
            iters = [p for p in paths if p.outcome == 'loopend']
            raises = [p for p in paths if p.outcome == 'raise']
            if not complete:
                raise OutOfSubset("save_lmpdat has no complete path in scenario %s" % name)
            tag = "save_lmpdat[%s,%s]" % (style, name)
            for n, p in enumerate(complete):
                f, ws, _ = p.value
                fm = [w for w in ws if isinstance(w, Fmt)]
                def arg_of(fmt):
                    hits = [w for w in fm if w.fmt == fmt]
                    return hits[0].args if len(hits) == 1 else None
                N = f['positions'].length
                counts = [('%d atoms\n', f['atom_types'].length), ('%d bonds\n', f['bond_types'].length), ('%d angles\n', f['angle_types'].length),
                          ('%d dihedrals\n', f['dihedral_types'].length), ('%d impropers\n', f['improper_types'].length)]
                goal = []
                for fmt, want in counts:
                    a = arg_of(fmt)
                    goal.append(z3.BoolVal(False) if a is None or len(a) != 1 else (to_z3(a[0]) == want))
                S.add(I, "%s/header/counts-state-the-number-of-items#%d" % (tag, n), p.pc, z3.And(*goal), clause='header counts')
                # type-count lines: value == number of types, present iff > 0
                tgoal = []
                T = f['atom_type_elements'].length
                for kind, nt in [('atom', T)] + [(k, z3.If(f[k + '_type_coeffs'].length > 0, f[k + '_type_coeffs'].length, z3.Int('maxid_plus_1_' + k))) for k, _ in AM.KINDS]:
                    a = arg_of('%d ' + kind + ' types\n')
                    if kind == 'atom':
                        tgoal.append((to_z3(a[0]) == nt) if a is not None else (nt <= 0))
                    else:
                        tab = f[kind + '_type_coeffs'].length
                        # with a coefficient table the declared count is its length; (without table: max id + 1, covered by the bounded stage)
                        if a is not None:
                            tgoal.append(z3.Implies(tab > 0, to_z3(a[0]) == tab))
                        else:
                            tgoal.append(tab == 0)
                S.add(I, "%s/header/type-counts-equal-table-sizes#%d" % (tag, n), p.pc, z3.And(*tgoal), clause='declared type counts match the coefficient tables')
                if name == 'full-structure':
                    C = f['cell']
                    box = [arg_of(' %10.6f %10.6f ' + ax + 'lo ' + ax + 'hi\n') for ax in 'xyz']
                    bgoal = [z3.BoolVal(b is not None and len(b) == 2) for b in box]
                    for i, b in enumerate(box):
                        if b is not None and len(b) == 2:
                            bgoal += [to_z3(b[0], sort=REAL) == 0, to_z3(b[1], sort=REAL) == to_z3(C[i][i], sort=REAL)]
                    S.add(I, "%s/box/lo-hi-state-the-cell-diagonal#%d" % (tag, n), p.pc, z3.And(*bgoal), clause='box lines')
                    # a file is written only for a cell the box and tilt lines can describe: first vector along x, second in the xy plane
                    S.add(I, "%s/box/written-only-for-a-cell-in-lammps-orientation#%d" % (tag, n), p.pc,
                          z3.And(to_z3(C[0][1], sort=REAL) == 0, to_z3(C[0][2], sort=REAL) == 0, to_z3(C[1][2], sort=REAL) == 0), clause='box lines')
                    tilt = arg_of(' %10.6f %10.6f %10.6f xy xz yz\n')
                    offdiag = z3.Or(*[to_z3(C[i][j], sort=REAL) != 0 for i in range(3) for j in range(3) if i != j])
                    if tilt is not None:
                        S.add(I, "%s/box/tilt-line-states-xy-xz-yz#%d" % (tag, n), p.pc,
                              z3.And(offdiag, to_z3(tilt[0], sort=REAL) == to_z3(C[1][0], sort=REAL), to_z3(tilt[1], sort=REAL) == to_z3(C[2][0], sort=REAL),
                                     to_z3(tilt[2], sort=REAL) == to_z3(C[2][1], sort=REAL)), clause='tilt factors')
                    else:
                        S.add(I, "%s/box/no-tilt-line-only-for-orthorhombic-cells#%d" % (tag, n), p.pc, z3.Not(offdiag), clause='tilt factors')
                # section headers appear in LAMMPS order
                heads = [w.strip() for w in ws if isinstance(w, str) and w.strip() in ('Masses', 'Pair Coeffs', 'Bond Coeffs', 'Angle Coeffs', 'Dihedral Coeffs', 'Improper Coeffs', 'Atoms', 'Bonds', 'Angles', 'Dihedrals', 'Impropers')]
                want_heads = {'full-structure': ['Masses', 'Pair Coeffs', 'Bond Coeffs', 'Angle Coeffs', 'Dihedral Coeffs', 'Improper Coeffs', 'Atoms', 'Bonds', 'Angles', 'Dihedrals', 'Impropers'],
                              'tables-without-terms': ['Masses', 'Pair Coeffs', 'Bond Coeffs', 'Angle Coeffs', 'Dihedral Coeffs', 'Improper Coeffs', 'Atoms'],
                              'bare-structure': ['Masses', 'Atoms']}[name]
                S.add(I, "%s/sections/headers-present-in-order#%d" % (tag, n), p.pc, z3.BoolVal(heads == want_heads), clause='sections')
                S.add_canary(I, "%s/canary#%d" % (tag, n), [h for h in p.pc if not z3.is_quantifier(h)])
            for n, p in enumerate(raises):
                fr = p.notes.get('structure_fields')
                Cr = fr.get('cell') if fr else None
                if name != 'full-structure' or Cr is None:
                    S.add(I, "%s/raises-only-for-cells-not-in-lammps-orientation#%d" % (tag, n), p.pc, z3.BoolVal(False))
                else:
                    S.add(I, "%s/raises-only-for-cells-not-in-lammps-orientation#%d" % (tag, n), p.pc,
                          z3.Or(to_z3(Cr[0][1], sort=REAL) != 0, to_z3(Cr[0][2], sort=REAL) != 0, to_z3(Cr[1][2], sort=REAL) != 0))
            # one loop iteration = one record: the last write of the iteration path
            RECORDS = records(style)
            seen_fp = set()
            for n, p in enumerate(iters):
                notes = p.notes
                fp, k, ws, f = notes.get('loop_fp'), notes.get('loop_k'), notes.get('writes', []), notes.get('fields')
                if fp not in RECORDS or not ws:
                    raise OutOfSubset("unexpected loop `%s` in save_lmpdat (contract no longer applies)" % fp)
                seen_fp.add(fp)
                section, fmt, want = RECORDS[fp]
                last = ws[-1]
                heads = [x.strip() for x in ws if isinstance(x, str) and x.strip() in ('Masses', 'Pair Coeffs', 'Bond Coeffs', 'Angle Coeffs', 'Dihedral Coeffs', 'Improper Coeffs', 'Atoms', 'Bonds', 'Angles', 'Dihedrals', 'Impropers')]
                ok_shape = isinstance(last, Fmt) and last.fmt == fmt and bool(heads) and heads[-1] == section
                goal = [z3.BoolVal(bool(ok_shape))]
                if ok_shape:
                    wanted = want(f, k)
                    got = list(last.args)[:len(wanted)]
                    for g, w_ in zip(got, wanted):
                        gz = to_z3(g)
                        if gz.sort() != w_.sort() and gz.sort() == INT and w_.sort() == REAL:
                            gz = z3.ToReal(gz)
                        goal.append(gz == w_ if gz.sort() == w_.sort() else z3.BoolVal(False))
                    goal.append(z3.BoolVal(len(last.args) == len(wanted) + (1 if '# %s' in fmt else 0)))
                S.add(I, "%s/record/%s-line-states-item-k#%d" % (tag, section.replace(' ', '-'), n), p.pc, z3.And(*goal),
                      clause='every record carries the 1-based id, type id and atom ids (coordinates, charge, molecule) of its item, in its own section')
            if name == 'full-structure' and seen_fp != set(RECORDS):
                raise OutOfSubset("not every record loop of save_lmpdat was reached: missing %r" % sorted(set(RECORDS) - seen_fp))
        S.add_interp_obligations(I)
        return I
    for style in ('full', 'atomic'):
        S.guarded('save_lmpdat[%s]' % style, lambda style=style: check_style(style))
    prove_decode(S)
    prove_reader(S)
    prove_cell_is_orthorhombic(S)
    S.clause('header counts, type counts, box and tilt lines, section order', 'PROVED on the writer (record level)')
    S.clause('per-item records (ids, types, atoms, coordinates, charge, molecule) written by save_lmpdat', 'PROVED (record level)')
    S.clause('reading the records back reproduces type ids, groups, charges, positions, terms with types (decode o encode = id)', 'PROVED (decoding statements of load_lmpdat; text <-> number bridge assumed)')
    S.clause('line reader: section state machine, which list a record goes to, what it is computed from (own tokens, own comment), box / tilt lines',
             'PROVED per line for every reader state (transition relation of the loop body; str operations uninterpreted)')
    S.clause('characters of the text (tokenisation, number formatting / parsing), coefficient strings token for token over whole files, byte-identical rewrite',
             'BOUNDED (independent reader, bounded/C13.py)')


# ------------------------------------------------------------------------------------------------
# reader side: the decoding statements of load_lmpdat, and the record-level round trip  decode(encode(item)) == item
import ast
from pyvc.values import Builtin


def prove_decode(S):
    S.function(REL, 'Atoms.load_lmpdat')
    for style in ('full', 'atomic'):
        S.guarded('load_lmpdat decode[%s]' % style, lambda style=style: _decode(S, style))


def _decode(S, style):
    I = S.interp()
    I.allow_merge = False
    models_py.install(I)
    models_np.install(I)
    from pyvc import models_ext
    models_ext.install(I)
    mod = I.module(REL)
    fn = mod.find('Atoms.load_lmpdat')
    helper = [n for n in fn.body if isinstance(n, ast.FunctionDef) and n.name == 'get_types_tups']
    sel = [n for n in fn.body if isinstance(n, ast.If) and ast.unparse(n.test) == "atom_format == 'atomic'"]
    terms = [n for n in fn.body if isinstance(n, ast.Assign) and isinstance(n.value, ast.Call) and ast.unparse(n.value.func) == 'get_types_tups']
    if len(helper) != 1 or len(sel) != 1 or len(terms) != 4:
        raise OutOfSubset("decoding statements of load_lmpdat not found (contract no longer applies)")
    tag = "load_lmpdat[%s]" % style
    REC = records(style)

    def m_array(ctx, args, kwargs):
        x = args[0]
        dt = kwargs.get('dtype')
        if isinstance(x, SymSeq) and isinstance(dt, Builtin) and dt.name in ('int', 'float'):
            if dt.name == 'int' and any(c.range() == REAL for c in x.cols):
                I.reg.assumptions_used.add("numpy: np.array(x, dtype=int) truncates; exact for the integral id / type / molecule columns")
                cols = [z3.Array(I.reg.fresh('asint'), INT, INT) for _ in x.cols]
                k = z3.Int(I.reg.fresh('k'))
                for cn, co in zip(cols, x.cols):
                    I.assume(z3.ForAll([k], z3.Implies(z3.And(k >= 0, k < x.length), z3.Select(cn, k) == z3.ToInt(z3.Select(co, k))), patterns=[z3.Select(cn, k)]))
                return SymSeq(x.length, cols, x.width, 'ndarray', (x.name or 'x') + '_int')
            return x
        raise OutOfSubset("np.array(%r, dtype=%r)" % (x, dt))
    I.models['numpy.array'] = m_array

    def m_zeros(ctx, args, kwargs):
        n = to_z3(args[0])
        return SymSeq(n, [z3.K(INT, z3.RealVal(0))], None, 'ndarray', 'zeros')
    I.models['numpy.zeros'] = m_zeros

    def thunk():
        ref, f = AM.make_atoms(I, 'written')
        N = f['positions'].length
        I.assume(AM.wf_sizes(f))
        k = z3.Int('tk')
        env = {'atom_format': style}
        toks = {}

        def tokens(name, fp, width, length, sort):
            """The numeric tokens of the records of one section, as the writer produced them (bridging assumption: parsing a printed number gives
            the number back; integral columns exactly, reals to the printed precision -- A2 treats the latter as exact)."""
            want = REC[fp][2]
            cols = [z3.Array('%s_tok%d' % (name, c), INT, sort) for c in range(width)]
            vals = want(f, k)[:width]
            body = []
            for c, v in zip(cols, vals):
                vz = v if z3.is_expr(v) else z3.IntVal(v)
                if sort == REAL and vz.sort() == INT:
                    vz = z3.ToReal(vz)
                body.append(z3.Select(c, k) == vz)
            I.assume(z3.ForAll([k], z3.Implies(z3.And(k >= 0, k < length), z3.And(*body)), patterns=[z3.Select(cols[0], k)]))
            for c in cols[1:]:
                I.assume(z3.ForAll([k], z3.Implies(z3.And(k >= 0, k < length), z3.And(*body)), patterns=[z3.Select(c, k)]))
            return SymSeq(length, cols, width, 'ndarray', name)
        env['atoms'] = tokens('atoms', '(i, (x, y, z)) in enumerate(self.positions)', 7 if style == 'full' else 5, N, REAL)
        for kind, w in AM.KINDS:
            pl = AM.PLURAL[kind]
            env[pl] = tokens(pl, '(i, tup) in enumerate(self.%s)' % pl, 2 + w, f[pl].length, INT)
        I.reg.assumptions_used.add("bridge (text level, not interpreted): the numeric tokens of a record line are the numbers the writer formatted into it")
        ctx = I.block_ctx(REL, 'Atoms.load_lmpdat', env)
        ctx.exec_block(helper + sel + terms)
        out = {n: ctx.lookup(n) for n in ('atom_types', 'groups', 'charges', 'atom_tups')}
        for kind, _ in AM.KINDS:
            out[kind + '_types'] = ctx.lookup(kind + '_types')
            out[kind + '_tups'] = ctx.lookup(kind + '_tups')
        return f, out

    paths = I.explore(thunk, max_paths=64)
    nret = 0
    for pi, p in enumerate(paths):
        if p.outcome != 'return':
            raise OutOfSubset("decoding block raises %r" % (p.value,))
        nret += 1
        f, out = p.value
        N = f['positions'].length
        k = z3.Int('qk')

        def same(a, b, n):
            if not isinstance(a, SymSeq):
                return z3.BoolVal(False)
            conj = []
            for ca, cb in zip(a.cols, b.cols):
                x, y = z3.Select(ca, k), z3.Select(cb, k)
                if x.sort() != y.sort():
                    x = z3.ToReal(x) if x.sort() == INT else x
                    y = z3.ToReal(y) if y.sort() == INT else y
                conj.append(x == y)
            return z3.And(a.length == n, z3.BoolVal(len(a.cols) == len(b.cols)), z3.ForAll([k], z3.Implies(z3.And(k >= 0, k < n), z3.And(*conj))))
        S.add(I, "%s/roundtrip/atom-type-ids#%d" % (tag, pi), p.pc, same(out['atom_types'], f['atom_types'], N), clause='reading back reproduces type ids in atom order')
        S.add(I, "%s/roundtrip/positions#%d" % (tag, pi), p.pc, same(out['atom_tups'], f['positions'], N), clause='reading back reproduces positions (record level)')
        if style == 'full':
            S.add(I, "%s/roundtrip/molecule-groups#%d" % (tag, pi), p.pc, same(out['groups'], f['groups'], N), clause='reading back reproduces molecule groups (full style)')
            S.add(I, "%s/roundtrip/charges#%d" % (tag, pi), p.pc, same(out['charges'], f['charges'], N), clause='reading back reproduces charges (full style)')
        else:
            zero = lambda a: z3.And(a.length == N, z3.ForAll([k], z3.Implies(z3.And(k >= 0, k < N), z3.Select(a.cols[0], k) == 0))) if isinstance(a, SymSeq) else z3.BoolVal(False)
            S.add(I, "%s/atomic-style-has-zero-charges-and-groups#%d" % (tag, pi), p.pc, z3.And(zero(out['groups']), zero(out['charges'])))
        for kind, w in AM.KINDS:
            pl = AM.PLURAL[kind]
            n = f[pl].length
            ty, tu = out[kind + '_types'], out[kind + '_tups']
            if isinstance(ty, list) and ty == [] and isinstance(tu, list) and tu == []:
                S.add(I, "%s/roundtrip/%s-none#%d" % (tag, pl, pi), p.pc, n == 0, clause='no records of a kind: no terms')
                continue
            S.add(I, "%s/roundtrip/%s-types-and-atoms#%d" % (tag, pl, pi), p.pc, z3.And(same(ty, f[kind + '_types'], n), same(tu, f[pl], n)),
                  clause='reading back reproduces every term with its type')
        S.add_canary(I, "%s/canary#%d" % (tag, pi), [h for h in p.pc if not z3.is_quantifier(h)])
        if pi == 0:
            S.add_probe(I, "%s/probe/hypotheses-consistent#%d" % (tag, pi), p.pc)
    if nret == 0:
        raise OutOfSubset("decoding block has no normal path")
    S.add_interp_obligations(I)


# ------------------------------------------------------------------------------------------------
# reader side: the body of the line loop of load_lmpdat as a transition relation  (state, line) -> state'
SECTION_LISTS = [            # section header -> (local list, what one record line contributes)
    ('Masses', 'masses', 'token1'), ('Masses', 'atom_type_labels', 'comment'),
    ('Pair Coeffs', 'pair_coeffs', 'coeff'), ('Bond Coeffs', 'bond_coeffs', 'coeff'), ('Angle Coeffs', 'angle_coeffs', 'coeff'),
    ('Dihedral Coeffs', 'dihedral_coeffs', 'coeff'), ('Improper Coeffs', 'improper_coeffs', 'coeff'),
    ('Atoms', 'atoms', 'tokens'), ('Bonds', 'bonds', 'tokens'), ('Angles', 'angles', 'tokens'), ('Dihedrals', 'dihedrals', 'tokens'),
    ('Impropers', 'impropers', 'tokens')]
CELL_LINES = [('xlo xhi', ['cellx']), ('ylo yhi', ['celly']), ('zlo zhi', ['cellz']), ('xy xz yz', ['cellxy', 'cellxz', 'cellyz'])]


def prove_reader(S):
    S.guarded('load_lmpdat line reader', lambda: _reader(S))


def _reader(S):
    """One iteration of `for unprocessed_line in f:` from an ARBITRARY reader state (current section or none, start flag, the twelve lists of
    arbitrary length and content, the six cell numbers, arbitrary stale values in every other variable the body assigns) on an ARBITRARY line.
    Text operations are uninterpreted functions (pyvc/models_text.py).  Proved: the transition relation of the section state machine --
      header line (text before '#', stripped, is one of the 11 section names): that section becomes current, the start flag is set, nothing is stored;
      blank line: ends the section unless it directly follows the header; nothing is stored;
      record line: exactly the list(s) of the CURRENT section grow by exactly one entry computed from THIS line (mass = token 1, label = the
        comment or None, coefficient = tokens 1.. joined by blanks + blank-padded '#' + comment, or nothing when there is no comment; atom / term
        records = the tokens), every other list, the section and the flag are unchanged;
      outside a section: a line with one of the four box markers sets that cell number (those three for the tilt line) from its first tokens and
        nothing else; any other line changes nothing."""
    from pyvc import models_text as MT
    from pyvc.values import SymOpt
    from pyvc.interp import ContinueSig
    from pyvc.execctx import assigned_names
    I = S.interp()
    I.allow_merge = False
    models_py.install(I)
    MT.install(I)
    reg = I.reg
    mod = I.module(REL)
    fn = mod.find('Atoms.load_lmpdat')
    loops = [n for n in fn.body if isinstance(n, ast.For) and ast.unparse(n.iter) == 'f' and isinstance(n.target, ast.Name)]
    tables = [n for n in fn.body if isinstance(n, ast.Assign) and ast.unparse(n.targets[0]) == 'sections_handled']
    if len(loops) != 1 or len(tables) != 1 or loops[0].orelse:
        raise OutOfSubset("line loop `for ... in f` / sections_handled of load_lmpdat not found (contract no longer applies)")
    loop = loops[0]
    try:
        handled = ast.literal_eval(tables[0].value)
    except Exception:
        raise OutOfSubset("sections_handled is not a literal list")
    tag = 'load_lmpdat/line'
    lit = lambda s: reg.strlit(s)
    LISTS = list(dict.fromkeys(n for _, n, _ in SECTION_LISTS))
    CELLS = [c for _, cs in CELL_LINES for c in cs]

    def thunk():
        L = z3.Const('the_line', StrS)
        env = {loop.target.id: Sym(L), 'sections_handled': list(handled),
               'current_section': SymOpt(z3.Bool('no_section0'), Sym(z3.Const('section0', StrS))), 'start_section': Sym(z3.Bool('start0'))}
        pre = {}
        for n in LISTS:
            ln = z3.Int('len_' + n)
            I.assume(ln >= 0)
            pre[n] = env[n] = SymSeq(ln, [z3.Array('old_' + n, INT, StrS)], None, 'list', n)
        for c in CELLS:
            pre[c] = env[c] = Sym(z3.Real(c + '0'))
        names, attrs = assigned_names(loop.body)
        if attrs:
            raise OutOfSubset("the line loop assigns attributes")
        for n in sorted(names - set(env)):
            env[n] = Sym(z3.Const('stale_' + n, StrS))         # whatever an earlier iteration left there
        ctx = I.block_ctx(REL, 'Atoms.load_lmpdat', env)
        try:
            ctx.exec_block(loop.body)
        except ContinueSig:
            pass
        post = {n: ctx.lookup(n) for n in LISTS + CELLS + ['current_section', 'start_section']}
        return L, pre, env, post

    paths = I.explore(thunk, max_paths=400)
    strip = lambda t: I.lib._strfun('str.strip()', lambda s: s.strip(), Sym(t)).e
    num = lambda t: reg.ufunc('float_of_str', StrS, REAL)(t)
    fmt2 = reg.ufunc('fmt[%s%s]', StrS, StrS, StrS)
    nret = 0
    for pi, p in enumerate(paths):
        if p.outcome != 'return':
            raise OutOfSubset("the body of the line loop raises %r on some line" % (p.value,))
        nret += 1
        L, pre, env, post = p.value
        body = strip(MT.before(reg, '#', L))
        H = MT.has_sub(reg, '#', L)
        cmt = strip(MT.after(reg, '#', L))
        # literals of the program that qualify as "blank-padded '#'" / "blanks": the spec does not fix the amount of padding
        hashes = [c for s_, c in reg.strlits.items() if s_.strip() == '#'] or [lit('   # ')]
        blanks = [c for s_, c in reg.strlits.items() if s_ != '' and s_.strip() == ''] or [lit(' ')]
        none0, sec0, start0 = z3.Bool('no_section0'), z3.Const('section0', StrS), z3.Bool('start0')
        in_sec = lambda name: z3.And(z3.Not(none0), sec0 == lit(name))
        is_sec = z3.Or(*[body == lit(s_) for s_ in dict.fromkeys(s for s, _, _ in SECTION_LISTS)])
        is_blank = body == lit('')
        rec = z3.And(z3.Not(is_sec), z3.Not(is_blank))

        def opt(v):
            if v is None:
                return z3.BoolVal(True), sec0
            if isinstance(v, SymOpt):
                return v.is_none, to_z3(v.val, sort=StrS)
            return z3.BoolVal(False), to_z3(v, sort=StrS)

        def same(n):
            a, b = post[n], pre[n]
            if a is b:
                return z3.BoolVal(True)
            if isinstance(b, SymSeq):
                return z3.And(a.length == b.length, a.cols[0] == b.cols[0]) if isinstance(a, SymSeq) else z3.BoolVal(False)
            return to_z3(a, sort=REAL) == to_z3(b, sort=REAL)

        def grown(n, elems):
            a, b = post[n], pre[n]
            if not isinstance(a, SymSeq):
                return z3.BoolVal(False)
            return z3.And(a.length == b.length + 1, z3.Or(*[a.cols[0] == z3.Store(b.cols[0], b.length, e) for e in elems]))
        n1, s1 = opt(post['current_section'])
        st1 = to_z3(post['start_section']) if not isinstance(post['start_section'], bool) else z3.BoolVal(post['start_section'])
        untouched = z3.And(*[same(n) for n in LISTS + CELLS])
        add = lambda name, goal, clause: S.add(I, "%s/%s#%d" % (tag, name, pi), p.pc, goal, clause=clause)
        add('header-line-opens-its-section-and-stores-nothing', z3.Implies(is_sec, z3.And(z3.Not(n1), s1 == body, st1, untouched)),
            'line reader: a section header makes that section current')
        add('blank-line-ends-the-section-unless-it-follows-the-header', z3.Implies(z3.And(z3.Not(is_sec), is_blank), z3.And(
            z3.If(start0, z3.And(n1 == none0, z3.Or(n1, s1 == sec0)), n1), z3.Not(st1), untouched)),
            'line reader: blank lines delimit sections')
        add('record-line-keeps-section-and-flag', z3.Implies(rec, z3.And(n1 == none0, z3.Or(n1, s1 == sec0), st1 == start0)),
            'line reader: records do not change the section')
        for name in LISTS:
            mine = [(sec, what) for sec, n, what in SECTION_LISTS if n == name]
            sec, what = mine[0]
            if what == 'token1':
                elems = [MT.tok(reg, body, 1)]
            elif what == 'comment':
                elems = [z3.If(H, cmt, MT.none_text(reg))]
            elif what == 'tokens':
                elems = [body]          # the token list of this line (lists of token lists are represented by the lines, see models_text)
            else:
                elems = [fmt2(MT.joined(reg, b, body, 1), z3.If(H, MT.concat(reg, h, cmt), lit(''))) for b in blanks for h in hashes]
            add('record-goes-to-the-list-of-its-section-only/%s' % name,
                z3.Implies(rec, z3.If(in_sec(sec), grown(name, elems), same(name))),
                'line reader: a record line adds exactly one entry, computed from this line, to the list(s) of the current section and to no other')
        marks = [MT.has_sub(reg, m, body) for m, _ in CELL_LINES]
        for mi, (m, cs) in enumerate(CELL_LINES):
            only = z3.And(rec, none0, marks[mi], *[z3.Not(x) for j, x in enumerate(marks) if j != mi])
            if len(cs) == 1:
                val = [to_z3(post[cs[0]], sort=REAL) == num(MT.tok(reg, body, 1)) - num(MT.tok(reg, body, 0))]
            else:
                val = [to_z3(post[c], sort=REAL) == num(MT.tok(reg, body, i)) for i, c in enumerate(cs)]
            add('box-line-sets-its-cell-numbers-only/%s' % m.replace(' ', '-'),
                z3.Implies(only, z3.And(*(val + [same(c) for c in CELLS if c not in cs]))), 'line reader: box and tilt lines')
        add('other-lines-change-no-cell-number', z3.Implies(z3.Or(z3.Not(rec), z3.Not(none0), z3.Not(z3.Or(*marks))), z3.And(*[same(c) for c in CELLS])),
            'line reader: box and tilt lines')
        S.add_canary(I, "%s/canary#%d" % (tag, pi), [h for h in p.pc if not z3.is_quantifier(h)])
    if nret == 0:
        raise OutOfSubset("the body of the line loop has no normal path")
    S.add_interp_obligations(I)


# ------------------------------------------------------------------------------------------------
# Atoms.cell_is_orthorhombic: decides whether the tilt line is written (C13) and whether --mic replicates (C20)
def prove_cell_is_orthorhombic(S):
    S.function(REL, 'Atoms.cell_is_orthorhombic')
    S.guarded('cell_is_orthorhombic', lambda: _cell_is_orthorhombic(S))


def _cell_is_orthorhombic(S):
    from pyvc.models_lin import sym_mat3
    I = S.interp()
    models_py.install(I)
    models_np.install(I)
    models_lin.install(I)
    mod = I.module(REL)
    clo = I.closure_for(REL, 'Atoms.cell_is_orthorhombic')
    from pyvc.models_lin import MatVal
    # numpy on 3x3 values, as far as this one-liner needs it: identity, row-vector * matrix (broadcast over rows), element-wise ==, .all()
    I.models['numpy.identity'] = lambda ctx, args, kwargs: MatVal([RowVal([1 if i == j else 0 for j in range(args[0])]) for i in range(args[0])]) if args == [3] or tuple(args) == (3,) else (_ for _ in ()).throw(OutOfSubset("np.identity(%r)" % (args,)))
    is_m = lambda v: isinstance(v, list) and len(v) == 3 and all(isinstance(r, (RowVal, list, tuple)) and len(r) == 3 for r in v)
    is_v = lambda v: isinstance(v, (RowVal, list, tuple)) and len(v) == 3 and not is_m(v)

    def mat_binop(ctx, op, a, b):
        if is_v(a) and is_m(b):
            a = [a, a, a]
        elif is_m(a) and is_v(b):
            b = [b, b, b]
        if not (is_m(a) and is_m(b)):
            raise OutOfSubset("matrix arithmetic on %r and %r" % (type(a).__name__, type(b).__name__))
        return MatVal([RowVal([I.lib.binop(ctx, op, a[i][j], b[i][j]) for j in range(3)]) for i in range(3)])
    I.models['matval.binop'] = mat_binop
    orig_compare = I.lib.compare

    class BoolMat(list):
        pass

    def compare(ctx, op, x, y):
        if is_m(x) and is_m(y) and op in ('Eq', 'NotEq'):
            return BoolMat([[orig_compare(ctx, op, x[i][j], y[i][j]) for j in range(3)] for i in range(3)])
        return orig_compare(ctx, op, x, y)
    I.lib.compare = compare

    def m_all(ctx, recv, args, kwargs, f):
        if isinstance(recv, BoolMat):
            from pyvc.values import truthy, zbool
            return Sym(z3.And(*[zbool(truthy(v)) for r in recv for v in r]))
        return NotImplemented
    I.models['method.all'] = m_all

    def m_any(ctx, recv, args, kwargs, f):
        if isinstance(recv, BoolMat):
            from pyvc.values import truthy, zbool
            return Sym(z3.Or(*[zbool(truthy(v)) for r in recv for v in r]))
        return NotImplemented
    I.models['method.any'] = m_any

    def thunk():
        C = sym_mat3('cell')
        me = I.state.alloc('Atoms', {'__class__': 'Atoms', '__module__': mod, 'cell': C})
        return I.call_closure(clo, [me], {}), C
    paths = I.explore(thunk)
    for i, p in enumerate(paths):
        if p.outcome != 'return':
            raise OutOfSubset("cell_is_orthorhombic raises")
        r, C = p.value
        off = z3.And(*[to_z3(C[a][b], sort=REAL) == 0 for a in range(3) for b in range(3) if a != b])
        rz = r if isinstance(r, bool) else to_z3(r)
        S.add(I, "cell_is_orthorhombic/true-exactly-when-every-off-diagonal-entry-is-zero#%d" % i, p.pc, (z3.BoolVal(rz) if isinstance(rz, bool) else rz) == off,
              clause='tilt line exactly for non-orthorhombic cells')
    S.add_interp_obligations(I)
