"""C04 -- replacement changes exactly the matched atoms and nothing else.

Deductive part:
  * match selection: with a replacement fraction f the replaced matches are round(f*M) distinct members of the found list (all M when
    f >= 1), and the reported count is their number -- block contract on the `if replace_fraction < 1.0` statement and the return;
  * frame of the whole replacement (prove_frame): the statements from `new_structure = structure.copy()` to the bulk delete are executed
    for ANY number of matches (match loop cut at an invariant) against the CONTRACTS of Atoms.extend_types / extend / __delitem__ proved in
    C11 / C10 (modular: callee preconditions are obligations here, callee effects are their proved postconditions):
      - the removed atoms are exactly the atoms of the replaced matches at search positions not common to both patterns (all matched atoms
        with replace_all), only atoms of matches are removed;
      - every atom that is not removed -- bystanders and atoms common to both patterns -- keeps position, charge and group and its order;
        atoms outside all matches also keep their type id, and old type ids keep their table entries (tables = old ++ pattern's);
      - the input structure and the replacement pattern objects are not modified; the loop does not touch tables or cell (identity frame);
    requires: non-empty replacement pattern, matches list distinct existing atoms (C01), find_unchanged_atom_pairs is a partial injection;
  * overlap handling: C07's block contract and lemma (same statements).
The inserted atoms (which, where: C05 / C11) and the resulting atom / per-element COUNTS, and the empty-replacement branch, are BOUNDED on the
real code (bounded/C04.py).
"""
import ast
import z3

from pyvc.values import Sym, SymSeq, Opaque, OutOfSubset, to_z3
from pyvc import models_py
from pyvc.models_py import ObjS, to_obj

META = {
    'level': 'proof',
    'explanation': "selection arithmetic proved as a block contract; the frame of the replacement (exact deletion set, bystanders and retained atoms "
                   "unchanged, inputs unmodified) proved for any number of matches against the contracts of extend / __delitem__ (C11 / C10); the "
                   "count of inserted atoms and the empty-replacement branch are bounded",
    'trusted_base': ["python: random.sample(pop, k) returns k distinct members of pop (ValueError if k > len)", "round(): nearest, ties to even",
                     "z3 soundness", "pyvc symbolic interpreter"],
}
REL = 'mofun/mofun.py'
FN = 'replace_pattern_in_structure'
INT = z3.IntSort()


def build(S):
    S.function(REL, FN)

    def run():
        I = S.interp()
        models_py.install(I)
        models_py.install_opaque_algebra(I)
        st = {}

        def rnd_sample(ctx, args, kwargs):
            pop = args[0]
            k = kwargs.get('k', args[1] if len(args) > 1 else None)
            if type(pop).__name__ == 'LazyIter':
                pop = models_py.list_of_lazy(ctx, pop)
            if not isinstance(pop, SymSeq) or k is None:
                raise OutOfSubset("random.sample in an unmodelled form")
            kz = to_z3(k)
            I.oblige("%s/pre/sample-size-within-population" % ctx.speckey, z3.And(kz >= 0, kz <= pop.length), 'pre')
            out = I.fresh_seq('sample', 'int')
            I.assume(out.length == kz)
            j, j2 = z3.Int(I.reg.fresh('j')), z3.Int(I.reg.fresh('j'))
            src = z3.Function(I.reg.fresh('sample_src'), INT, INT)
            a = out.cols[0]
            I.assume(z3.ForAll([j], z3.Implies(z3.And(j >= 0, j < kz), z3.And(src(j) >= 0, src(j) < pop.length,
                                                                               z3.Select(a, j) == z3.Select(pop.cols[0], src(j)))), patterns=[z3.Select(a, j)]))
            I.assume(z3.ForAll([j, j2], z3.Implies(z3.And(j >= 0, j < j2, j2 < kz), src(j) != src(j2)), patterns=[z3.MultiPattern(src(j), src(j2))]))
            st['sample'] = (out, src, pop)
            return out
        I.models['random.sample'] = rnd_sample
        mod = I.module(REL)
        fn = mod.find(FN)
        sel = [n for n in fn.body if isinstance(n, ast.If) and ast.unparse(n.test) == 'replace_fraction < 1.0']
        if len(sel) != 1:
            raise OutOfSubset("selection statement `if replace_fraction < 1.0` not found (contract no longer applies)")
        rets = [n for n in ast.walk(fn) if isinstance(n, ast.Return) and isinstance(n.value, ast.Tuple)]
        if len(rets) != 1 or ast.unparse(rets[0].value.elts[1]) != 'len(match_indices)':
            raise OutOfSubset("`return new_structure, len(match_indices)` not found (contract no longer applies)")
        M = z3.Int('M')
        f = z3.Real('f')

        def thunk():
            st.clear()
            I.assume(M >= 0)
            I.assume(z3.And(f >= 0, f <= 1))
            found = SymSeq(M, [z3.Array('found', INT, ObjS)], None, 'list', 'match_indices')
            mp = Opaque(z3.Const('match_positions', ObjS), 'match_positions')
            env = {'match_indices': found, 'match_positions': mp, 'quats': Opaque(z3.Const('quats', ObjS), 'quats'), 'replace_fraction': Sym(f)}
            # len(match_positions) is the number of found matches
            lenf = I.reg.ufunc('len_obj', ObjS, INT)
            I.assume(lenf(mp.term) == M)
            ctx = I.block_ctx(REL, FN, env)
            ctx.exec_stmt(sel[0])
            return found, ctx.lookup('match_indices'), ctx.lookup('match_positions'), ctx.lookup('quats')

        paths = I.explore(thunk)
        for i, p in enumerate(paths):
            if p.outcome != 'return':
                raise OutOfSubset("selection block raises")
            found, chosen, mp2, q2 = p.value
            if not isinstance(chosen, SymSeq):
                raise OutOfSubset("match_indices is no longer a list")
            # round half to even of f*M
            x = f * z3.ToReal(M)
            fl = z3.ToInt(x)
            fr = x - z3.ToReal(fl)
            rnd = z3.If(fr < z3.RealVal('1/2'), fl, z3.If(fr > z3.RealVal('1/2'), fl + 1, z3.If(fl % 2 == 0, fl, fl + 1)))
            m = z3.If(f >= 1, M, rnd)
            S.add(I, "replace/selection/count-is-round-f-times-M#%d" % i, p.pc, chosen.length == m, clause='number of replaced matches')
            k, g = z3.Int('sk'), z3.Int('sg')
            member = z3.ForAll([k], z3.Implies(z3.And(k >= 0, k < chosen.length),
                                               z3.Exists([g], z3.And(g >= 0, g < M, z3.Select(chosen.cols[0], k) == z3.Select(found.cols[0], g)))))
            S.add(I, "replace/selection/only-found-matches-are-replaced#%d" % i, p.pc, member, clause='only found matches are replaced')
            if 'sample' in st and chosen is not found:
                out, src, pop = st['sample']
                k2 = z3.Int('sk2')
                S.add(I, "replace/selection/selected-matches-are-distinct-found-matches#%d" % i, p.pc,
                      z3.Implies(f < 1, z3.ForAll([k, k2], z3.Implies(z3.And(k >= 0, k < k2, k2 < chosen.length), z3.Select(out.cols[0], k) != z3.Select(out.cols[0], k2)))),
                      clause='no match is replaced twice')
                # positions and rotations are selected with the same index list
                fancy = lambda base: I.reg.ufunc('getitem', ObjS, ObjS, ObjS)(z3.Const(base, ObjS), to_obj(I, out))
                S.add(I, "replace/selection/positions-and-rotations-follow-the-same-selection#%d" % i, p.pc,
                      z3.Implies(f < 1, z3.And(to_obj(I, mp2) == fancy('match_positions'), to_obj(I, q2) == fancy('quats'))))
            S.add_canary(I, "replace/selection/canary#%d" % i, [h for h in p.pc if not z3.is_quantifier(h)])
        S.add_interp_obligations(I)
    S.guarded('selection block', run)

    def options():
        # the occurrences that are replaced are the ones a search with the caller's options finds: the single call of find_pattern_in_structure
        # receives atol and the three hint indices of the caller, and none of these parameters (nor the fraction / replace_all switches the
        # block contracts read) is rebound anywhere in the function
        I = S.interp()
        fn = I.module(REL).find(FN)
        params = [a.arg for a in fn.args.args + fn.args.kwonlyargs]
        calls = [n for n in ast.walk(fn) if isinstance(n, ast.Call) and ast.unparse(n.func).split('.')[-1] == 'find_pattern_in_structure']
        if len(calls) != 1:
            raise OutOfSubset("expected exactly one call of find_pattern_in_structure in %s (contract no longer applies)" % FN)
        from contracts import frames
        kws = {k.arg: k.value for k in calls[0].keywords if k.arg}
        if any(o not in kws for o in ('atol', 'axisp1_idx', 'axisp2_idx', 'opoint_idx')):
            raise OutOfSubset("the options are not passed to find_pattern_in_structure by keyword (contract no longer applies)")
        def resolve(node, o):
            # a local name that is assigned exactly once in the function stands for the expression it was assigned
            k = frames.classify(node, o)
            if k == 'unknown' and isinstance(node, ast.Name):
                defs = [a for a in ast.walk(fn) if isinstance(a, ast.Assign) and len(a.targets) == 1 and isinstance(a.targets[0], ast.Name) and a.targets[0].id == node.id]
                if len(defs) == 1:
                    return frames.classify(defs[0].value, o)
            return k
        kinds = [resolve(kws[o], o) for o in ('atol', 'axisp1_idx', 'axisp2_idx', 'opoint_idx')]
        if 'changed' not in kinds and 'unknown' in kinds:
            raise OutOfSubset("an option is passed to the search through an expression the contract cannot read")
        passed = 'changed' not in kinds
        S.add(I, "replace/options/search-uses-the-callers-tolerance-and-hints", [], z3.BoolVal(passed and all(o in params for o in ('atol', 'axisp1_idx', 'axisp2_idx', 'opoint_idx'))),
              clause='replaced occurrences are those found with the same options')
        watched = ('atol', 'axisp1_idx', 'axisp2_idx', 'opoint_idx', 'replace_fraction', 'replace_all')
        vs = [frames.verdict(frames.rebindings(fn, w)) for w in watched]
        if 'changed' not in vs and 'unknown' in vs:
            raise OutOfSubset("an option parameter is rebound to something the contract cannot read")
        S.add(I, "replace/options/option-parameters-are-never-rebound", [], z3.BoolVal('changed' not in vs), clause='replaced occurrences are those found with the same options')
    S.guarded('options of the search', options)
    prove_frame(S)
    S.clause('number of replaced matches = round(f*M), reported count equals it, only found matches, none twice', 'PROVED (block contract)')
    S.clause('deletion set / overlap', 'PROVED in C07 (same statements)')
    S.clause('removed atoms = search-only atoms of the replaced matches; bystanders and retained atoms keep position, charge, group (bystanders also type); inputs unmodified', 'PROVED (match loop under invariant, modular over the contracts of extend / __delitem__)')
    S.clause('atom count and per-element counts (inserted atoms), empty replacement', 'BOUNDED (bounded/C04.py)')


# ------------------------------------------------------------------------------------------------
# frame of the whole replacement (non-empty replacement pattern): statements from `new_structure = structure.copy()` to the bulk delete,
# for any number of matches, checked against the CONTRACTS of extend_types / extend / __delitem__ (modular)
from pyvc.values import NestedSeq, SymSet, Ref, RowVal
from pyvc.interp import FuncSpec, LoopSpec
from pyvc import models_np, models_ext, models_lin
from pyvc.models_np import mem_of
from contracts import atoms_model as AM
from contracts import atoms_contracts as AC
REAL = z3.RealSort()


def prove_frame(S):
    S.guarded('frame of the replacement', lambda: _frame(S))


def prove_atoms_of_the_pattern(S):
    """C06 (atom clause): inserted atoms carry the pattern's charge, group and type, atoms taken over carry the pattern's type; type ids
    resolve to the pattern's label / element / mass.  Same block, non-overlapping matches, shared atoms retained (replace_all off)."""
    S.guarded('atoms taken over / inserted', lambda: _frame(S, mode='atoms'))


def prove_self_replacement(S):
    """C08: the same block with the replacement pattern identical to the search pattern (and carrying no terms of its own)."""
    S.guarded('self-replacement', lambda: _frame(S, mode='self'))


def _frame(S, mode='frame'):
    I = S.interp()
    I.allow_merge = False
    models_py.install(I)
    models_np.install(I)
    models_ext.install(I)
    st = {}
    mod = I.module(REL)
    fn = mod.find(FN)
    # ---- the block: from `new_structure = structure.copy()` up to and including `del(new_structure[list(to_delete)])`
    body = fn.body
    i0 = [i for i, s in enumerate(body) if isinstance(s, ast.Assign) and ast.unparse(s) == 'new_structure = structure.copy()']
    i1 = [i for i, s in enumerate(body) if isinstance(s, ast.Delete)]
    if len(i0) != 1 or len(i1) != 1 or i1[0] <= i0[0]:
        raise OutOfSubset("`new_structure = structure.copy()` ... `del(new_structure[list(to_delete)])` not found (contract no longer applies)")
    block = body[i0[0]:i1[0] + 1]
    A = 'mofun/atoms.py'
    I.models['%s:Atoms.extend_types' % A] = AC.extend_types_contract(I, st)
    I.models['%s:Atoms.extend' % A] = AC.extend_contract(I, st)
    I.models['%s:Atoms.__delitem__' % A] = AC.delitem_contract(I, st)

    def m_copy(ctx, args, kwargs):
        (ref,) = args
        I.reg.assumptions_used.add("A4: copy.deepcopy returns a structurally equal object sharing nothing mutable with its source")
        return I.state.alloc(ref.cls, dict(I.state.heap[ref.oid]))
    I.models['%s:Atoms.copy' % A] = m_copy

    def same_rows(x, base):
        if not isinstance(x, SymSeq):
            raise OutOfSubset("row-wise numpy operation on %r" % (x,))
        I.reg.assumptions_used.add("row-wise numpy / scipy operations (Rotation.apply, +, matmul with a 3x3 matrix, % 1.0) keep the number of rows")
        return AC.fresh_like_seq(I, x, base, x.length)

    def m_apply(ctx, recv, args, kwargs, f):
        if isinstance(recv, Opaque) and len(args) == 1:
            return same_rows(args[0], 'rotated')
        return NotImplemented
    I.models['method.apply'] = m_apply

    def m_translate(ctx, args, kwargs):
        me, delta = args
        hs = I.state.heap[me.oid]
        hs['positions'] = same_rows(hs['positions'], 'translated')
        return None
    I.models['%s:Atoms.translate' % A] = m_translate
    I.models['numpy.linalg.inv'] = lambda ctx, args, kwargs: Opaque(z3.Const(I.reg.fresh('cell_inv'), ObjS), 'inv')

    def m_matmul(ctx, args, kwargs):
        return same_rows(args[0], 'matmul')
    I.models['numpy.matmul'] = m_matmul
    prev_binop = I.models.get('seq.binop')

    def m_seq_binop(ctx, op, a, b):
        if op == 'Mod' and isinstance(a, SymSeq) and a.width == 3:
            return same_rows(a, 'mod1')
        if prev_binop:
            return prev_binop(ctx, op, a, b)
        raise OutOfSubset("binary %s on arrays" % op)
    I.models['seq.binop'] = m_seq_binop

    def m_set(ctx, args, kwargs):
        if args and isinstance(args[0], SymSeq) and args[0].width is None:
            return SymSet(mem_of(I, args[0]), INT, 'set(%s)' % args[0].name)
        return I.lib.bi_set(ctx, args, kwargs)
    I.models['set'] = m_set

    def m_isdisjoint(ctx, a, b):
        pa, pb = I.lib.set_pred(a), I.lib.set_pred(b)
        x = z3.Int(I.reg.fresh('x'))
        return Sym(z3.ForAll([x], z3.Not(z3.And(pa(x), pb(x)))))
    I.models['set.isdisjoint'] = m_isdisjoint

    def m_difference(ctx, recv, args, kwargs, f):
        if isinstance(recv, SymSet) and len(args) == 1:
            return I.lib.set_op('Sub', recv, m_set(ctx, [args[0]], {}))
        return NotImplemented
    I.models['method.difference'] = m_difference
    prev_list = I.models.get('list.fallback')

    def m_list(ctx, v):
        if isinstance(v, SymSet):
            dl = I.fresh_seq('items_of_set', 'int')
            mem = mem_of(I, dl)
            x = z3.Int(I.reg.fresh('x'))
            I.assume(z3.ForAll([x], mem(x) == v.pred(x), patterns=[mem(x)]))
            I.assume(AM.pairwise_distinct(dl, I.reg.fresh('ld')))
            I.reg.assumptions_used.add("list(s) of a set: every member exactly once, nothing else")
            I.assume(z3.Implies(dl.length > 0, v.pred(z3.Select(dl.cols[0], 0))))       # ground instance of `every listed item is a member`
            st['deleted_list'] = dl
            return dl
        return prev_list(ctx, v) if prev_list else None
    I.models['list.fallback'] = m_list

    # ---- ghost: atoms that belong to some selected match
    inM = z3.Function('in_some_match', INT, z3.BoolSort())

    def inv(view, k):
        ns = view['new_structure']
        hs = I.state.heap[ns.oid]
        D = view['to_delete']
        old = st['old']
        N = old['positions'].length
        s = z3.Int('fs')
        x = z3.Int('fx')
        keep = []
        for fld in ('positions', 'charges', 'groups'):
            keep += [z3.Select(cn, s) == z3.Select(co, s) for cn, co in zip(hs[fld].cols, old[fld].cols)]
        out = [('sizes-consistent', AM.wf_sizes(hs)),
               ('no-atom-lost-so-far', hs['positions'].length >= N),
               ('original-atoms-keep-position-charge-group', z3.ForAll([s], z3.Implies(z3.And(s >= 0, s < N), z3.And(*keep)),
                                                                          patterns=[z3.Select(hs['positions'].cols[0], s)])),
               ('atoms-outside-all-matches-keep-their-type', z3.ForAll([s], z3.Implies(z3.And(s >= 0, s < N, z3.Not(inM(s))),
                    z3.Select(hs['atom_types'].cols[0], s) == z3.Select(old['atom_types'].cols[0], s)), patterns=[z3.Select(hs['atom_types'].cols[0], s)])),
               ('only-atoms-of-matches-are-marked-for-deletion', z3.ForAll([x], z3.Implies(D.pred(x), z3.And(inM(x), x >= 0, x < N)), patterns=[D.pred(x)]) if _is_app(D, x) else
                    z3.ForAll([x], z3.Implies(D.pred(x), z3.And(inM(x), x >= 0, x < N))))]
        for kk, _ in AM.KINDS:
            out.append(('%s-refer-to-existing-atoms' % AM.PLURAL[kk], AM.all_in_range(hs[AM.PLURAL[kk]], 0, hs['positions'].length, 'fr_' + kk)))
        if mode != 'self':
            out += deletion_set_is_exact(D, k if z3.is_expr(k) else z3.IntVal(k))
        if mode == 'atoms':
            G = view['ghost_inserted']
            pat, ck_, cv_, off0 = st['pat'], st['ck'], st['cv'], to_z3(st['offsets'][0])
            mem_ck_ = mem_of(I, ck_)
            r, j2, t2 = z3.Int('ar'), z3.Int('aj'), z3.Int('at')
            g = z3.Select(G.cols[0], r)
            kk_ = k if z3.is_expr(k) else z3.IntVal(k)
            from_pattern = z3.And(g >= 0, g < pat['positions'].length, z3.Not(mem_ck_(g)),
                                  z3.Select(hs['charges'].cols[0], r) == z3.Select(pat['charges'].cols[0], g),
                                  z3.Select(hs['groups'].cols[0], r) == z3.Select(pat['groups'].cols[0], g),
                                  z3.Select(hs['atom_types'].cols[0], r) == z3.Select(pat['atom_types'].cols[0], g) + off0)
            ret = z3.Select(z3.Select(st['MI'], j2), z3.Select(cv_.cols[0], t2))
            out += [('ghost/one-origin-per-atom', G.length == hs['positions'].length),
                    ('inserted-atoms-carry-charge-group-type-of-a-replacement-only-pattern-atom',
                     z3.ForAll([r], z3.Implies(z3.And(r >= 0, r < hs['positions'].length), z3.If(r < N, g == -1, from_pattern)), patterns=[z3.Select(G.cols[0], r)])),
                    ('atoms-taken-over-carry-the-type-of-their-pattern-atom',
                     z3.ForAll([j2, t2], z3.Implies(z3.And(j2 >= 0, j2 < kk_, t2 >= 0, t2 < ck_.length),
                               z3.Select(hs['atom_types'].cols[0], ret) == z3.Select(pat['atom_types'].cols[0], z3.Select(ck_.cols[0], t2)) + off0), patterns=[ret]))]
        if mode == 'self':
            E1, E0 = hs['atom_type_elements'], old['atom_type_elements']
            out += [('no-atom-is-added', hs['positions'].length == N),
                    ('nothing-is-marked-for-deletion', z3.ForAll([x], z3.Not(D.pred(x)), patterns=[D.pred(x)]) if _is_app(D, x) else z3.ForAll([x], z3.Not(D.pred(x)))),
                    ('every-atom-keeps-its-element', z3.ForAll([s], z3.Implies(z3.And(s >= 0, s < N), z3.And(
                        z3.Select(hs['atom_types'].cols[0], s) >= 0, z3.Select(hs['atom_types'].cols[0], s) < E1.length,
                        z3.Select(E1.cols[0], z3.Select(hs['atom_types'].cols[0], s)) == z3.Select(E0.cols[0], z3.Select(old['atom_types'].cols[0], s)))),
                        patterns=[z3.Select(hs['atom_types'].cols[0], s)]))]
            for kk, _ in AM.KINDS:
                for fld in (AM.PLURAL[kk], kk + '_types', 'extra_%s_fields' % kk):
                    nf, of = hs[fld], old[fld]
                    out.append(('%s-unchanged' % fld, z3.And(nf.length == of.length, z3.ForAll([s], z3.Implies(z3.And(s >= 0, s < of.length),
                                z3.And(*[z3.Select(cn, s) == z3.Select(co, s) for cn, co in zip(nf.cols, of.cols)])), patterns=[z3.Select(nf.cols[0], s)]))))
        return out

    def deletion_set_is_exact(D, k):
        """to_delete after k matches = the atoms of those matches at search positions that are not common to both patterns (all positions
        with replace_all).  Quantifier-alternation free: Rm(j, x) = `x is a removable atom of match j` (with its position pos(j, x) as witness),
        fm(x) = the first match in which x is removable (ghost definitions, see thunk); then  D_k = {x : 0 <= fm(x) < k}."""
        MI, NS, removable, Rm, fm = st['MI'], st['NS'], st['removable'], st['Rm'], st['fm']
        x, j, a = z3.Int('dx'), z3.Int('dj'), z3.Int('da')
        ent = z3.Select(z3.Select(MI, j), a)
        out = [('marked-atoms-are-exactly-the-removable-atoms-of-earlier-matches',
                z3.ForAll([x], D.pred(x) == z3.And(fm(x) >= 0, fm(x) < k, Rm(fm(x), x)), patterns=[fm(x)] + ([D.pred(x)] if _is_app(D, x) else [])))]
        return out

    def removed_atoms_characterised(D, M_):
        MI, NS, removable, Rm, fm, pos = st['MI'], st['NS'], st['removable'], st['Rm'], st['fm'], st['pos']
        x, j, a = z3.Int('dx'), z3.Int('dj'), z3.Int('da')
        ent = z3.Select(z3.Select(MI, j), a)
        return [('every-removed-atom-is-a-removable-atom-of-a-replaced-match',
                 z3.ForAll([x], z3.Implies(D.pred(x), z3.And(fm(x) >= 0, fm(x) < M_, pos(fm(x), x) >= 0, pos(fm(x), x) < NS,
                                                              z3.Select(z3.Select(MI, fm(x)), pos(fm(x), x)) == x, removable(pos(fm(x), x)))))),
                ('every-removable-atom-of-a-replaced-match-is-removed',
                 z3.ForAll([j, a], z3.Implies(z3.And(j >= 0, j < M_, a >= 0, a < NS, removable(a)), D.pred(ent))))]

    def _is_app(D, x):
        try:
            e = D.pred(x)
            return z3.is_app(e) and e.decl().kind() == z3.Z3_OP_UNINTERPRETED
        except Exception:
            return False

    def empty_set(I_, v):
        if isinstance(v, (set, frozenset)) and not v:
            return SymSet(lambda x: z3.BoolVal(False), INT, 'to_delete')
        return v
    KEEP = AC.TABLES + ['cell']
    I.funcspecs['%s:%s' % (REL, FN)] = FuncSpec(loops=[
        LoopSpec('(m_i, atom_positions) in enumerate(match_positions)', inv=inv, extra_modifies=('new_structure',) + (('ghost_inserted',) if mode == 'atoms' else ()),
                 convert={'to_delete': empty_set},
                 keep_attrs={'new_structure': KEEP})])

    def thunk():
        st.clear()
        structure, f = AM.make_atoms(I, 'structure')
        pattern, fp = AM.make_atoms(I, 'replace_pattern', cell=False)
        N, NR = f['positions'].length, fp['positions'].length
        I.assume(NR >= 1)                                   # this contract: non-empty replacement pattern
        I.assume(AM.wf_sizes(f))
        I.assume(AM.wf_sizes(fp))
        for k, _ in AM.KINDS:
            I.assume(AM.all_in_range(f[AM.PLURAL[k]], 0, N, 'rq_s_' + k))
            I.assume(AM.all_in_range(fp[AM.PLURAL[k]], 0, NR, 'rq_p_' + k))
        st['old'] = dict(f)
        st['pat'] = dict(fp)
        # the selected matches: M index tuples of length NS (contract of find_pattern_in_structure, C01 (1) and (4): valid, distinct atoms)
        M, NS = z3.Int('n_matches'), z3.Int('n_search_atoms')
        I.assume(M >= 0)
        I.assume(NS >= 1)
        MI = z3.Array('match_indices', INT, z3.ArraySort(INT, INT))
        match_indices = NestedSeq(M, [MI], NS, None, 'tuple', 'match_indices')
        j, a, b = z3.Int('mj'), z3.Int('ma'), z3.Int('mb')
        ent = lambda jj, aa: z3.Select(z3.Select(MI, jj), aa)
        I.assume(z3.ForAll([j, a], z3.Implies(z3.And(j >= 0, j < M, a >= 0, a < NS), z3.And(ent(j, a) >= 0, ent(j, a) < N, inM(ent(j, a)))), patterns=[ent(j, a)]))
        I.assume(z3.ForAll([j, a, b], z3.Implies(z3.And(j >= 0, j < M, a >= 0, a < b, b < NS), ent(j, a) != ent(j, b)), patterns=[z3.MultiPattern(ent(j, a), ent(j, b))]))
        I.reg.assumptions_used.add("contract of find_pattern_in_structure (C01 clauses 1 and 4, bounded there): every match lists distinct existing atoms of the structure")
        MP = [z3.Array('match_pos_%s' % c, INT, z3.ArraySort(INT, REAL)) for c in 'xyz']
        match_positions = NestedSeq(M, MP, NS, 3, 'ndarray', 'match_positions')
        quats = SymSeq(M, [z3.Array('quats', INT, ObjS)], None, 'list', 'quats')
        quats.shape = ('o', ObjS)
        # replace-pattern atom -> search-pattern atom for atoms common to both (contract of find_unchanged_atom_pairs: a partial injection)
        L = z3.Int('n_common')
        I.assume(L >= 0)
        ck = AM.seq('common_replace_idx', L, [INT], kind='list')
        cv = AM.seq('common_search_idx', L, [INT], kind='list')
        I.assume(AM.pairwise_distinct(ck, 'ck'))
        I.assume(AM.pairwise_distinct(cv, 'cv'))
        I.assume(AM.all_in_range(ck, 0, NR, 'ckr'))
        I.assume(AM.all_in_range(cv, 0, NS, 'cvr'))
        I.reg.assumptions_used.add("requires: find_unchanged_atom_pairs(replace, search) is a partial injection (no two coincident same-element atoms in a pattern)")
        r2s = models_ext.input_map(I, ck, cv)
        st.update(ck=ck, cv=cv)
        if mode == 'atoms':
            # requires of this clause: the selected matches do not overlap (C04 / C07), type ids are covered by the tables
            j1, b = z3.Int('oj'), z3.Int('ob')
            I.assume(z3.ForAll([j, j1, a, b], z3.Implies(z3.And(j >= 0, j < j1, j1 < M, a >= 0, a < NS, b >= 0, b < NS), ent(j, a) != ent(j1, b)),
                               patterns=[z3.MultiPattern(ent(j, a), ent(j1, b))]))
            I.reg.assumptions_used.add("requires (atom clause): the replaced matches share no atom")

            def map_lemmas(ctx, hs, ho, keys, vals, memK, memV):
                # the per-match map has the keys of the shared-atom map and sends key ck[t] to the matched atom at search position cv[t]
                mi = ctx.lookup('m_i')
                row = z3.Select(MI, to_z3(mi))
                lt = z3.Int(I.reg.fresh('lt'))
                rng = z3.And(lt >= 0, lt < L)
                body = z3.And(z3.Select(keys.cols[0], lt) == z3.Select(ck.cols[0], lt), z3.Select(vals.cols[0], lt) == z3.Select(row, z3.Select(cv.cols[0], lt)))
                I.oblige("%s/lemma/atoms/per-match-map-entries" % ctx.speckey, z3.And(keys.length == L, vals.length == L, z3.ForAll([lt], z3.Implies(rng, body))), 'lemma')
                I.assume(z3.And(keys.length == L, vals.length == L))
                for pat_ in ([z3.Select(ck.cols[0], lt)], [z3.Select(keys.cols[0], lt)], [z3.Select(vals.cols[0], lt)]):
                    I.assume(z3.ForAll([lt], z3.Implies(rng, body), patterns=pat_))
                xo = z3.Int(I.reg.fresh('xo'))
                mem_ck_ = mem_of(I, ck)
                l2 = z3.ForAll([xo], mem_ck_(xo) == memK(xo))
                I.oblige("%s/lemma/atoms/per-match-map-has-the-keys-of-the-shared-atom-map" % ctx.speckey, l2, 'lemma')
                I.assume(z3.ForAll([xo], mem_ck_(xo) == memK(xo), patterns=[memK(xo)]))
                I.assume(z3.ForAll([xo], mem_ck_(xo) == memK(xo), patterns=[mem_ck_(xo)]))
            st['extend_lemmas'] = map_lemmas

            def record_origin(ctx, hs, ho, info):
                G = ctx.lookup('ghost_inserted')
                ctx.setvar_existing('ghost_inserted', models_np.np_append(ctx, [G, info['unmapped']], {}))
            st['after_extend'] = record_origin
        if mode == 'self':
            # identical patterns: the shared-atom map is the identity on all atoms (proved in C08: find_unchanged_atom_pairs(P, P)); the pattern
            # carries no terms of its own (a pattern WITH terms adds them: C06); matched atoms have the pattern's elements (contract of the
            # search, C01 clause 1); type ids are covered by the type tables (WF)
            I.assume(z3.And(NS == NR, L == NS))
            I.assume(z3.ForAll([a], z3.Implies(z3.And(a >= 0, a < L), z3.And(z3.Select(ck.cols[0], a) == a, z3.Select(cv.cols[0], a) == a)), patterns=[z3.Select(ck.cols[0], a)]))
            I.assume(z3.ForAll([a], z3.Implies(z3.And(a >= 0, a < L), z3.And(z3.Select(ck.cols[0], a) == a, z3.Select(cv.cols[0], a) == a)), patterns=[z3.Select(cv.cols[0], a)]))
            mem_cv_, mem_ck_ = mem_of(I, cv), mem_of(I, ck)
            I.assume(z3.ForAll([a], z3.Implies(z3.And(a >= 0, a < L), z3.And(z3.Select(ck.cols[0], a) == a, z3.Select(cv.cols[0], a) == a)), patterns=[mem_cv_(a)]))
            I.assume(z3.ForAll([a], z3.Implies(z3.And(a >= 0, a < L), z3.And(z3.Select(ck.cols[0], a) == a, z3.Select(cv.cols[0], a) == a)), patterns=[mem_ck_(a)]))
            for kk, _ in AM.KINDS:
                I.assume(fp[AM.PLURAL[kk]].length == 0)
            T0, TP = f['atom_type_elements'].length, fp['atom_type_elements'].length
            I.assume(AM.all_in_range(f['atom_types'], 0, T0, 'wt_s'))
            I.assume(AM.all_in_range(fp['atom_types'], 0, TP, 'wt_p'))
            el_s = lambda i_: z3.Select(f['atom_type_elements'].cols[0], z3.Select(f['atom_types'].cols[0], i_))
            el_p = lambda i_: z3.Select(fp['atom_type_elements'].cols[0], z3.Select(fp['atom_types'].cols[0], i_))
            I.assume(z3.ForAll([j, a], z3.Implies(z3.And(j >= 0, j < M, a >= 0, a < NS), el_s(ent(j, a)) == el_p(a)), patterns=[ent(j, a)]))
            I.reg.assumptions_used.add("contract of find_pattern_in_structure (C01 clause 1, bounded there): the matched atoms carry the pattern's elements")
            I.reg.assumptions_used.add("find_unchanged_atom_pairs(P, P) is the identity map (proved in C08)")

            def extend_lemmas(ctx, hs, ho, keys, vals, memK, memV):
                # every atom of the pattern copy is a key of the identity map, and is sent to the matched atom at the same position
                mi = ctx.lookup('m_i')
                row = z3.Select(MI, to_z3(mi))
                la = z3.Int(I.reg.fresh('la'))
                rng = z3.And(la >= 0, la < NS)
                l1 = z3.ForAll([la], z3.Implies(rng, z3.And(z3.Select(keys.cols[0], la) == la, z3.Select(vals.cols[0], la) == z3.Select(row, la))))
                I.oblige("%s/lemma/self/identity-map-entries" % ctx.speckey, z3.And(keys.length == NS, vals.length == NS, l1), 'lemma')
                I.assume(z3.And(keys.length == NS, vals.length == NS))
                I.assume(z3.ForAll([la], z3.Implies(rng, z3.And(z3.Select(keys.cols[0], la) == la, z3.Select(vals.cols[0], la) == z3.Select(row, la))), patterns=[memK(la)]))
                I.assume(z3.ForAll([la], z3.Implies(rng, z3.And(z3.Select(keys.cols[0], la) == la, z3.Select(vals.cols[0], la) == z3.Select(row, la))), patterns=[z3.Select(row, la)]))
                l2 = z3.ForAll([la], z3.Implies(rng, z3.And(memK(la), memV(z3.Select(row, la)))))
                I.oblige("%s/lemma/self/every-pattern-atom-is-mapped-onto-its-matched-atom" % ctx.speckey, l2, 'lemma')
                I.assume(z3.ForAll([la], z3.Implies(rng, z3.And(memK(la), memV(z3.Select(row, la)))), patterns=[memK(la)]))
                I.assume(z3.ForAll([la], z3.Implies(rng, z3.And(memK(la), memV(z3.Select(row, la)))), patterns=[z3.Select(row, la)]))
            st['extend_lemmas'] = extend_lemmas
        replace_all = z3.Bool('replace_all')
        mem_cv = mem_of(I, cv)
        if mode in ('self', 'atoms'):
            I.assume(z3.Not(replace_all))            # these clauses are about shared atoms being kept: replace_all is off (the block runs with False)
        removable = lambda a_: z3.Or(replace_all, z3.Not(mem_cv(a_)))
        # ghost definitions (conservative): pos(j, x) inverts the injective row j; Rm(j, x): x sits at a removable position of match j;
        # fm(x): the first match in which x is removable
        pos = z3.Function('pos_in_match', INT, INT, INT)
        Rm = z3.Function('removable_in_match', INT, INT, z3.BoolSort())
        fm = z3.Function('first_match_removing', INT, INT)
        gx = z3.Int('gx')
        I.assume(z3.ForAll([j, a], z3.Implies(z3.And(j >= 0, j < M, a >= 0, a < NS), z3.And(pos(j, ent(j, a)) == a, Rm(j, ent(j, a)) == removable(a))), patterns=[ent(j, a)]))
        I.assume(z3.ForAll([j, gx], z3.Implies(Rm(j, gx), z3.And(j >= 0, j < M, pos(j, gx) >= 0, pos(j, gx) < NS, ent(j, pos(j, gx)) == gx, removable(pos(j, gx)),
                                                                 fm(gx) >= 0, fm(gx) <= j, Rm(fm(gx), gx))), patterns=[Rm(j, gx)]))
        st.update(MI=MI, NS=NS, M=M, removable=removable, Rm=Rm, fm=fm, pos=pos)
        ignore = z3.Bool('ignore_overlap')
        env = {'structure': structure, 'replace_pattern': pattern, 'match_indices': match_indices, 'match_positions': match_positions, 'quats': quats,
               'replace2search_pattern_map': r2s, 'replace_all': (False if mode in ('self', 'atoms') else Sym(replace_all)), 'ignore_atoms_should_not_be_deleted_twice': Sym(ignore), 'verbose': False}
        if mode == 'atoms':
            env['ghost_inserted'] = SymSeq(N, [z3.K(INT, z3.IntVal(-1))], None, 'list', 'ghost_inserted')     # ghost: -1 = original atom
        ctx = I.block_ctx(REL, FN, env)
        ctx.exec_block(block)
        res = ctx.lookup('new_structure')
        if mode == 'atoms':
            st['ghost_final'] = ctx.lookup('ghost_inserted')
        return structure, pattern, res, ctx.lookup('to_delete'), dict(MI=MI, NS=NS, M=M, removable=st['removable'], Rm=st['Rm'], fm=st['fm'], pos=st['pos'], structure0=dict(f), pattern0=dict(fp), ck=ck, cv=cv, L=L, ghost=st.get('ghost_final'), offsets=st.get('offsets'))

    paths = I.explore(thunk, max_paths=200)
    nret = 0
    for pi, p in enumerate(paths):
        if p.outcome == 'loopend':
            continue
        if p.outcome == 'raise':
            if getattr(p.value, 'cls', None) == 'AtomsShouldNotBeDeletedTwice':
                continue        # the dedicated overlap error (C07): no structure is handed back
            raise OutOfSubset("the replacement block raises %r" % (p.value,))
        nret += 1
        structure, pattern, res, D, gh = p.value
        st.update(gh)
        heap = p.state.heap
        R = heap[res.oid]
        d = getattr(R['positions'], 'deleted_from', None)
        if d is None:
            raise OutOfSubset("the result is not produced by the bulk delete")
        base, idx, src, dst = d
        N = heap[structure.oid]['positions'].length
        O = heap[structure.oid]
        s, x = z3.Int('qs'), z3.Int('qx')
        tag = "replace/frame"
        if mode == 'atoms':
            tag = "replace/atoms"
            G, ck_, cv_, L_, offs = gh['ghost'], gh['ck'], gh['cv'], gh['L'], gh['offsets']
            P0 = gh['pattern0']
            off0 = to_z3(offs[0])
            mem_ck_ = mem_of(I, ck_)
            r, j2, t2, ty = z3.Int('pr'), z3.Int('pj'), z3.Int('pt'), z3.Int('pty')
            lenB = base.length
            g = z3.Select(G.cols[0], r)
            S.add(I, "%s/inserted-atoms-carry-the-patterns-charge-group-and-type#%d" % (tag, pi), p.pc,
                  z3.ForAll([r], z3.Implies(z3.And(r >= N, r < lenB), z3.And(
                      z3.Not(D.pred(r)), dst(r) >= 0, dst(r) < R['positions'].length, g >= 0, g < P0['positions'].length, z3.Not(mem_ck_(g)),
                      z3.Select(R['charges'].cols[0], dst(r)) == z3.Select(P0['charges'].cols[0], g),
                      z3.Select(R['groups'].cols[0], dst(r)) == z3.Select(P0['groups'].cols[0], g),
                      z3.Select(R['atom_types'].cols[0], dst(r)) == z3.Select(P0['atom_types'].cols[0], g) + off0))),
                  clause='inserted atoms carry the charge, group and type of a replacement-only pattern atom')
            ret = z3.Select(z3.Select(gh['MI'], j2), z3.Select(cv_.cols[0], t2))
            S.add(I, "%s/atoms-taken-over-carry-the-type-of-their-pattern-atom#%d" % (tag, pi), p.pc,
                  z3.ForAll([j2, t2], z3.Implies(z3.And(j2 >= 0, j2 < gh['M'], t2 >= 0, t2 < L_), z3.And(
                      z3.Not(D.pred(ret)), dst(ret) >= 0, dst(ret) < R['positions'].length,
                      z3.Select(R['atom_types'].cols[0], dst(ret)) == z3.Select(P0['atom_types'].cols[0], z3.Select(ck_.cols[0], t2)) + off0))),
                  clause='atoms taken over from the pattern carry the type of their pattern atom')
            tabs = []
            for tname in ('atom_type_labels', 'atom_type_elements', 'atom_type_masses'):
                tabs.append(z3.And(R[tname].length == O[tname].length + P0[tname].length,
                                   z3.ForAll([ty], z3.Implies(z3.And(ty >= 0, ty < P0[tname].length),
                                             z3.Select(R[tname].cols[0], O[tname].length + ty) == z3.Select(P0[tname].cols[0], ty)))))
            S.add(I, "%s/pattern-type-plus-offset-resolves-to-the-patterns-label-element-mass#%d" % (tag, pi), p.pc,
                  z3.And(off0 == O['atom_type_elements'].length, *tabs), clause='... and that type resolves to the pattern\'s type label, element and mass')
            S.add_canary(I, "%s/canary#%d" % (tag, pi), [h for h in p.pc if not z3.is_quantifier(h)])
            S.add_probe(I, "%s/probe/hypotheses-consistent#%d" % (tag, pi), p.pc)
            continue
        if mode == 'self':
            tag = "replace/self"
            q = z3.Int('qq')
            nothing = (idx.length == 0)
            S.add(I, "%s/lemma/nothing-is-deleted#%d" % (tag, pi), p.pc, nothing, kind='lemma', clause='identical patterns: no atom is removed')
            pc_self = list(p.pc) + [nothing]
            same = lambda fld: z3.And(R[fld].length == O[fld].length, z3.ForAll([q], z3.Implies(z3.And(q >= 0, q < O[fld].length),
                                      z3.And(*[z3.Select(cn, q) == z3.Select(co, q) for cn, co in zip(R[fld].cols, O[fld].cols)]))))
            S.add(I, "%s/atom-count-positions-charges-groups-unchanged#%d" % (tag, pi), pc_self, z3.And(same('positions'), same('charges'), same('groups')),
                  clause='replacing a pattern by an identical pattern leaves the atom count and every position, charge and group unchanged')
            ER, E0 = R['atom_type_elements'], O['atom_type_elements']
            S.add(I, "%s/every-atom-keeps-its-element#%d" % (tag, pi), pc_self,
                  z3.And(R['atom_types'].length == N, z3.ForAll([q], z3.Implies(z3.And(q >= 0, q < N), z3.And(
                      z3.Select(R['atom_types'].cols[0], q) >= 0, z3.Select(R['atom_types'].cols[0], q) < ER.length,
                      z3.Select(ER.cols[0], z3.Select(R['atom_types'].cols[0], q)) == z3.Select(E0.cols[0], z3.Select(O['atom_types'].cols[0], q)))))),
                  clause='... and every element')
            for kk, _ in AM.KINDS:
                S.add(I, "%s/%s-and-their-types-unchanged#%d" % (tag, AM.PLURAL[kk], pi), pc_self, z3.And(same(AM.PLURAL[kk]), same(kk + '_types'), same('extra_%s_fields' % kk)),
                      clause='... and the bonded / angled / torsion atom tuples (pattern without terms of its own)')
            S.add_canary(I, "%s/canary#%d" % (tag, pi), [h for h in p.pc if not z3.is_quantifier(h)])
            S.add_probe(I, "%s/probe/hypotheses-consistent#%d" % (tag, pi), p.pc)
            continue
        S.add(I, "%s/input-structure-and-replacement-pattern-not-modified#%d" % (tag, pi), p.pc,
              z3.BoolVal(all(O[k] is v for k, v in gh['structure0'].items()) and all(heap[pattern.oid][k] is v for k, v in gh['pattern0'].items())), kind='frame',
              clause='the input structure and the replacement pattern are left unmodified (the block works on copies)')
        surv = lambda s_: z3.And(dst(s_) >= 0, dst(s_) < R['positions'].length,
                                 *[z3.Select(cn, dst(s_)) == z3.Select(co, s_) for fld in ('positions', 'charges', 'groups') for cn, co in zip(R[fld].cols, O[fld].cols)])
        S.add(I, "%s/only-atoms-of-selected-matches-are-removed#%d" % (tag, pi), p.pc,
              z3.ForAll([x], z3.Implies(D.pred(x), z3.And(inM(x), x >= 0, x < N))), clause='only atoms of replaced matches are removed')
        for lbl, fml in deletion_set_is_exact(D, st['M']) + removed_atoms_characterised(D, st['M']):
            S.add(I, "%s/deletion-set/%s#%d" % (tag, lbl, pi), p.pc, fml,
                  clause='removed atoms = atoms of the replaced matches that occur only in the search pattern (all matched atoms with replace_all)')
        S.add(I, "%s/every-atom-not-removed-keeps-position-charge-group#%d" % (tag, pi), p.pc,
              z3.ForAll([s], z3.Implies(z3.And(s >= 0, s < N, z3.Not(D.pred(s))), surv(s))),
              clause='bystanders and atoms common to both patterns stay where they were, with charge and group')
        S.add(I, "%s/atoms-outside-the-matches-survive-with-their-type#%d" % (tag, pi), p.pc,
              z3.ForAll([s], z3.Implies(z3.And(s >= 0, s < N, z3.Not(inM(s))), z3.And(z3.Not(D.pred(s)), surv(s),
                        z3.Select(R['atom_types'].cols[0], dst(s)) == z3.Select(O['atom_types'].cols[0], s)))),
              clause='every atom outside the replaced matches keeps position, type, charge and group')
        wf = [AM.wf_sizes(R)] + [AM.all_in_range(R[AM.PLURAL[kk]], 0, R['positions'].length, 'wr_' + kk) for kk, _ in AM.KINDS]
        S.add(I, "%s/result-is-well-formed#%d" % (tag, pi), p.pc, z3.And(*wf),
              clause='the result is internally consistent: array sizes agree and every term refers to existing atoms (C09 for replace)')
        # type ids keep their meaning: the tables are the old tables followed by the pattern's
        tabs = []
        for t in AC.TABLES:
            ap = getattr(R[t], 'appended', None)
            tabs.append(ap is not None and ap[0] is O[t])
        S.add(I, "%s/type-tables-are-old-tables-followed-by-the-patterns#%d" % (tag, pi), p.pc, z3.BoolVal(all(tabs)),
              clause='type label, element, mass of bystanders: old type ids resolve as before')
        S.add_canary(I, "%s/canary#%d" % (tag, pi), [h for h in p.pc if not z3.is_quantifier(h)])
        if nret <= 2:
            S.add_probe(I, "%s/probe/hypotheses-consistent#%d" % (tag, pi), p.pc)
    if nret == 0:
        raise OutOfSubset("no normally returning path of the replacement block")
    S.add_interp_obligations(I)
    spec = I.funcspecs['%s:%s' % (REL, FN)]
    if len(spec.seen_loops) != 1:
        raise OutOfSubset("the match loop must be cut at its invariant")
