"""C04 -- replacement changes exactly the matched atoms and nothing else.

Deductive part built so far:
  * match selection: with a replacement fraction f the replaced matches are round(f*M) distinct members of the found list (all M when
    f >= 1), and the reported count is their number -- block contract on the `if replace_fraction < 1.0` statement and the return;
  * deletion set = matched atoms minus retained atoms, each atom at most once: C07's block contract and lemma (same statements);
  * per-atom data of survivors / order: consequence of the contracts of Atoms.__delitem__ (C10) and Atoms.extend (C11).
Whole-function composition over the match loop (atom count N - sum|D_k| + m|A|, bystanders unchanged) and the frame condition on the
three inputs are BOUNDED on the real code (bounded/C04.py).
"""
import ast
import z3

from pyvc.values import Sym, SymSeq, Opaque, OutOfSubset, to_z3
from pyvc import models_py
from pyvc.models_py import ObjS, to_obj

META = {
    'level': 'other',
    'explanation': "selection arithmetic proved as a block contract; the composition over the match loop is carried by the callee "
                   "contracts of C07/C10/C11 but not yet assembled into one whole-function proof, so the atom-count / bystander / "
                   "frame clauses are bounded",
    'trusted_base': ["python: random.sample(pop, k) returns k distinct members of pop (ValueError if k > len)", "round(): nearest, ties to even",
                     "z3 soundness", "pyvc symbolic interpreter"],
}
REL = 'mofun/mofun.py'
FN = 'replace_pattern_in_structure'
INT = z3.IntSort()


def build(S):
    S.function(REL, FN)

    def run():
        I = S.interp()
        models_py.install(I)
        models_py.install_opaque_algebra(I)
        st = {}

        def rnd_sample(ctx, args, kwargs):
            pop = args[0]
            k = kwargs.get('k', args[1] if len(args) > 1 else None)
            if type(pop).__name__ == 'LazyIter':
                pop = models_py.list_of_lazy(ctx, pop)
            if not isinstance(pop, SymSeq) or k is None:
                raise OutOfSubset("random.sample in an unmodelled form")
            kz = to_z3(k)
            I.oblige("%s/pre/sample-size-within-population" % ctx.speckey, z3.And(kz >= 0, kz <= pop.length), 'pre')
            out = I.fresh_seq('sample', 'int')
            I.assume(out.length == kz)
            j, j2 = z3.Int(I.reg.fresh('j')), z3.Int(I.reg.fresh('j'))
            src = z3.Function(I.reg.fresh('sample_src'), INT, INT)
            a = out.cols[0]
            I.assume(z3.ForAll([j], z3.Implies(z3.And(j >= 0, j < kz), z3.And(src(j) >= 0, src(j) < pop.length,
                                                                               z3.Select(a, j) == z3.Select(pop.cols[0], src(j)))), patterns=[z3.Select(a, j)]))
            I.assume(z3.ForAll([j, j2], z3.Implies(z3.And(j >= 0, j < j2, j2 < kz), src(j) != src(j2)), patterns=[z3.MultiPattern(src(j), src(j2))]))
            st['sample'] = (out, src, pop)
            return out
        I.models['random.sample'] = rnd_sample
        mod = I.module(REL)
        fn = mod.find(FN)
        sel = [n for n in fn.body if isinstance(n, ast.If) and ast.unparse(n.test) == 'replace_fraction < 1.0']
        if len(sel) != 1:
            raise OutOfSubset("selection statement `if replace_fraction < 1.0` not found (contract no longer applies)")
        rets = [n for n in ast.walk(fn) if isinstance(n, ast.Return) and isinstance(n.value, ast.Tuple)]
        if len(rets) != 1 or ast.unparse(rets[0].value.elts[1]) != 'len(match_indices)':
            raise OutOfSubset("`return new_structure, len(match_indices)` not found (contract no longer applies)")
        M = z3.Int('M')
        f = z3.Real('f')

        def thunk():
            st.clear()
            I.assume(M >= 0)
            I.assume(z3.And(f >= 0, f <= 1))
            found = SymSeq(M, [z3.Array('found', INT, ObjS)], None, 'list', 'match_indices')
            mp = Opaque(z3.Const('match_positions', ObjS), 'match_positions')
            env = {'match_indices': found, 'match_positions': mp, 'quats': Opaque(z3.Const('quats', ObjS), 'quats'), 'replace_fraction': Sym(f)}
            # len(match_positions) is the number of found matches
            lenf = I.reg.ufunc('len_obj', ObjS, INT)
            I.assume(lenf(mp.term) == M)
            ctx = I.block_ctx(REL, FN, env)
            ctx.exec_stmt(sel[0])
            return found, ctx.lookup('match_indices'), ctx.lookup('match_positions'), ctx.lookup('quats')

        paths = I.explore(thunk)
        for i, p in enumerate(paths):
            if p.outcome != 'return':
                raise OutOfSubset("selection block raises")
            found, chosen, mp2, q2 = p.value
            if not isinstance(chosen, SymSeq):
                raise OutOfSubset("match_indices is no longer a list")
            # round half to even of f*M
            x = f * z3.ToReal(M)
            fl = z3.ToInt(x)
            fr = x - z3.ToReal(fl)
            rnd = z3.If(fr < z3.RealVal('1/2'), fl, z3.If(fr > z3.RealVal('1/2'), fl + 1, z3.If(fl % 2 == 0, fl, fl + 1)))
            m = z3.If(f >= 1, M, rnd)
            S.add(I, "replace/selection/count-is-round-f-times-M#%d" % i, p.pc, chosen.length == m, clause='number of replaced matches')
            k, g = z3.Int('sk'), z3.Int('sg')
            member = z3.ForAll([k], z3.Implies(z3.And(k >= 0, k < chosen.length),
                                               z3.Exists([g], z3.And(g >= 0, g < M, z3.Select(chosen.cols[0], k) == z3.Select(found.cols[0], g)))))
            S.add(I, "replace/selection/only-found-matches-are-replaced#%d" % i, p.pc, member, clause='only found matches are replaced')
            if 'sample' in st and chosen is not found:
                out, src, pop = st['sample']
                k2 = z3.Int('sk2')
                S.add(I, "replace/selection/selected-matches-are-distinct-found-matches#%d" % i, p.pc,
                      z3.Implies(f < 1, z3.ForAll([k, k2], z3.Implies(z3.And(k >= 0, k < k2, k2 < chosen.length), z3.Select(out.cols[0], k) != z3.Select(out.cols[0], k2)))),
                      clause='no match is replaced twice')
                # positions and rotations are selected with the same index list
                fancy = lambda base: I.reg.ufunc('getitem', ObjS, ObjS, ObjS)(z3.Const(base, ObjS), to_obj(I, out))
                S.add(I, "replace/selection/positions-and-rotations-follow-the-same-selection#%d" % i, p.pc,
                      z3.Implies(f < 1, z3.And(to_obj(I, mp2) == fancy('match_positions'), to_obj(I, q2) == fancy('quats'))))
            S.add_canary(I, "replace/selection/canary#%d" % i, [h for h in p.pc if not z3.is_quantifier(h)])
        S.add_interp_obligations(I)
    S.guarded('selection block', run)
    S.clause('number of replaced matches = round(f*M), reported count equals it, only found matches, none twice', 'PROVED (block contract)')
    S.clause('deletion set / overlap', 'PROVED in C07 (same statements)')
    S.clause('atom count, per-element counts, bystanders unchanged, retained atoms in place, inputs unmodified', 'BOUNDED (bounded/C04.py)')
