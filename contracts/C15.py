"""C15 -- P1 CIF files round-trip.

Deductive part: reader glue of Atoms.load_p1_cif against an abstract CIF block (map tag -> value, PyCifRW assumed):
  * a file is rejected iff it carries _symmetry_space_group_name_H-M with a value other than "P1" / "P 1";
  * Cartesian coordinate tags take precedence, else fractional, else the load fails;
  * fractional coordinates are reduced modulo 1 *before* they are multiplied by the cell, and only when fractional tags were used and a cell is
    present -- so the loaded atom is the image inside the cell (real arithmetic, arbitrary atom, arbitrary cell matrix).
Writer loops, label generation, PyCifRW itself and the whole round trip are BOUNDED (bounded/C15.py: write -> read -> compare -> rewrite,
comparison with ase.io.read, uncertainties in parentheses, 26 space-group names).
"""
import ast
import z3

from pyvc.values import Sym, StrS, RowVal, OutOfSubset, to_z3, Opaque
from pyvc.interp import RaiseSig, ExcVal
from pyvc import models_py, models_lin
from pyvc.models_lin import MatVal, sym_row, sym_mat3
from pyvc.models_py import ObjS

META = {
    'level': 'other',
    'explanation': "reader decisions (space group, coordinate tags, wrap before conversion) proved on the real AST against an abstract block; the "
                   "round trip through PyCifRW only checked with a stated bound",
    'trusted_base': ["PyCifRW: ReadCif / CifBlock behave as a map tag -> list of strings (has_key, [], GetLoop)", "ase.geometry.cellpar_to_cell returns a 3x3 cell",
                     "A2 reals", "z3 soundness", "pyvc symbolic interpreter"],
}
REL = 'mofun/atoms.py'
REAL = z3.RealSort()
SG = "_symmetry_space_group_name_H-M"


class Block:
    pass


def build(S):
    S.function(REL, 'Atoms.load_p1_cif')

    def run_decisions():
        I = S.interp()
        I.allow_merge = False
        models_py.install(I)
        models_py.install_opaque_algebra(I)
        has = I.reg.ufunc('block_has_tag', StrS, z3.BoolSort())
        val = I.reg.ufunc('block_value', StrS, StrS)
        blk = Block()
        st = {}

        def m_has_key(ctx, recv, args, kwargs, f):
            if recv is blk:
                return Sym(has(to_z3(args[0])))
            return NotImplemented
        I.models['method.has_key'] = m_has_key

        def blk_getitem(ctx, cont, idx):
            t = idx[1]
            st.setdefault('read', []).append(t)
            return Sym(val(to_z3(t))) if isinstance(t, str) and not t.startswith('_atom_site') else Opaque(I.reg.ufunc('block_column', StrS, ObjS)(to_z3(t)), 'column')
        I.models['getitem:Block'] = blk_getitem
        I.models['numpy.array'] = lambda ctx, args, kwargs: AllOf(args[0])

        class AllOf:
            def __init__(self, items):
                self.items = items

        def m_all(ctx, recv, args, kwargs, f):
            if isinstance(recv, AllOf):
                return Sym(z3.And(*[to_z3(x) for x in recv.items])) if recv.items else True
            return NotImplemented
        I.models['method.all'] = m_all
        mod = I.module(REL)
        fn = mod.find('Atoms.load_p1_cif')
        body = fn.body
        start = next((k for k, s in enumerate(body) if isinstance(s, ast.If) and SG in ast.unparse(s.test)), None)
        end = next((k for k, s in enumerate(body) if isinstance(s, ast.Assign) and ast.unparse(s.targets[0]) == 'x'), None)
        defs = [s for s in body if isinstance(s, ast.FunctionDef)]
        if start is None or end is None or end <= start:
            raise OutOfSubset("space-group check / coordinate selection not found in load_p1_cif (contract no longer applies)")
        block = defs + body[start:end]

        def thunk():
            st.clear()
            ctx = I.block_ctx(REL, 'Atoms.load_p1_cif', {'block': blk})
            ctx.exec_block(block)
            return ctx.lookup('use_fract_coords'), ctx.lookup('coords'), list(st.get('read', []))

        lit = I.reg.strlit
        cart = ["_atom_site_cartn_x", "_atom_site_cartn_y", "_atom_site_cartn_z", "_atom_site_label"]
        frac = ["_atom_site_fract_x", "_atom_site_fract_y", "_atom_site_fract_z", "_atom_site_label"]
        has_all = lambda tags: z3.And(*[has(lit(t)) for t in tags])
        not_p1 = z3.And(has(lit(SG)), val(lit(SG)) != lit("P1"), val(lit(SG)) != lit("P 1"))

        def replay_for(model):
            return {'kind': 'cif', 'input': {'sg': 'P 1 21/c 1', 'reject': True}, 'key': 'cif-spacegroup', 'what': 'space-group / coordinate-tag decision of load_p1_cif'}
        paths = I.explore(thunk)
        kinds = set()
        for n, p in enumerate(paths):
            if p.outcome == 'raise':
                kinds.add('raise')
                S.add(I, "load_p1_cif/rejects-only-non-P1-or-files-without-coordinates#%d" % n, p.pc,
                      z3.Or(not_p1, z3.And(z3.Not(has_all(cart)), z3.Not(has_all(frac)))), replay=replay_for, clause='rejection of non-P1 files')
                continue
            kinds.add('load')
            use_fract, coords, read = p.value
            S.add(I, "load_p1_cif/accepts-only-P1#%d" % n, p.pc, z3.Not(not_p1), replay=replay_for, clause='rejection of non-P1 files')
            uf = use_fract if isinstance(use_fract, bool) else None
            tags = [t for t in read if isinstance(t, str) and t.startswith('_atom_site')]
            if uf is None:
                raise OutOfSubset("use_fract_coords is not a concrete boolean on a path")
            if uf:
                S.add(I, "load_p1_cif/fractional-tags-used-only-without-cartesian-ones#%d" % n, p.pc,
                      z3.And(z3.Not(has_all(cart)), has_all(frac), z3.BoolVal(tags[-4:] == frac)), clause='coordinate tags: Cartesian take precedence, else fractional')
            else:
                S.add(I, "load_p1_cif/cartesian-tags-take-precedence#%d" % n, p.pc, z3.And(has_all(cart), z3.BoolVal(tags[-4:] == cart)),
                      clause='coordinate tags: Cartesian take precedence, else fractional')
            S.add_canary(I, "load_p1_cif/decisions/canary#%d" % n, p.pc)
        S.add(I, "load_p1_cif/decisions/both-outcomes-exist", [], z3.BoolVal(kinds == {'raise', 'load'}))
        S.add_interp_obligations(I)
    S.guarded('load_p1_cif decisions', run_decisions)

    def run_wrap():
        I = S.interp()
        I.allow_merge = False
        models_py.install(I)
        models_lin.install(I)

        def m_dot(ctx, recv, args, kwargs, f):
            if isinstance(recv, list) and recv and isinstance(recv[0], RowVal):
                return I.models['numpy.matmul'](ctx, [recv, args[0]], {})
            return NotImplemented
        I.models['method.dot'] = m_dot
        mod = I.module(REL)
        fn = mod.find('Atoms.load_p1_cif')
        target = [s for s in ast.walk(fn) if isinstance(s, ast.If) and ast.unparse(s.test) == 'use_fract_coords']
        if len(target) != 1:
            raise OutOfSubset("`if use_fract_coords:` wrap block not found (contract no longer applies)")
        outer = [s for s in ast.walk(fn) if isinstance(s, ast.If) and target[0] in s.body]
        if len(outer) != 1 or 'has_all_tags(block, cell_tags)' not in ast.unparse(outer[0].test):
            raise OutOfSubset("the wrap is no longer guarded by the presence of the cell tags")
        for use_fract in (True, False):
            def thunk(use_fract=use_fract):
                row = sym_row('f')
                C = sym_mat3('cell')
                ctx = I.block_ctx(REL, 'Atoms.load_p1_cif', {'use_fract_coords': use_fract, 'positions': MatVal([row]), 'cell': C})
                ctx.exec_stmt(target[0])
                return row, C, ctx.lookup('positions')
            for n, p in enumerate(I.explore(thunk)):
                if p.outcome != 'return':
                    raise OutOfSubset("wrap block raises")
                row, C, pos = p.value
                f = [to_z3(x, sort=REAL) for x in row]
                Cz = [[to_z3(x, sort=REAL) for x in r] for r in C]
                got = [to_z3(x, sort=REAL) for x in pos[0]]
                if use_fract:
                    g = [x - z3.ToReal(z3.ToInt(x)) for x in f]
                    want = [sum(g[a] * Cz[a][k] for a in range(3)) for k in range(3)]
                    S.add(I, "load_p1_cif/wrap/fractional-coordinates-reduced-modulo-1-then-converted#%d" % n, p.pc, z3.And(*[a == b for a, b in zip(got, want)]),
                          clause='reading wraps fractional coordinates into the cell')
                else:
                    S.add(I, "load_p1_cif/wrap/cartesian-coordinates-left-alone#%d" % n, p.pc, z3.And(*[a == b for a, b in zip(got, f)]),
                          clause='Cartesian-coordinate files are not wrapped')
        S.add_interp_obligations(I)
    S.guarded('load_p1_cif wrap', run_wrap)
    S.clause('P1 check, coordinate-tag precedence, wrap-then-convert', 'PROVED (reader glue against an abstract block)')
    S.clause('labels, loops, extra columns, uncertainties, PyCifRW, round trip, agreement with ase', 'BOUNDED (bounded/C15.py)')
