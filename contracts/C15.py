"""C15 -- P1 CIF files round-trip.

Deductive part: reader glue of Atoms.load_p1_cif against an abstract CIF block (map tag -> value, PyCifRW assumed):
  * a file is rejected iff it carries _symmetry_space_group_name_H-M with a value other than "P1" / "P 1";
  * Cartesian coordinate tags take precedence, else fractional, else the load fails;
  * fractional coordinates are reduced modulo 1 *before* they are multiplied by the cell, and only when fractional tags were used and a cell is
    present -- so the loaded atom is the image inside the cell (real arithmetic, arbitrary atom, arbitrary cell matrix).
Writer (prove_writer): Atoms.save_p1_cif is executed on a structure of arbitrary size (all combinations of present / absent term kinds, fractional
and Cartesian output, no extra columns) with the PyCifRW objects replaced by recorders: the block declares P 1, carries the cell lengths and the
angles to 4 decimals, one atom loop (label, element of atom k, coordinates of atom k to 4 decimals -- fractional = positions.dot(inv(cell)) row-wise --
and charge, in atom order), and a bond / angle / torsion loop exactly when there are such terms, row k naming the labels of the atoms of term k
(torsions: dihedrals followed by impropers); the text is written once.
Reader (prove_term_decode): the label -> index decoding statements of load_p1_cif, run on the columns the writer was proved to add, give back bonds,
angles and torsions between the same atoms in order (pairwise distinct labels and the PyCifRW bridge assumed).
Label distinctness, extra columns, PyCifRW itself, the text-level rewrite and agreement with ase are BOUNDED (bounded/C15.py: write -> read -> compare
-> rewrite, comparison with ase.io.read, uncertainties in parentheses, 26 space-group names).
"""
import ast
import z3

from pyvc.values import Sym, StrS, RowVal, OutOfSubset, to_z3, Opaque
from pyvc.interp import RaiseSig, ExcVal
from pyvc import models_py, models_lin
from pyvc.models_lin import MatVal, sym_row, sym_mat3
from pyvc.models_py import ObjS

META = {
    'level': 'proof',
    'explanation': "reader decisions (space group, coordinate tags, wrap before conversion), the content the writer hands to PyCifRW, and the reader's "
                   "label decoding of it (record-level round trip of bonds / angles / torsions) proved on the real AST; label distinctness, extra "
                   "columns, PyCifRW and the text-level round trip only checked with a stated bound",
    'trusted_base': ["PyCifRW: ReadCif / CifBlock behave as a map tag -> list of strings (has_key, [], GetLoop)", "ase.geometry.cellpar_to_cell returns a 3x3 cell",
                     "A2 reals", "z3 soundness", "pyvc symbolic interpreter"],
}
REL = 'mofun/atoms.py'
REAL = z3.RealSort()
SG = "_symmetry_space_group_name_H-M"


class Block:
    pass


def build(S):
    from contracts import dispatch
    dispatch.prove_dispatch(S)
    prove_cell_parameters(S)
    S.function(REL, 'Atoms.load_p1_cif')

    def run_decisions():
        I = S.interp()
        I.allow_merge = False
        models_py.install(I)
        models_py.install_opaque_algebra(I)
        has = I.reg.ufunc('block_has_tag', StrS, z3.BoolSort())
        val = I.reg.ufunc('block_value', StrS, StrS)
        blk = Block()
        st = {}

        def m_has_key(ctx, recv, args, kwargs, f):
            if recv is blk:
                return Sym(has(to_z3(args[0])))
            return NotImplemented
        I.models['method.has_key'] = m_has_key

        def blk_getitem(ctx, cont, idx):
            t = idx[1]
            st.setdefault('read', []).append(t)
            return Sym(val(to_z3(t))) if isinstance(t, str) and not t.startswith('_atom_site') else Opaque(I.reg.ufunc('block_column', StrS, ObjS)(to_z3(t)), 'column')
        I.models['getitem:Block'] = blk_getitem
        I.models['numpy.array'] = lambda ctx, args, kwargs: AllOf(args[0])

        class AllOf:
            def __init__(self, items):
                self.items = items

        def m_all(ctx, recv, args, kwargs, f):
            if isinstance(recv, AllOf):
                return Sym(z3.And(*[to_z3(x) for x in recv.items])) if recv.items else True
            return NotImplemented
        I.models['method.all'] = m_all
        mod = I.module(REL)
        fn = mod.find('Atoms.load_p1_cif')
        body = fn.body
        start = next((k for k, s in enumerate(body) if isinstance(s, ast.If) and SG in ast.unparse(s.test)), None)
        end = next((k for k, s in enumerate(body) if isinstance(s, ast.Assign) and ast.unparse(s.targets[0]) == 'x'), None)
        defs = [s for s in body if isinstance(s, ast.FunctionDef)]
        if start is None or end is None or end <= start:
            raise OutOfSubset("space-group check / coordinate selection not found in load_p1_cif (contract no longer applies)")
        block = defs + body[start:end]

        def thunk():
            st.clear()
            ctx = I.block_ctx(REL, 'Atoms.load_p1_cif', {'block': blk})
            ctx.exec_block(block)
            return ctx.lookup('use_fract_coords'), ctx.lookup('coords'), list(st.get('read', []))

        lit = I.reg.strlit
        cart = ["_atom_site_cartn_x", "_atom_site_cartn_y", "_atom_site_cartn_z", "_atom_site_label"]
        frac = ["_atom_site_fract_x", "_atom_site_fract_y", "_atom_site_fract_z", "_atom_site_label"]
        has_all = lambda tags: z3.And(*[has(lit(t)) for t in tags])
        not_p1 = z3.And(has(lit(SG)), val(lit(SG)) != lit("P1"), val(lit(SG)) != lit("P 1"))

        def replay_for(model):
            return {'kind': 'cif', 'input': {'sg': 'P 1 21/c 1', 'reject': True}, 'key': 'cif-spacegroup', 'what': 'space-group / coordinate-tag decision of load_p1_cif'}
        paths = I.explore(thunk)
        kinds = set()
        for n, p in enumerate(paths):
            if p.outcome == 'raise':
                kinds.add('raise')
                S.add(I, "load_p1_cif/rejects-only-non-P1-or-files-without-coordinates#%d" % n, p.pc,
                      z3.Or(not_p1, z3.And(z3.Not(has_all(cart)), z3.Not(has_all(frac)))), replay=replay_for, clause='rejection of non-P1 files')
                continue
            kinds.add('load')
            use_fract, coords, read = p.value
            S.add(I, "load_p1_cif/accepts-only-P1#%d" % n, p.pc, z3.Not(not_p1), replay=replay_for, clause='rejection of non-P1 files')
            uf = use_fract if isinstance(use_fract, bool) else None
            tags = [t for t in read if isinstance(t, str) and t.startswith('_atom_site')]
            if uf is None:
                raise OutOfSubset("use_fract_coords is not a concrete boolean on a path")
            if uf:
                S.add(I, "load_p1_cif/fractional-tags-used-only-without-cartesian-ones#%d" % n, p.pc,
                      z3.And(z3.Not(has_all(cart)), has_all(frac), z3.BoolVal(tags[-4:] == frac)), clause='coordinate tags: Cartesian take precedence, else fractional')
            else:
                S.add(I, "load_p1_cif/cartesian-tags-take-precedence#%d" % n, p.pc, z3.And(has_all(cart), z3.BoolVal(tags[-4:] == cart)),
                      clause='coordinate tags: Cartesian take precedence, else fractional')
            S.add_canary(I, "load_p1_cif/decisions/canary#%d" % n, p.pc)
        S.add(I, "load_p1_cif/decisions/both-outcomes-exist", [], z3.BoolVal(kinds == {'raise', 'load'}))
        S.add_interp_obligations(I)
    S.guarded('load_p1_cif decisions', run_decisions)

    def run_wrap():
        I = S.interp()
        I.allow_merge = False
        models_py.install(I)
        models_lin.install(I)

        def m_dot(ctx, recv, args, kwargs, f):
            if isinstance(recv, list) and recv and isinstance(recv[0], RowVal):
                return I.models['numpy.matmul'](ctx, [recv, args[0]], {})
            return NotImplemented
        I.models['method.dot'] = m_dot
        mod = I.module(REL)
        fn = mod.find('Atoms.load_p1_cif')
        target = [s for s in ast.walk(fn) if isinstance(s, ast.If) and ast.unparse(s.test) == 'use_fract_coords']
        if len(target) != 1:
            raise OutOfSubset("`if use_fract_coords:` wrap block not found (contract no longer applies)")
        outer = [s for s in ast.walk(fn) if isinstance(s, ast.If) and target[0] in s.body]
        if len(outer) != 1 or 'has_all_tags(block, cell_tags)' not in ast.unparse(outer[0].test):
            raise OutOfSubset("the wrap is no longer guarded by the presence of the cell tags")
        for use_fract in (True, False):
            def thunk(use_fract=use_fract):
                row = sym_row('f')
                C = sym_mat3('cell')
                ctx = I.block_ctx(REL, 'Atoms.load_p1_cif', {'use_fract_coords': use_fract, 'positions': MatVal([row]), 'cell': C})
                ctx.exec_stmt(target[0])
                return row, C, ctx.lookup('positions')
            for n, p in enumerate(I.explore(thunk)):
                if p.outcome != 'return':
                    raise OutOfSubset("wrap block raises")
                row, C, pos = p.value
                f = [to_z3(x, sort=REAL) for x in row]
                Cz = [[to_z3(x, sort=REAL) for x in r] for r in C]
                got = [to_z3(x, sort=REAL) for x in pos[0]]
                if use_fract:
                    g = [x - z3.ToReal(z3.ToInt(x)) for x in f]
                    want = [sum(g[a] * Cz[a][k] for a in range(3)) for k in range(3)]
                    S.add(I, "load_p1_cif/wrap/fractional-coordinates-reduced-modulo-1-then-converted#%d" % n, p.pc, z3.And(*[a == b for a, b in zip(got, want)]),
                          clause='reading wraps fractional coordinates into the cell')
                else:
                    S.add(I, "load_p1_cif/wrap/cartesian-coordinates-left-alone#%d" % n, p.pc, z3.And(*[a == b for a, b in zip(got, f)]),
                          clause='Cartesian-coordinate files are not wrapped')
        S.add_interp_obligations(I)
    S.guarded('load_p1_cif wrap', run_wrap)
    prove_writer(S)
    prove_term_decode(S)
    S.clause('P1 check, coordinate-tag precedence, wrap-then-convert', 'PROVED (reader glue against an abstract block)')
    S.clause('writer: P 1, cell, atom rows (element, coordinates to 4 decimals, charge), term loops naming the labels of their atoms, torsions = dihedrals then impropers', 'PROVED (recorder in place of PyCifRW, no extra columns)')
    S.clause('reader: labels decode to the same atoms (bonds, angles, torsions in order)', 'PROVED (decoding statements on the proved writer columns; distinct labels and PyCifRW bridge assumed)')
    S.clause('label distinctness, extra columns, uncertainties, PyCifRW, identical rewritten text, agreement with ase', 'BOUNDED (bounded/C15.py)')


# ------------------------------------------------------------------------------------------------
# writer: Atoms.save_p1_cif records what it hands to PyCifRW; reader: the label -> index decoding of load_p1_cif; record-level round trip
from pyvc.values import SymSeq, Ref
from pyvc.interp import FuncSpec, LoopSpec
from pyvc import models_np, models_ext
from pyvc.models_np import mem_of
from contracts import atoms_model as AM
INT = z3.IntSort()
KINDS_W = (('bond', 'bonds', 2), ('angle', 'angles', 3))


class CifRec:
    def __init__(self):
        self.blocks = []


class BlockRec:
    def __init__(self):
        self.sets, self.items, self.loops = [], [], []


class FileRec:
    def __init__(self):
        self.writes = []


def torsion_tags():
    return ["_geom_torsion_atom_site_label_%d" % i for i in (1, 2, 3, 4)]


def prove_writer(S):
    S.function(REL, 'Atoms.save_p1_cif')
    for fract in (True, False):
        S.guarded('save_p1_cif[%s]' % ('fract' if fract else 'cartn'), lambda fract=fract: _writer(S, fract))


def _writer(S, fract):
    I = S.interp()
    I.allow_merge = False
    models_py.install(I)
    models_np.install(I)
    models_ext.install(I)
    models_py.install_zip(I)
    tag = "save_p1_cif[%s]" % ('fract' if fract else 'cartn')
    st = {}
    I.models['CifFile.CifFile'] = lambda ctx, args, kwargs: CifRec()
    I.models['CifFile.CifBlock'] = lambda ctx, args, kwargs: st.setdefault('block', BlockRec())

    def set_cif(ctx, cont, idx, v):
        cont.blocks.append((idx[1], v))
        return cont
    I.models['setitem:CifRec'] = set_cif

    def set_block(ctx, cont, idx, v):
        cont.sets.append((idx[1], v))
        return cont
    I.models['setitem:BlockRec'] = set_block

    def m_additem(ctx, recv, args, kwargs, f):
        if isinstance(recv, BlockRec):
            recv.items.append((args[0], args[1]))
            return None
        return NotImplemented
    I.models['method.AddItem'] = m_additem

    def m_createloop(ctx, recv, args, kwargs, f):
        if isinstance(recv, BlockRec):
            recv.loops.append(list(args[0]))
            return None
        return NotImplemented
    I.models['method.CreateLoop'] = m_createloop

    def m_writeout(ctx, recv, args, kwargs, f):
        if isinstance(recv, CifRec):
            return Opaque(z3.Const('cif_text', ObjS), 'text')
        return NotImplemented
    I.models['method.WriteOut'] = m_writeout

    def m_write(ctx, recv, args, kwargs, f):
        if isinstance(recv, FileRec):
            recv.writes.append(args[0])
            return None
        return NotImplemented
    I.models['method.write'] = m_write
    cellpar = [I.reg.ufunc('cellpar_%s' % n, REAL) for n in ('a', 'b', 'c', 'alpha', 'beta', 'gamma')]
    I.models['%s:Atoms.cell_abc_alpha_beta_gamma' % REL] = lambda ctx, args, kwargs: tuple(Sym(f()) for f in cellpar)
    I.models['numpy.linalg.inv'] = lambda ctx, args, kwargs: Opaque(z3.Const('cell_inv', ObjS), 'inv')
    fracf = [I.reg.ufunc('fractional_coordinate_%s' % c, REAL, REAL, REAL, REAL) for c in 'xyz']

    def m_dot(ctx, recv, args, kwargs, f):
        if isinstance(recv, SymSeq) and recv.width == 3 and len(args) == 1 and isinstance(args[0], Opaque):
            I.reg.assumptions_used.add("numpy: positions.dot(inv(cell)) is row-wise (fractional coordinates of each atom)")
            cols = [z3.Array(I.reg.fresh('frac_%s' % c), INT, REAL) for c in 'xyz']
            k = z3.Int(I.reg.fresh('k'))
            row = [z3.Select(c, k) for c in recv.cols]
            for cn, fc in zip(cols, fracf):
                I.assume(z3.ForAll([k], z3.Implies(z3.And(k >= 0, k < recv.length), z3.Select(cn, k) == fc(*row)), patterns=[z3.Select(cn, k)]))
            return SymSeq(recv.length, cols, 3, 'ndarray', 'fractional_coords')
        return NotImplemented
    I.models['method.dot'] = m_dot

    def attr_T(ctx, obj):
        if isinstance(obj, SymSeq) and obj.width is not None:
            return [SymSeq(obj.length, [c], None, 'ndarray', '%s.T[%d]' % (obj.name, i)) for i, c in enumerate(obj.cols)]
        if isinstance(obj, SymSeq) and getattr(obj, 'zero_width', False):
            return []
        return NotImplemented
    I.models['attr.T'] = attr_T
    prev_list = I.models.get('list.fallback')
    I.models['numpy.array'] = lambda ctx, args, kwargs: args[0]

    def m_extend(ctx, recv, args, kwargs, f):
        x = args[0]
        if isinstance(recv, list) and not recv and isinstance(x, SymSeq):
            I.lib.rebind(ctx, f, x)
            return None
        if isinstance(recv, SymSeq) and isinstance(x, SymSeq) and recv.width == x.width:
            I.lib.rebind(ctx, f, models_np.np_append(ctx, [recv, x], {'axis': 0}))
            return None
        return NotImplemented
    I.models['method.extend'] = m_extend
    # the per-element running counters of the label loop: an uninterpreted map (labels are treated as opaque strings, their distinctness is assumed)
    cnt = I.reg.ufunc('label_counter_value', ObjS, StrS, INT)
    upd = I.reg.ufunc('label_counter_update', ObjS, StrS, INT, ObjS)
    I.models['getitem:Opaque'] = lambda ctx, cont, idx: Sym(cnt(cont.term, to_z3(idx[1])))
    I.models['setitem:Opaque'] = lambda ctx, cont, idx, v: Opaque(upd(cont.term, to_z3(idx[1]), to_z3(v)), 'counters')
    I.funcspecs['%s:Atoms.save_p1_cif' % REL] = FuncSpec(loops=[LoopSpec('e in self.elements', inv=lambda view, k: [('one-label-per-atom-so-far', view['atom_labels'].length == (k if z3.is_expr(k) else z3.IntVal(k)))],
                                                                           havoc_types={'atom_labels': 'str'}, extra_modifies=('d',),
                                                                           convert={'d': lambda I_, v: Opaque(z3.Const('label_counters', ObjS), 'counters')})])
    clo = I.closure_for(REL, 'Atoms.save_p1_cif')

    def thunk():
        st.clear()
        ref, f = AM.make_atoms(I, 'self')
        N = f['positions'].length
        I.assume(AM.wf_sizes(f))
        for k, _ in AM.KINDS:
            I.assume(AM.all_in_range(f[AM.PLURAL[k]], 0, N, 'rq_' + k))
        I.assume(AM.all_in_range(f['atom_types'], 0, f['atom_type_elements'].length, 'rq_types'))
        heap = I.state.heap[ref.oid]
        for k in ('atom', 'bond', 'angle', 'dihedral', 'improper'):
            heap['extra_%s_labels' % k] = []                    # this contract: no extra columns (they are exercised by the bounded stage)
            z = SymSeq(heap['extra_%s_fields' % k].length, [], None, 'ndarray', 'extra_%s_fields' % k)
            z.zero_width = True
            heap['extra_%s_fields' % k] = z
        frec = FileRec()
        I.call_closure(clo, [ref, frec], {'use_fract_coords': fract})
        return f, st.get('block'), frec, I.state.lookup_local('atom_labels') if hasattr(I.state, 'lookup_local') else None

    paths = I.explore(thunk, max_paths=300)
    nret = 0
    for pi, p in enumerate(paths):
        if p.outcome == 'loopend':
            continue
        if p.outcome != 'return':
            raise OutOfSubset("save_p1_cif raises %r" % (p.value,))
        nret += 1
        f, blk, frec, _ = p.value
        if blk is None:
            raise OutOfSubset("no CIF block was created")
        N = f['positions'].length
        k = z3.Int('wk')
        sets = dict((key, v) for key, v in blk.sets if isinstance(key, str))
        S.add(I, "%s/space-group-is-declared-P1#%d" % (tag, pi), p.pc, z3.BoolVal(sets.get(SG) == 'P 1'), clause='the file declares space group P 1')
        cell_ok = all(('_cell_length_' + n) in sets for n in 'abc') and all(('_cell_angle_' + n) in sets for n in ('alpha', 'beta', 'gamma'))
        if cell_ok:
            goal = [to_z3(sets['_cell_length_' + n], sort=REAL) == fpar() for n, fpar in zip('abc', cellpar[:3])]
            fmt4 = I.reg.ufunc('fmt[%.4f]', REAL, StrS)
            goal += [to_z3(sets['_cell_angle_' + n]) == fmt4(fpar()) for n, fpar in zip(('alpha', 'beta', 'gamma'), cellpar[3:])]
            S.add(I, "%s/cell-lengths-and-angles-are-those-of-the-cell#%d" % (tag, pi), p.pc, z3.And(*goal), clause='cell lengths and angles (angles to 4 decimals)')
        else:
            S.add(I, "%s/cell-tags-written#%d" % (tag, pi), p.pc, z3.BoolVal(False))
        items = dict(blk.items)
        loops = blk.loops
        coord_tags = ["_atom_site_fract_x", "_atom_site_fract_y", "_atom_site_fract_z"] if fract else ["_atom_site_Cartn_x", "_atom_site_Cartn_y", "_atom_site_Cartn_z"]
        atom_loop = ["_atom_site_label", "_atom_site_type_symbol"] + coord_tags + ["_atom_site_charge"]
        S.add(I, "%s/atom-loop-has-label-element-coordinates-charge#%d" % (tag, pi), p.pc, z3.BoolVal(bool(loops) and loops[0] == atom_loop and all(t in items for t in atom_loop)),
              clause='one atom loop: label, element, coordinates (fractional / Cartesian as requested), charge')
        if not (loops and loops[0] == atom_loop and all(t in items for t in atom_loop)):
            continue
        labels = items["_atom_site_label"]
        if not isinstance(labels, SymSeq):
            raise OutOfSubset("atom labels are not a list built in the label loop")
        els = items["_atom_site_type_symbol"]
        goal = [labels.length == N, els.length == N,
                z3.ForAll([k], z3.Implies(z3.And(k >= 0, k < N), z3.Select(els.cols[0], k) == z3.Select(f['atom_type_elements'].cols[0], z3.Select(f['atom_types'].cols[0], k))))]
        fmt4 = I.reg.ufunc('fmt[%.4f]', REAL, StrS)
        row = [z3.Select(c, k) for c in f['positions'].cols]
        for ci, t in enumerate(coord_tags):
            col = items[t]
            want = fmt4(fracf[ci](*row)) if fract else fmt4(row[ci])
            goal += [col.length == N, z3.ForAll([k], z3.Implies(z3.And(k >= 0, k < N), z3.Select(col.cols[0], k) == want))]
        ch = items["_atom_site_charge"]
        goal += [z3.BoolVal(ch is f['charges'] or (isinstance(ch, SymSeq) and ch.cols[0] is f['charges'].cols[0]))]
        S.add(I, "%s/atom-rows-state-element-coordinates-charge-of-atom-k#%d" % (tag, pi), p.pc, z3.And(*goal),
              clause='atom row k: element of atom k, its coordinates to 4 decimals, its charge, in atom order')
        # term loops
        four = None
        for kind, pl, w in KINDS_W + (('torsion', None, 4),):
            tags_ = ["_geom_%s_atom_site_label_%d" % (kind, i + 1) for i in range(w)]
            present = tags_ in loops
            if kind != 'torsion':
                arr = f[pl]
                S.add(I, "%s/%s-loop-written-iff-there-are-%s#%d" % (tag, kind, pl, pi), p.pc, (arr.length > 0) == z3.BoolVal(present), clause='a term loop is written iff there are terms of that kind')
                rows = arr
                nrows = arr.length
                entry = lambda c, kk: z3.Select(arr.cols[c], kk)
            else:
                dh, im = f['dihedrals'], f['impropers']
                S.add(I, "%s/torsion-loop-written-iff-there-are-dihedrals-or-impropers#%d" % (tag, pi), p.pc, z3.Or(dh.length > 0, im.length > 0) == z3.BoolVal(present),
                      clause='the torsion loop is written iff there are dihedrals or impropers')
                nrows = dh.length + im.length
                entry = lambda c, kk: z3.If(kk < dh.length, z3.Select(dh.cols[c], kk), z3.Select(im.cols[c], kk - dh.length))
            if not present:
                continue
            goal = []
            for c, t in enumerate(tags_):
                col = items.get(t)
                if not isinstance(col, SymSeq):
                    goal.append(z3.BoolVal(False))
                    continue
                goal += [col.length == nrows, z3.ForAll([k], z3.Implies(z3.And(k >= 0, k < nrows), z3.Select(col.cols[0], k) == z3.Select(labels.cols[0], entry(c, k))))]
            S.add(I, "%s/%s-row-k-names-the-labels-of-its-atoms#%d" % (tag, kind, pi), p.pc, z3.And(*goal),
                  clause='row k of a term loop names the labels of the atoms of term k (torsions: dihedrals followed by impropers)')
        S.add(I, "%s/text-written-once#%d" % (tag, pi), p.pc, z3.BoolVal(len(frec.writes) == 1 and isinstance(frec.writes[0], Opaque)), clause='the file text is written once')
        S.add_canary(I, "%s/canary#%d" % (tag, pi), [h for h in p.pc if not z3.is_quantifier(h)])
    if nret == 0:
        raise OutOfSubset("save_p1_cif has no complete path")
    S.add_interp_obligations(I)


class BlockRd:
    """What PyCifRW hands back for a file written by save_p1_cif (bridge, assumed): the columns that were added, loop by loop."""

    def __init__(self, items, loops):
        self.items, self.loops = items, loops


class AllOfRd:
    def __init__(self, items):
        self.items = items


def prove_term_decode(S):
    S.guarded('load_p1_cif term decoding', lambda: _term_decode(S))


def _term_decode(S):
    I = S.interp()
    I.allow_merge = False
    models_py.install(I)
    models_np.install(I)
    models_py.install_zip(I)
    mod = I.module(REL)
    fn = mod.find('Atoms.load_p1_cif')
    body = fn.body
    defs = [s for s in body if isinstance(s, ast.FunctionDef)]
    start = next((k for k, s in enumerate(body) if isinstance(s, ast.Assign) and ast.unparse(s) == 'bonds = []'), None)
    end = next((k for k, s in enumerate(body) if isinstance(s, ast.Assign) and ast.unparse(s) == 'cell = None'), None)
    if start is None or end is None or end <= start:
        raise OutOfSubset("term decoding statements of load_p1_cif not found (contract no longer applies)")
    block = defs + body[start:end]
    tag = "load_p1_cif/terms"
    I.models['method.has_key'] = lambda ctx, recv, args, kwargs, f: (args[0] in recv.items) if isinstance(recv, BlockRd) else NotImplemented
    I.models['getitem:BlockRd'] = lambda ctx, cont, idx: cont.items[idx[1]]
    I.models['numpy.array'] = lambda ctx, args, kwargs: AllOfRd(args[0])
    I.models['method.all'] = lambda ctx, recv, args, kwargs, f: all(bool(x) for x in recv.items) if isinstance(recv, AllOfRd) else NotImplemented
    I.models['method.GetLoop'] = lambda ctx, recv, args, kwargs, f: ({t: None for t in next(l for l in recv.loops if args[0] in l)} if isinstance(recv, BlockRd) else NotImplemented)
    I.models['ordered_set.OrderedSet'] = lambda ctx, args, kwargs: list(dict.fromkeys(I.lib.concrete_iter(ctx, args[0])))

    def m_binop(ctx, op, a, b):
        if op == 'Sub' and isinstance(a, list) and isinstance(b, (set, frozenset)):
            return [x for x in a if x not in b]
        raise OutOfSubset("binary %s on %r and %r" % (op, type(a).__name__, type(b).__name__))
    I.models['binop.fallback'] = m_binop

    def m_index(ctx, recv, x):
        if not (isinstance(recv, SymSeq) and recv.width is None):
            raise OutOfSubset("index on %r" % (recv,))
        I.reg.assumptions_used.add("python: list.index(x) is the first position holding x (ValueError if there is none)")
        mem = mem_of(I, recv)
        xz = to_z3(x, sort=recv.elem_sort())
        I.oblige("%s/safety/label-names-an-atom" % ctx.speckey, mem(xz), 'safety')
        first = I.reg.ufunc('first_index_of_label', recv.elem_sort(), INT)
        j = z3.Int(I.reg.fresh('j'))
        I.assume(z3.And(first(xz) >= 0, first(xz) < recv.length, z3.Select(recv.cols[0], first(xz)) == xz))
        I.assume(z3.ForAll([j], z3.Implies(z3.And(j >= 0, j < first(xz)), z3.Select(recv.cols[0], j) != xz), patterns=[z3.Select(recv.cols[0], j)]))
        return Sym(first(xz))
    I.models['list.index'] = m_index
    I.models['method.keys'] = lambda ctx, recv, args, kwargs, f: list(recv.keys()) if isinstance(recv, dict) else NotImplemented

    def thunk():
        ref, f = AM.make_atoms(I, 'written')
        N = f['positions'].length
        for k, _ in AM.KINDS:
            I.assume(AM.all_in_range(f[AM.PLURAL[k]], 0, N, 'rq_' + k))
        labels = SymSeq(N, [z3.Array('atom_labels', INT, StrS)], None, 'list', 'atom_labels')
        I.assume(AM.pairwise_distinct(labels, 'lbl'))
        I.reg.assumptions_used.add("atom labels written by save_p1_cif (element symbol + running count per element) are pairwise distinct (bounded stage exercises it)")
        I.reg.assumptions_used.add("bridge (PyCifRW, not interpreted): reading a file written by save_p1_cif hands back the loops and columns that were added")
        items, loops = {'_atom_site_label': labels}, [['_atom_site_label']]
        k = z3.Int('ck')

        def column(name, n, idx_of):
            a = z3.Array(name, INT, StrS)
            I.assume(z3.ForAll([k], z3.Implies(z3.And(k >= 0, k < n), z3.Select(a, k) == z3.Select(labels.cols[0], idx_of(k))), patterns=[z3.Select(a, k)]))
            return SymSeq(n, [a], None, 'list', name)
        present = {}
        for kind, pl, w in KINDS_W:
            arr = f[pl]
            on = I.branch(arr.length > 0)
            present[kind] = on
            if on:
                tags_ = ["_geom_%s_atom_site_label_%d" % (kind, i + 1) for i in range(w)]
                for c, t in enumerate(tags_):
                    items[t] = column('col_%s_%d' % (kind, c), arr.length, lambda kk, c=c, arr=arr: z3.Select(arr.cols[c], kk))
                loops.append(tags_)
        dh, im = f['dihedrals'], f['impropers']
        on = I.branch(z3.Or(dh.length > 0, im.length > 0))
        present['torsion'] = on
        if on:
            tags_ = torsion_tags()
            for c, t in enumerate(tags_):
                items[t] = column('col_torsion_%d' % c, dh.length + im.length,
                                  lambda kk, c=c: z3.If(kk < dh.length, z3.Select(dh.cols[c], kk), z3.Select(im.cols[c], kk - dh.length)))
            loops.append(tags_)
        blk = BlockRd(items, loops)
        ctx = I.block_ctx(REL, 'Atoms.load_p1_cif', {'block': blk, 'atom_name': labels})
        ctx.exec_block(block)
        return f, present, {n: ctx.lookup(n) for n in ('bonds', 'angles', 'dihedrals')}

    paths = I.explore(thunk, max_paths=100)
    nret = 0
    for pi, p in enumerate(paths):
        if p.outcome != 'return':
            raise OutOfSubset("term decoding raises %r" % (p.value,))
        nret += 1
        f, present, got = p.value
        k = z3.Int('dk')
        for kind, pl, w in KINDS_W + (('torsion', 'dihedrals', 4),):
            g = got[pl]
            if kind == 'torsion':
                dh, im = f['dihedrals'], f['impropers']
                n = dh.length + im.length
                want = lambda c, kk: z3.If(kk < dh.length, z3.Select(dh.cols[c], kk), z3.Select(im.cols[c], kk - dh.length))
            else:
                n = f[pl].length
                want = lambda c, kk, pl=pl: z3.Select(f[pl].cols[c], kk)
            if not present[kind]:
                S.add(I, "%s/%s-none-read-when-none-written#%d" % (tag, kind, pi), p.pc, z3.And(n == 0, z3.BoolVal(isinstance(g, list) and g == [])), clause='no loop: no terms of that kind')
                continue
            if not (isinstance(g, SymSeq) and len(g.cols) == w):
                S.add(I, "%s/%s-read-as-index-tuples#%d" % (tag, kind, pi), p.pc, z3.BoolVal(False))
                continue
            S.add(I, "%s/roundtrip/%s-between-the-same-atoms#%d" % (tag, kind, pi), p.pc,
                  z3.And(g.length == n, z3.ForAll([k], z3.Implies(z3.And(k >= 0, k < n), z3.And(*[z3.Select(g.cols[c], k) == want(c, k) for c in range(w)])))),
                  clause='reading back gives bonds, angles and torsions (dihedrals followed by impropers) between the same atoms, in order')
        S.add_canary(I, "%s/canary#%d" % (tag, pi), [h for h in p.pc if not z3.is_quantifier(h)])
        if pi == 0:
            S.add_probe(I, "%s/probe/hypotheses-consistent#%d" % (tag, pi), p.pc)
    if nret == 0:
        raise OutOfSubset("term decoding has no normal path")
    S.add_interp_obligations(I)


# ------------------------------------------------------------------------------------------------
# Atoms.cell_abc_alpha_beta_gamma: which cell vectors each of the six parameters is computed from
def prove_cell_parameters(S):
    S.function(REL, 'Atoms.cell_abc_alpha_beta_gamma')
    S.guarded('cell parameters', lambda: _cell_parameters(S))


def _cell_parameters(S):
    """Data-flow contract (numpy / norm / arccos uninterpreted): a, b, c are computed from cell row 0, 1, 2 alone; alpha from rows (1, 2), beta from
    rows (0, 2), gamma from rows (0, 1) -- the crystallographic convention the CIF tags _cell_angle_alpha / beta / gamma and cellpar_to_cell use.
    What the formula is (length = sqrt(v.v), angle = arccos of the normalised dot product) is checked by the bounded stage against an independent
    computation and against ASE."""
    from pyvc.values import Opaque
    from pyvc.models_py import ObjS, opaque_call
    I = S.interp()
    models_py.install(I)
    models_py.install_opaque_algebra(I)
    I.models['libcall.fallback'] = lambda ctx, name, args, kwargs: opaque_call(I, name, args, kwargs, record=False)
    mod = I.module(REL)
    clo = I.closure_for(REL, 'Atoms.cell_abc_alpha_beta_gamma')
    cell = Opaque(z3.Const('the_cell', ObjS), 'cell')

    def thunk():
        me = I.state.alloc('Atoms', {'__class__': 'Atoms', '__module__': mod, 'cell': cell})
        return I.call_closure(clo, [me], {})
    paths = I.explore(thunk)
    if len(paths) != 1 or paths[0].outcome != 'return' or not isinstance(paths[0].value, (tuple, list)) or len(paths[0].value) != 6:
        raise OutOfSubset("cell_abc_alpha_beta_gamma does not return six values on one path")

    def rows_used(term):
        out, stack, seen = set(), [term], set()
        while stack:
            t = stack.pop()
            if t.get_id() in seen:
                continue
            seen.add(t.get_id())
            if z3.is_app(t) and t.decl().name().endswith('getitem') and t.num_args() == 2 and z3.eq(t.arg(0), cell.term):
                idx = t.arg(1)
                digits = [c for c in idx.children()] if z3.is_app(idx) else []
                if len(digits) == 1 and z3.is_int_value(digits[0]):
                    out.add(digits[0].as_long())
                    continue
                raise OutOfSubset("cell indexed with something else than a constant row number: %s" % idx)
            elif z3.is_app(t) and z3.eq(t, cell.term):
                out.add('whole cell')
            stack.extend(t.children())
        return out
    want = [{0}, {1}, {2}, {1, 2}, {0, 2}, {0, 1}]
    names = ['a', 'b', 'c', 'alpha', 'beta', 'gamma']
    for k, (v, w) in enumerate(zip(paths[0].value, want)):
        if not isinstance(v, Opaque):
            raise OutOfSubset("cell parameter %s is not computed from the cell" % names[k])
        got = rows_used(v.term)
        S.add(I, "cell_abc_alpha_beta_gamma/%s-is-computed-from-cell-rows-%s" % (names[k], '-'.join(str(x) for x in sorted(w))), [], z3.BoolVal(got == w),
              clause='cell lengths and angles in the order a, b, c, alpha (b^c), beta (a^c), gamma (a^b)')
    S.add_interp_obligations(I)
