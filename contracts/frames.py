"""Syntactic frame facts about parameters: does an expression still denote the caller's value of parameter `p`?

  'same'     the bare name p, or a pure coercion of it: float(p), int(p), bool(p), str(p), tuple(p), list(p), np.asarray(p), np.array(p)
  'changed'  a constant, or an expression that combines p with constants or other names (max(p, 5e-2), p * 2, p or True, not p, other + 1 ...)
  'unknown'  anything else (another bare name, an attribute, a call that does not mention p): the contract cannot tell -> UNDECIDED

Used for obligations of the kind "the option the caller gave is the option the operation receives": a clear change is a violation, something the
contract cannot read is UNDECIDED, never a violation."""
import ast

COERCIONS = {'float', 'int', 'bool', 'str', 'tuple', 'list', 'np.asarray', 'np.array', 'numpy.asarray', 'numpy.array'}


def classify(node, p):
    if isinstance(node, ast.Name):
        return 'same' if node.id == p else 'unknown'
    if isinstance(node, ast.Constant):
        return 'changed'
    if isinstance(node, ast.Call) and ast.unparse(node.func) in COERCIONS and len(node.args) == 1 and not node.keywords:
        return classify(node.args[0], p)
    names = {n.id for n in ast.walk(node) if isinstance(n, ast.Name)}
    if p in names:
        return 'changed'          # p combined with something else
    if isinstance(node, (ast.BinOp, ast.BoolOp, ast.UnaryOp, ast.Compare, ast.IfExp)) :
        return 'changed'
    return 'unknown'


def rebindings(fn, p):
    """Classifications of every assignment to the name p inside fn (plain, augmented, for-targets, with-targets, del, global)."""
    out = []
    for n in ast.walk(fn):
        if isinstance(n, ast.Assign) and any(isinstance(t, ast.Name) and t.id == p for t in n.targets):
            out.append(classify(n.value, p))
        elif isinstance(n, ast.AugAssign) and isinstance(n.target, ast.Name) and n.target.id == p:
            out.append('changed')
        elif isinstance(n, ast.AnnAssign) and isinstance(n.target, ast.Name) and n.target.id == p and n.value is not None:
            out.append(classify(n.value, p))
        elif isinstance(n, (ast.For, ast.comprehension)) and any(isinstance(t, ast.Name) and t.id == p for t in ast.walk(n.target)):
            out.append('changed')
        elif isinstance(n, ast.Delete) and any(isinstance(t, ast.Name) and t.id == p for t in n.targets):
            out.append('changed')
        elif isinstance(n, (ast.Global, ast.Nonlocal)) and p in n.names:
            out.append('unknown')
        elif isinstance(n, ast.NamedExpr) and n.target.id == p:
            out.append(classify(n.value, p))
    return out


def verdict(kinds):
    """None = nothing to report (all 'same'); False = a clear change; raises nothing -- the caller turns 'unknown' into OutOfSubset."""
    if any(k == 'changed' for k in kinds):
        return 'changed'
    if any(k == 'unknown' for k in kinds):
        return 'unknown'
    return 'same'
