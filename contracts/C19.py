"""C19 -- term enumeration is complete and term typing depends only on UFF types.

Deductive part: helpers.typekey, the canonical (reversal-invariant) key on which all type numbering rests, for arities 2, 3, 4 over any
totally ordered element type: the key is the tuple or its reverse, is the same for a tuple and its reverse, and two tuples have the same
key iff they are equal up to reversal.  Relational obligations are discharged over the product of the path sets of two symbolic runs of
the real function.  rough_uff.delete_if_all_in_set is verified with a loop invariant.  Enumeration (calc_angles / calc_dihedrals over
networkx), first-seen numbering and renaming invariance are BOUNDED on the real code (bounded/C19.py).
"""
import z3

from pyvc.values import Sym, SymSeq, SymSet, OutOfSubset, to_z3
from pyvc.interp import FuncSpec, LoopSpec
from pyvc import models_py, models_np

META = {
    'level': 'other',
    'explanation': "canonical key lemmas proved for all tuples (arity 2-4); exclusion filter proved; enumeration completeness, first-seen "
                   "numbering and renaming invariance only checked with a stated bound (networkx graph traversal is not modelled)",
    'trusted_base': ["tuple comparison is lexicographic over a total order on the elements (ints / strs)", "z3 soundness", "pyvc symbolic interpreter"],
}
INT = z3.IntSort()


def tup_eq(a, b):
    return z3.And(*[to_z3(x) == to_z3(y) for x, y in zip(a, b)])


def build(S):
    S.function('mofun/helpers.py', 'typekey')

    def run_typekey():
        for n in (2, 3, 4):
            I = S.interp()
            models_py.install(I)
            clo = I.closure_for('mofun/helpers.py', 'typekey')
            s = [z3.Int('s%d' % i) for i in range(n)]
            t = [z3.Int('t%d' % i) for i in range(n)]
            sym = lambda v: [Sym(x) for x in v]

            def thunk():
                # typekey is called with lists and with tuples in the callers
                return (I.call_closure(clo, [sym(s)], {}), I.call_closure(clo, [tuple(sym(list(reversed(s))))], {}),
                        I.call_closure(clo, [tuple(sym(t))], {}))
            paths = I.explore(thunk)
            for i, p in enumerate(paths):
                if p.outcome != 'return':
                    raise OutOfSubset("typekey raises")
                ks, ksr, kt = p.value
                if not all(isinstance(k, tuple) and len(k) == n for k in (ks, ksr, kt)):
                    raise OutOfSubset("typekey does not return an %d-tuple" % n)
                rs = list(reversed(s))
                S.add(I, "typekey[%d]/post/key-is-tuple-or-its-reverse#%d" % (n, i), p.pc, z3.Or(tup_eq(ks, s), tup_eq(ks, rs)),
                      clause='typekey(t) in {t, reversed t}')
                S.add(I, "typekey[%d]/post/reversal-invariant#%d" % (n, i), p.pc, tup_eq(ks, ksr), clause='typekey(t) == typekey(reversed t)')
                equiv = z3.Or(tup_eq(s, t), tup_eq(rs, t))
                S.add(I, "typekey[%d]/post/same-key-iff-equal-up-to-reversal#%d" % (n, i), p.pc, tup_eq(ks, kt) == equiv,
                      clause='typekey(s) == typekey(t) <=> s == t or s == reversed t')
                S.add_canary(I, "typekey[%d]/canary#%d" % (n, i), p.pc)
            S.add_interp_obligations(I)
    S.guarded('typekey', run_typekey)

    # ---------------------------------------------------------------- delete_if_all_in_set: removes exactly the tuples inside the set
    S.function('mofun/rough_uff.py', 'delete_if_all_in_set')

    def run_exclude():
        for w in (2, 3, 4):
            I = S.interp()
            models_py.install(I)
            models_np.install(I)
            st = {}
            inset = z3.Function('in_exclusion_set', INT, z3.BoolSort())

            def inside(arr, r):
                return z3.And(*[inset(z3.Select(c, r)) for c in arr.cols])

            def inv(view, k):
                D = view['deletion_list']
                arr = st['arr']
                g = st['g']
                a = D.cols[0]
                p, q, r = z3.Int('ip'), z3.Int('iq'), z3.Int('ir')
                k = k if z3.is_expr(k) else z3.IntVal(k)
                return [('len-is-count', z3.And(D.length == g(k), g(k) >= 0)),
                        ('entries-are-inside-rows', z3.ForAll([p], z3.Implies(z3.And(p >= 0, p < D.length),
                            z3.And(z3.Select(a, p) >= 0, z3.Select(a, p) < k, inside(arr, z3.Select(a, p)), g(z3.Select(a, p)) == p)), patterns=[z3.Select(a, p)])),
                        ('inside-rows-are-entries', z3.ForAll([r], z3.Implies(z3.And(r >= 0, r < k, inside(arr, r)),
                            z3.And(g(r) >= 0, g(r) < D.length, z3.Select(a, g(r)) == r)), patterns=[g(r)] + [z3.Select(c, r) for c in arr.cols]))]
            I.funcspecs['mofun/rough_uff.py:delete_if_all_in_set'] = FuncSpec(loops=[
                LoopSpec('(i, tup) in enumerate(arr)', inv=inv, havoc_types={'deletion_list': 'int'})])

            def set_of_row(ctx, args, kwargs):
                v = args[0] if args else None
                if isinstance(v, list) and all(isinstance(x, Sym) for x in v):
                    from pyvc.lib import CondSet
                    return CondSet(list(v), [True] * len(v))
                return I.lib.bi_set(ctx, args, kwargs)
            I.models['set'] = set_of_row
            clo = I.closure_for('mofun/rough_uff.py', 'delete_if_all_in_set')

            def thunk():
                R = z3.Int('R')
                I.assume(R >= 0)
                arr = SymSeq(R, [z3.Array('arr_c%d' % c, INT, INT) for c in range(w)], w, 'ndarray', 'arr')
                st['arr'] = arr
                g = z3.Function(I.reg.fresh('ginside'), INT, INT)
                r = z3.Int(I.reg.fresh('r'))
                I.assume(g(0) == 0)
                I.assume(z3.ForAll([r], z3.Implies(r >= 0, g(r + 1) == g(r) + z3.If(inside(arr, r), 1, 0)), patterns=[g(r + 1)]))
                st['g'] = g
                sset = SymSet(lambda x: inset(x), INT, 's')
                return I.call_closure(clo, [arr, sset], {}), arr

            paths = I.explore(thunk)
            for i, pth in enumerate(paths):
                if pth.outcome == 'loopend':
                    continue
                if pth.outcome != 'return':
                    raise OutOfSubset("delete_if_all_in_set raises")
                res, arr = pth.value
                d = getattr(res, 'deleted_from', None)
                if d is None or d[0] is not arr:
                    raise OutOfSubset("result is not np.delete(arr, deletion_list, axis=0)")
                _, idx, src, dst = d
                memD = models_np.mem_of(I, idx)
                r = z3.Int('qr')
                S.add(I, "delete_if_all_in_set[w=%d]/post/removes-exactly-the-tuples-inside-the-set#%d" % (w, i), pth.pc + I.pc[len(pth.pc):],
                      z3.ForAll([r], z3.Implies(z3.And(r >= 0, r < arr.length), memD(r) == inside(arr, r))),
                      clause='exclusion removes exactly the terms wholly inside the set (others keep their order: np.delete contract)')
                S.add_canary(I, "delete_if_all_in_set[w=%d]/canary#%d" % (w, i), [h for h in pth.pc if not z3.is_quantifier(h)])
            S.add_interp_obligations(I)
    S.guarded('delete_if_all_in_set', run_exclude)
    S.clause('canonical key: reversal invariant and injective up to reversal', 'PROVED (arities 2-4, any total order)')
    S.clause('exclusion set removes exactly the terms wholly inside it', 'PROVED (loop invariant + assumed np.delete contract)')
    S.clause('angle / dihedral enumeration complete and duplicate-free; first-seen numbering; coefficients per key; renaming invariance; retyping tables', 'BOUNDED (bounded/C19.py)')
