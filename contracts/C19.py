"""C19 -- term enumeration is complete and term typing depends only on UFF types.

Deductive part: helpers.typekey, the canonical (reversal-invariant) key on which all type numbering rests, for arities 2, 3, 4 over any
totally ordered element type: the key is the tuple or its reverse, is the same for a tuple and its reverse, and two tuples have the same
key iff they are equal up to reversal.  Relational obligations are discharged over the product of the path sets of two symbolic runs of
the real function.  rough_uff.delete_if_all_in_set is verified with a loop invariant.  rough_uff.assign_bond_types and assign_angle_types
are verified for term lists of any length (modular: typekey, bond_params / angle_params, angle2lammpsdat enter by their contracts; the
first-seen de-duplication idiom `list(dict.fromkeys(xs).keys())` + `.index` by an assumed contract): two terms get the same type number
exactly when their UFF type sequences agree up to reversal, the coefficient line of a term's type is the one computed from the term's own
sequence (in one of its two orientations), type numbers are dense.  Enumeration (calc_angles / calc_dihedrals over networkx),
assign_dihedral_types (torsion counts, dropped torsions) and renaming invariance are BOUNDED on the real code (bounded/C19.py).
"""
import z3

from pyvc.values import Sym, SymSeq, SymSet, OutOfSubset, to_z3
from pyvc.interp import FuncSpec, LoopSpec
from pyvc import models_py, models_np

META = {
    'level': 'other',
    'explanation': "canonical key lemmas proved for all tuples (arity 2-4); exclusion filter proved; bond and angle typing proved to depend only on "
                   "the UFF type sequence up to reversal with the parameters of that sequence attached; enumeration completeness, dihedral typing "
                   "and renaming invariance only checked with a stated bound (networkx graph traversal is not modelled)",
    'trusted_base': ["tuple comparison is lexicographic over a total order on the elements (ints / strs)", "z3 soundness", "pyvc symbolic interpreter"],
}
INT = z3.IntSort()


def tup_eq(a, b):
    return z3.And(*[to_z3(x) == to_z3(y) for x, y in zip(a, b)])


def build(S):
    S.function('mofun/helpers.py', 'typekey')

    def run_typekey():
        for n in (2, 3, 4):
            I = S.interp()
            models_py.install(I)
            clo = I.closure_for('mofun/helpers.py', 'typekey')
            s = [z3.Int('s%d' % i) for i in range(n)]
            t = [z3.Int('t%d' % i) for i in range(n)]
            sym = lambda v: [Sym(x) for x in v]

            def thunk():
                # typekey is called with lists and with tuples in the callers
                return (I.call_closure(clo, [sym(s)], {}), I.call_closure(clo, [tuple(sym(list(reversed(s))))], {}),
                        I.call_closure(clo, [tuple(sym(t))], {}))
            paths = I.explore(thunk)
            for i, p in enumerate(paths):
                if p.outcome != 'return':
                    raise OutOfSubset("typekey raises")
                ks, ksr, kt = p.value
                if not all(isinstance(k, tuple) and len(k) == n for k in (ks, ksr, kt)):
                    raise OutOfSubset("typekey does not return an %d-tuple" % n)
                rs = list(reversed(s))
                S.add(I, "typekey[%d]/post/key-is-tuple-or-its-reverse#%d" % (n, i), p.pc, z3.Or(tup_eq(ks, s), tup_eq(ks, rs)),
                      clause='typekey(t) in {t, reversed t}')
                S.add(I, "typekey[%d]/post/reversal-invariant#%d" % (n, i), p.pc, tup_eq(ks, ksr), clause='typekey(t) == typekey(reversed t)')
                equiv = z3.Or(tup_eq(s, t), tup_eq(rs, t))
                S.add(I, "typekey[%d]/post/same-key-iff-equal-up-to-reversal#%d" % (n, i), p.pc, tup_eq(ks, kt) == equiv,
                      clause='typekey(s) == typekey(t) <=> s == t or s == reversed t')
                S.add_canary(I, "typekey[%d]/canary#%d" % (n, i), p.pc)
            S.add_interp_obligations(I)
    S.guarded('typekey', run_typekey)

    # ---------------------------------------------------------------- delete_if_all_in_set: removes exactly the tuples inside the set
    S.function('mofun/rough_uff.py', 'delete_if_all_in_set')

    def run_exclude():
        for w in (2, 3, 4):
            I = S.interp()
            models_py.install(I)
            models_np.install(I)
            st = {}
            inset = z3.Function('in_exclusion_set', INT, z3.BoolSort())

            def inside(arr, r):
                return z3.And(*[inset(z3.Select(c, r)) for c in arr.cols])

            def inv(view, k):
                D = view['deletion_list']
                arr = st['arr']
                g = st['g']
                a = D.cols[0]
                p, q, r = z3.Int('ip'), z3.Int('iq'), z3.Int('ir')
                k = k if z3.is_expr(k) else z3.IntVal(k)
                return [('len-is-count', z3.And(D.length == g(k), g(k) >= 0)),
                        ('entries-are-inside-rows', z3.ForAll([p], z3.Implies(z3.And(p >= 0, p < D.length),
                            z3.And(z3.Select(a, p) >= 0, z3.Select(a, p) < k, inside(arr, z3.Select(a, p)), g(z3.Select(a, p)) == p)), patterns=[z3.Select(a, p)])),
                        ('inside-rows-are-entries', z3.ForAll([r], z3.Implies(z3.And(r >= 0, r < k, inside(arr, r)),
                            z3.And(g(r) >= 0, g(r) < D.length, z3.Select(a, g(r)) == r)), patterns=[g(r)] + [z3.Select(c, r) for c in arr.cols]))]
            I.funcspecs['mofun/rough_uff.py:delete_if_all_in_set'] = FuncSpec(loops=[
                LoopSpec('(i, tup) in enumerate(arr)', inv=inv, havoc_types={'deletion_list': 'int'})])

            def set_of_row(ctx, args, kwargs):
                v = args[0] if args else None
                if isinstance(v, list) and all(isinstance(x, Sym) for x in v):
                    from pyvc.lib import CondSet
                    return CondSet(list(v), [True] * len(v))
                return I.lib.bi_set(ctx, args, kwargs)
            I.models['set'] = set_of_row
            clo = I.closure_for('mofun/rough_uff.py', 'delete_if_all_in_set')

            def thunk():
                R = z3.Int('R')
                I.assume(R >= 0)
                arr = SymSeq(R, [z3.Array('arr_c%d' % c, INT, INT) for c in range(w)], w, 'ndarray', 'arr')
                st['arr'] = arr
                g = z3.Function(I.reg.fresh('ginside'), INT, INT)
                r = z3.Int(I.reg.fresh('r'))
                I.assume(g(0) == 0)
                I.assume(z3.ForAll([r], z3.Implies(r >= 0, g(r + 1) == g(r) + z3.If(inside(arr, r), 1, 0)), patterns=[g(r + 1)]))
                st['g'] = g
                sset = SymSet(lambda x: inset(x), INT, 's')
                return I.call_closure(clo, [arr, sset], {}), arr

            paths = I.explore(thunk)
            for i, pth in enumerate(paths):
                if pth.outcome == 'loopend':
                    continue
                if pth.outcome != 'return':
                    raise OutOfSubset("delete_if_all_in_set raises")
                res, arr = pth.value
                d = getattr(res, 'deleted_from', None)
                if d is None or d[0] is not arr:
                    raise OutOfSubset("result is not np.delete(arr, deletion_list, axis=0)")
                _, idx, src, dst = d
                memD = models_np.mem_of(I, idx)
                r = z3.Int('qr')
                S.add(I, "delete_if_all_in_set[w=%d]/post/removes-exactly-the-tuples-inside-the-set#%d" % (w, i), pth.pc + I.pc[len(pth.pc):],
                      z3.ForAll([r], z3.Implies(z3.And(r >= 0, r < arr.length), memD(r) == inside(arr, r))),
                      clause='exclusion removes exactly the terms wholly inside the set (others keep their order: np.delete contract)')
                S.add_canary(I, "delete_if_all_in_set[w=%d]/canary#%d" % (w, i), [h for h in pth.pc if not z3.is_quantifier(h)])
            S.add_interp_obligations(I)
    S.guarded('delete_if_all_in_set', run_exclude)
    prove_assign_types(S)
    S.clause('canonical key: reversal invariant and injective up to reversal', 'PROVED (arities 2-4, any total order)')
    S.clause('exclusion set removes exactly the terms wholly inside it', 'PROVED (loop invariant + assumed np.delete contract)')
    S.clause('bond / angle typing: same type iff UFF sequences agree up to reversal; the type carries the parameters of that sequence; dense numbering', 'PROVED (assign_bond_types, assign_angle_types; first-seen idiom assumed)')
    S.clause('angle / dihedral enumeration complete and duplicate-free; dihedral typing incl. torsion counts and dropped torsions; renaming invariance; retyping tables', 'BOUNDED (bounded/C19.py)')


# ------------------------------------------------------------------------------------------------
# assign_bond_types / assign_angle_types: typing depends only on the UFF type sequences, up to reversal
from pyvc.values import StrS, Opaque, Ref
from pyvc import models_uniq
REAL = z3.RealSort()


def key_functions(I, n):
    """Contract of helpers.typekey for arity n (proved above for any total order): key in {t, reversed t}, key(t) == key(reversed t)."""
    ks = [I.reg.ufunc('typekey%d_%d' % (n, i), *([StrS] * n + [StrS])) for i in range(n)]
    a = [z3.Const('tk_a%d' % i, StrS) for i in range(n)]
    ra = list(reversed(a))
    key = lambda t: [k(*t) for k in ks]
    eq = lambda x, y: z3.And(*[p == q for p, q in zip(x, y)])
    I.base_axioms.append(z3.ForAll(a, z3.And(z3.Or(eq(key(a), a), eq(key(a), ra)), eq(key(a), key(ra))), patterns=[ks[0](*a)]))
    return key


def prove_assign_types(S):
    RU = 'mofun/rough_uff.py'
    for fn, kind, n in (('assign_bond_types', 'bond', 2), ('assign_angle_types', 'angle', 3)):
        S.function(RU, fn)
        S.guarded(fn, lambda fn=fn, kind=kind, n=n: _assign(S, RU, fn, kind, n))


def _assign(S, RU, fn, kind, n):
    I = S.interp()
    I.allow_merge = False
    models_py.install(I)
    models_np.install(I)
    models_uniq.install(I)
    key = key_functions(I, n)
    I.reg.assumptions_used.add("contract of helpers.typekey (proved above, arities 2-4): the key is the tuple or its reverse and is reversal invariant")
    I.reg.assumptions_used.add("contracts of bond_params / angle_params (property C18): pure functions of the UFF type sequence and the bond-order rules")
    eq = lambda x, y: z3.And(*[p == q for p, q in zip(x, y)])

    def m_typekey(ctx, args, kwargs):
        t = args[0]
        if not (isinstance(t, (list, tuple)) and len(t) == n and all(isinstance(x, Sym) and x.e.sort() == StrS for x in t)):
            raise OutOfSubset("typekey is not called with %d UFF type names" % n)
        return tuple(Sym(k) for k in key([x.e for x in t]))
    I.models['mofun/helpers.py:typekey'] = m_typekey
    rules = Opaque(z3.Const('bond_order_rules', models_py.ObjS), 'rules')
    if kind == 'bond':
        pk = I.reg.ufunc('bond_params_k', StrS, StrS, models_py.ObjS, REAL)
        pr = I.reg.ufunc('bond_params_r', StrS, StrS, models_py.ObjS, REAL)

        def m_params(ctx, args, kwargs):
            if len(args) != 2 or set(kwargs) != {'bond_order_rules'}:
                raise OutOfSubset("bond_params is not called as bond_params(a1, a2, bond_order_rules=...)")
            a1, a2 = [to_z3(x) for x in args]
            r = models_py.to_obj(I, kwargs['bond_order_rules'])
            return (Sym(pk(a1, a2, r)), Sym(pr(a1, a2, r)))
        I.models['%s:bond_params' % RU] = m_params
    else:
        OBJ = models_py.ObjS
        ap = I.reg.ufunc('angle_params', StrS, StrS, StrS, OBJ, OBJ)
        tupstar = I.reg.ufunc('tuple_of_star_and_label', OBJ, StrS, OBJ)
        a2l = I.reg.ufunc('angle2lammpsdat', OBJ, StrS)

        def m_params(ctx, args, kwargs):
            if len(args) != 3 or set(kwargs) != {'bond_order_rules'}:
                raise OutOfSubset("angle_params is not called as angle_params(a1, a2, a3, bond_order_rules=...)")
            return Opaque(ap(*[to_z3(x) for x in args], models_py.to_obj(I, kwargs['bond_order_rules'])), 'angle_params')

        def m_star(ctx, parts):
            if len(parts) == 2 and parts[0][0] == 'star' and isinstance(parts[0][1], Opaque) and parts[1][0] == 'item' and isinstance(parts[1][1], Sym):
                return Opaque(tupstar(parts[0][1].term, parts[1][1].e), 'params+label')
            raise OutOfSubset("tuple display with a starred library value")

        def m_a2l(ctx, args, kwargs):
            if len(args) == 1 and isinstance(args[0], Opaque):
                return Sym(a2l(args[0].term))
            raise OutOfSubset("angle2lammpsdat of %r" % (args,))
        I.models['%s:angle_params' % RU] = m_params
        I.models['tuple.opaque-star'] = m_star
        I.models['%s:angle2lammpsdat' % RU] = m_a2l
    clo = I.closure_for(RU, fn)
    st = {}

    def thunk():
        NA, NT = z3.Int('n_atoms'), z3.Int('n_terms')
        I.assume(NA >= 0)
        I.assume(NT >= 0)
        uff = SymSeq(NA, [z3.Array('uff_atom_types', INT, StrS)], None, 'list', 'uff_atom_types')
        terms = SymSeq(NT, [z3.Array('%s_c%d' % (kind, c), INT, INT) for c in range(n)], n, 'ndarray', kind + 's')
        r = z3.Int('rq')
        I.assume(z3.ForAll([r], z3.Implies(z3.And(r >= 0, r < NT), z3.And(*[z3.And(z3.Select(c, r) >= 0, z3.Select(c, r) < NA) for c in terms.cols])),
                           patterns=[z3.Select(terms.cols[0], r)]))          # requires: terms refer to existing atoms
        atoms = I.state.alloc('Atoms', {'__class__': 'Atoms', kind + 's': terms, kind + '_types': None, kind + '_type_coeffs': None})
        I.call_closure(clo, [atoms, uff], {'bond_order_rules': rules})
        return atoms, uff, terms

    paths = I.explore(thunk)
    tag = fn
    for pi, p in enumerate(paths):
        if p.outcome != 'return':
            raise OutOfSubset("%s raises" % fn)
        atoms, uff, terms = p.value
        heap = p.state.heap[atoms.oid]
        T, C = heap[kind + '_types'], heap[kind + '_type_coeffs']
        if not (isinstance(T, SymSeq) and isinstance(C, SymSeq)):
            raise OutOfSubset("%s does not assign symbolic type / coefficient lists" % fn)
        i, j, u = z3.Int('pi'), z3.Int('pj'), z3.Int('pu')
        seq = lambda r: [z3.Select(uff.cols[0], z3.Select(c, r)) for c in terms.cols]
        upto = lambda x, y: z3.Or(eq(x, y), eq(x, list(reversed(y))))
        Ti, Tj = z3.Select(T.cols[0], i), z3.Select(T.cols[0], j)
        S.add(I, "%s/frame/term-list-unchanged-without-exclusion#%d" % (tag, pi), p.pc, z3.BoolVal(heap[kind + 's'] is terms), kind='frame')
        S.add(I, "%s/post/one-type-per-term#%d" % (tag, pi), p.pc, T.length == terms.length, clause='every term gets a type')
        S.add(I, "%s/post/same-type-iff-uff-sequences-agree-up-to-reversal#%d" % (tag, pi), p.pc,
              z3.ForAll([i, j], z3.Implies(z3.And(i >= 0, i < terms.length, j >= 0, j < terms.length), (Ti == Tj) == upto(seq(i), seq(j)))),
              clause='two terms have the same type exactly when their UFF type sequences agree up to reversal')
        if kind == 'bond':
            f = I.reg.ufunc('fmt[%10.6f %10.6f # %s %s]', REAL, REAL, StrS, StrS, StrS)
            robj = rules.term
            text = lambda t: f(pk(t[0], t[1], robj), pr(t[0], t[1], robj), t[0], t[1])
            S.add(I, "%s/post/type-carries-the-parameters-of-the-terms-own-sequence#%d" % (tag, pi), p.pc,
                  z3.ForAll([i], z3.Implies(z3.And(i >= 0, i < terms.length), z3.And(Ti >= 0, Ti < C.length,
                            z3.Or(z3.Select(C.cols[0], Ti) == text(seq(i)), z3.Select(C.cols[0], Ti) == text(list(reversed(seq(i)))))))),
                  clause='each type carries the parameters of that UFF sequence (in one of its two orientations)')
        else:
            f3 = I.reg.ufunc('fmt[%s %s %s]', StrS, StrS, StrS, StrS)
            text = lambda t: a2l(tupstar(ap(t[0], t[1], t[2], rules.term), f3(*t)))
            S.add(I, "%s/post/type-carries-the-parameters-of-the-terms-own-sequence#%d" % (tag, pi), p.pc,
                  z3.ForAll([i], z3.Implies(z3.And(i >= 0, i < terms.length), z3.And(Ti >= 0, Ti < C.length,
                            z3.Or(z3.Select(C.cols[0], Ti) == text(seq(i)), z3.Select(C.cols[0], Ti) == text(list(reversed(seq(i)))))))),
                  clause='each type carries the parameters of that UFF sequence (in one of its two orientations)')
        S.add(I, "%s/post/every-type-number-is-used#%d" % (tag, pi), p.pc,
              z3.ForAll([u], z3.Implies(z3.And(u >= 0, u < C.length), z3.Exists([i], z3.And(i >= 0, i < terms.length, Ti == u)))),
              clause='type numbers are dense: one coefficient line per type in use')
        S.add_canary(I, "%s/canary#%d" % (tag, pi), [h for h in p.pc if not z3.is_quantifier(h)])
        S.add_probe(I, "%s/probe/hypotheses-consistent#%d" % (tag, pi), p.pc)
    S.add_interp_obligations(I)
