"""C19 -- term enumeration is complete and term typing depends only on UFF types.

Deductive part: helpers.typekey, the canonical (reversal-invariant) key on which all type numbering rests, for arities 2, 3, 4 over any
totally ordered element type: the key is the tuple or its reverse, is the same for a tuple and its reverse, and two tuples have the same
key iff they are equal up to reversal.  Relational obligations are discharged over the product of the path sets of two symbolic runs of
the real function.  rough_uff.delete_if_all_in_set is verified with a loop invariant.  rough_uff.assign_bond_types and assign_angle_types
are verified for term lists of any length (modular: typekey, bond_params / angle_params, angle2lammpsdat enter by their contracts; the
first-seen de-duplication idiom `list(dict.fromkeys(xs).keys())` + `.index` by an assumed contract): two terms get the same type number
exactly when their UFF type sequences agree up to reversal, the coefficient line of a term's type is the one computed from the term's own
sequence (in one of its two orientations), type numbers are dense.  Enumeration: rough_uff.calc_angles and calc_dihedrals are verified for bond
lists of any length, the loop over nodes / edges under an invariant with ghost rows (which node / edge and which combination every row came
from; the contract of `list += ...` updates them): every angle (a, n, b) joins two different atoms bonded to n, every pair of distinct neighbours of
every atom is listed, none twice forwards or backwards; every dihedral is a bonded chain i-j-k-l with i != k, l != j, every chain around every bond
is listed, none twice.  networkx (nodes, adj, edges as the bond graph) and itertools.combinations enter by assumed contracts.
assign_dihedral_types: block contracts on the statements that count the torsions about a bond, build a dihedral's type key and apply the
exclusion set (any dihedral, any type assignment): counted under the central bond in either direction and before the exclusion, key = UFF
sequence up to reversal + the count filed under the dihedral's own central bond, same key for the dihedral listed backwards, exclusion through
delete_if_all_in_set exactly for sets of at least four atoms.  Its reversed deletion loop (torsions without parameters), the first-seen
numbering and the coefficient strings, renaming invariance and the retyping tables are BOUNDED on the real code (bounded/C19.py).
"""
import z3

from pyvc.values import Sym, SymSeq, SymSet, OutOfSubset, to_z3
from pyvc.interp import FuncSpec, LoopSpec
from pyvc import models_py, models_np

META = {
    'level': 'proof',
    'explanation': "canonical key lemmas proved for all tuples (arity 2-4); exclusion filter proved; angle and dihedral enumeration proved complete and "
                   "duplicate-free for bond lists of any length (networkx / itertools by assumed contracts); bond and angle typing proved to depend "
                   "only on the UFF type sequence up to reversal with the parameters of that sequence attached; the type key of a dihedral (sequence up to "
                   "reversal + torsions about its central bond, counted before exclusion) and the exclusion test proved as block contracts; the rest of "
                   "dihedral typing (numbering, dropped torsions, coefficient strings), renaming invariance "
                   "and the retyping tables only checked with a stated bound",
    'trusted_base': ["tuple comparison is lexicographic over a total order on the elements (ints / strs)", "z3 soundness", "pyvc symbolic interpreter"],
}
INT = z3.IntSort()


def tup_eq(a, b):
    return z3.And(*[to_z3(x) == to_z3(y) for x, y in zip(a, b)])


def build(S):
    S.function('mofun/helpers.py', 'typekey')

    def run_typekey():
        for n in (2, 3, 4):
            I = S.interp()
            models_py.install(I)
            clo = I.closure_for('mofun/helpers.py', 'typekey')
            s = [z3.Int('s%d' % i) for i in range(n)]
            t = [z3.Int('t%d' % i) for i in range(n)]
            sym = lambda v: [Sym(x) for x in v]

            def thunk():
                # typekey is called with lists and with tuples in the callers
                return (I.call_closure(clo, [sym(s)], {}), I.call_closure(clo, [tuple(sym(list(reversed(s))))], {}),
                        I.call_closure(clo, [tuple(sym(t))], {}))
            paths = I.explore(thunk)
            for i, p in enumerate(paths):
                if p.outcome != 'return':
                    raise OutOfSubset("typekey raises")
                ks, ksr, kt = p.value
                if not all(isinstance(k, tuple) and len(k) == n for k in (ks, ksr, kt)):
                    raise OutOfSubset("typekey does not return an %d-tuple" % n)
                rs = list(reversed(s))
                S.add(I, "typekey[%d]/post/key-is-tuple-or-its-reverse#%d" % (n, i), p.pc, z3.Or(tup_eq(ks, s), tup_eq(ks, rs)),
                      clause='typekey(t) in {t, reversed t}')
                S.add(I, "typekey[%d]/post/reversal-invariant#%d" % (n, i), p.pc, tup_eq(ks, ksr), clause='typekey(t) == typekey(reversed t)')
                equiv = z3.Or(tup_eq(s, t), tup_eq(rs, t))
                S.add(I, "typekey[%d]/post/same-key-iff-equal-up-to-reversal#%d" % (n, i), p.pc, tup_eq(ks, kt) == equiv,
                      clause='typekey(s) == typekey(t) <=> s == t or s == reversed t')
                S.add_canary(I, "typekey[%d]/canary#%d" % (n, i), p.pc)
            S.add_interp_obligations(I)
    S.guarded('typekey', run_typekey)

    # ---------------------------------------------------------------- delete_if_all_in_set: removes exactly the tuples inside the set
    S.function('mofun/rough_uff.py', 'delete_if_all_in_set')

    def run_exclude():
        for w in (2, 3, 4):
            I = S.interp()
            models_py.install(I)
            models_np.install(I)
            st = {}
            inset = z3.Function('in_exclusion_set', INT, z3.BoolSort())

            def inside(arr, r):
                return z3.And(*[inset(z3.Select(c, r)) for c in arr.cols])

            def inv(view, k):
                D = view['deletion_list']
                arr = st['arr']
                g = st['g']
                a = D.cols[0]
                p, q, r = z3.Int('ip'), z3.Int('iq'), z3.Int('ir')
                k = k if z3.is_expr(k) else z3.IntVal(k)
                return [('len-is-count', z3.And(D.length == g(k), g(k) >= 0)),
                        ('entries-are-inside-rows', z3.ForAll([p], z3.Implies(z3.And(p >= 0, p < D.length),
                            z3.And(z3.Select(a, p) >= 0, z3.Select(a, p) < k, inside(arr, z3.Select(a, p)), g(z3.Select(a, p)) == p)), patterns=[z3.Select(a, p)])),
                        ('inside-rows-are-entries', z3.ForAll([r], z3.Implies(z3.And(r >= 0, r < k, inside(arr, r)),
                            z3.And(g(r) >= 0, g(r) < D.length, z3.Select(a, g(r)) == r)), patterns=[g(r)] + [z3.Select(c, r) for c in arr.cols]))]
            I.funcspecs['mofun/rough_uff.py:delete_if_all_in_set'] = FuncSpec(loops=[
                LoopSpec('(i, tup) in enumerate(arr)', inv=inv, havoc_types={'deletion_list': 'int'})])

            def set_of_row(ctx, args, kwargs):
                v = args[0] if args else None
                if isinstance(v, list) and all(isinstance(x, Sym) for x in v):
                    from pyvc.lib import CondSet
                    return CondSet(list(v), [True] * len(v))
                return I.lib.bi_set(ctx, args, kwargs)
            I.models['set'] = set_of_row
            clo = I.closure_for('mofun/rough_uff.py', 'delete_if_all_in_set')

            def thunk():
                R = z3.Int('R')
                I.assume(R >= 0)
                arr = SymSeq(R, [z3.Array('arr_c%d' % c, INT, INT) for c in range(w)], w, 'ndarray', 'arr')
                st['arr'] = arr
                g = z3.Function(I.reg.fresh('ginside'), INT, INT)
                r = z3.Int(I.reg.fresh('r'))
                I.assume(g(0) == 0)
                I.assume(z3.ForAll([r], z3.Implies(r >= 0, g(r + 1) == g(r) + z3.If(inside(arr, r), 1, 0)), patterns=[g(r + 1)]))
                st['g'] = g
                sset = SymSet(lambda x: inset(x), INT, 's')
                return I.call_closure(clo, [arr, sset], {}), arr

            paths = I.explore(thunk)
            for i, pth in enumerate(paths):
                if pth.outcome == 'loopend':
                    continue
                if pth.outcome != 'return':
                    raise OutOfSubset("delete_if_all_in_set raises")
                res, arr = pth.value
                d = getattr(res, 'deleted_from', None)
                if d is None or d[0] is not arr:
                    raise OutOfSubset("result is not np.delete(arr, deletion_list, axis=0)")
                _, idx, src, dst = d
                memD = models_np.mem_of(I, idx)
                r = z3.Int('qr')
                S.add(I, "delete_if_all_in_set[w=%d]/post/removes-exactly-the-tuples-inside-the-set#%d" % (w, i), pth.pc + I.pc[len(pth.pc):],
                      z3.ForAll([r], z3.Implies(z3.And(r >= 0, r < arr.length), memD(r) == inside(arr, r))),
                      clause='exclusion removes exactly the terms wholly inside the set (others keep their order: np.delete contract)')
                S.add_canary(I, "delete_if_all_in_set[w=%d]/canary#%d" % (w, i), [h for h in pth.pc if not z3.is_quantifier(h)])
            S.add_interp_obligations(I)
    S.guarded('delete_if_all_in_set', run_exclude)
    prove_assign_types(S)
    prove_calc_angles(S)
    prove_calc_dihedrals(S)
    prove_dihedral_blocks(S)
    S.clause('canonical key: reversal invariant and injective up to reversal', 'PROVED (arities 2-4, any total order)')
    S.clause('exclusion set removes exactly the terms wholly inside it', 'PROVED (loop invariant + assumed np.delete contract)')
    S.clause('bond / angle typing: same type iff UFF sequences agree up to reversal; the type carries the parameters of that sequence; dense numbering', 'PROVED (assign_bond_types, assign_angle_types; first-seen idiom assumed)')
    S.clause('angle enumeration: every pair of distinct bonds sharing an atom exactly once; dihedral enumeration: every bonded chain around every bond exactly once', 'PROVED (calc_angles, calc_dihedrals: loop invariants with ghost rows; networkx / itertools contracts assumed)')
    S.clause('dihedral type key: UFF sequence up to reversal + number of torsions about the own central bond, counted before exclusion, direction independent; exclusion applied for sets of >= 4 atoms', 'PROVED (block contracts on the count / key / exclusion statements of assign_dihedral_types)')
    S.clause('dihedral typing: first-seen numbering, dropped torsions, coefficient strings; renaming invariance; retyping tables', 'BOUNDED (bounded/C19.py)')


# ------------------------------------------------------------------------------------------------
# assign_bond_types / assign_angle_types: typing depends only on the UFF type sequences, up to reversal
from pyvc.values import StrS, Opaque, Ref
from pyvc import models_uniq
REAL = z3.RealSort()


def key_functions(I, n):
    """Contract of helpers.typekey for arity n (proved above for any total order): key in {t, reversed t}, key(t) == key(reversed t)."""
    ks = [I.reg.ufunc('typekey%d_%d' % (n, i), *([StrS] * n + [StrS])) for i in range(n)]
    a = [z3.Const('tk_a%d' % i, StrS) for i in range(n)]
    ra = list(reversed(a))
    key = lambda t: [k(*t) for k in ks]
    eq = lambda x, y: z3.And(*[p == q for p, q in zip(x, y)])
    I.base_axioms.append(z3.ForAll(a, z3.And(z3.Or(eq(key(a), a), eq(key(a), ra)), eq(key(a), key(ra))), patterns=[ks[0](*a)]))
    return key


def prove_assign_types(S):
    RU = 'mofun/rough_uff.py'
    for fn, kind, n in (('assign_bond_types', 'bond', 2), ('assign_angle_types', 'angle', 3)):
        S.function(RU, fn)
        S.guarded(fn, lambda fn=fn, kind=kind, n=n: _assign(S, RU, fn, kind, n))
        S.guarded(fn + ' with exclusion set', lambda fn=fn, kind=kind, n=n: _assign(S, RU, fn, kind, n, with_exclude=True))


def _assign(S, RU, fn, kind, n, with_exclude=False):
    I = S.interp()
    st_x = {}
    ARITY_ = n
    I.allow_merge = False
    models_py.install(I)
    models_np.install(I)
    models_uniq.install(I)
    key = key_functions(I, n)
    I.reg.assumptions_used.add("contract of helpers.typekey (proved above, arities 2-4): the key is the tuple or its reverse and is reversal invariant")
    I.reg.assumptions_used.add("contracts of bond_params / angle_params (property C18): pure functions of the UFF type sequence and the bond-order rules")
    eq = lambda x, y: z3.And(*[p == q for p, q in zip(x, y)])

    def m_typekey(ctx, args, kwargs):
        t = args[0]
        if not (isinstance(t, (list, tuple)) and len(t) == n and all(isinstance(x, Sym) and x.e.sort() == StrS for x in t)):
            raise OutOfSubset("typekey is not called with %d UFF type names" % n)
        return tuple(Sym(k) for k in key([x.e for x in t]))
    I.models['mofun/helpers.py:typekey'] = m_typekey
    rules = Opaque(z3.Const('bond_order_rules', models_py.ObjS), 'rules')
    if kind == 'bond':
        pk = I.reg.ufunc('bond_params_k', StrS, StrS, models_py.ObjS, REAL)
        pr = I.reg.ufunc('bond_params_r', StrS, StrS, models_py.ObjS, REAL)

        def m_params(ctx, args, kwargs):
            if len(args) != 2 or set(kwargs) != {'bond_order_rules'}:
                raise OutOfSubset("bond_params is not called as bond_params(a1, a2, bond_order_rules=...)")
            a1, a2 = [to_z3(x) for x in args]
            r = models_py.to_obj(I, kwargs['bond_order_rules'])
            return (Sym(pk(a1, a2, r)), Sym(pr(a1, a2, r)))
        I.models['%s:bond_params' % RU] = m_params
    else:
        OBJ = models_py.ObjS
        ap = I.reg.ufunc('angle_params', StrS, StrS, StrS, OBJ, OBJ)
        tupstar = I.reg.ufunc('tuple_of_star_and_label', OBJ, StrS, OBJ)
        a2l = I.reg.ufunc('angle2lammpsdat', OBJ, StrS)

        def m_params(ctx, args, kwargs):
            if len(args) != 3 or set(kwargs) != {'bond_order_rules'}:
                raise OutOfSubset("angle_params is not called as angle_params(a1, a2, a3, bond_order_rules=...)")
            return Opaque(ap(*[to_z3(x) for x in args], models_py.to_obj(I, kwargs['bond_order_rules'])), 'angle_params')

        def m_star(ctx, parts):
            if len(parts) == 2 and parts[0][0] == 'star' and isinstance(parts[0][1], Opaque) and parts[1][0] == 'item' and isinstance(parts[1][1], Sym):
                return Opaque(tupstar(parts[0][1].term, parts[1][1].e), 'params+label')
            raise OutOfSubset("tuple display with a starred library value")

        def m_a2l(ctx, args, kwargs):
            if len(args) == 1 and isinstance(args[0], Opaque):
                return Sym(a2l(args[0].term))
            raise OutOfSubset("angle2lammpsdat of %r" % (args,))
        I.models['%s:angle_params' % RU] = m_params
        I.models['tuple.opaque-star'] = m_star
        I.models['%s:angle2lammpsdat' % RU] = m_a2l
    prev_len = I.models.get('len.fallback')

    def m_len(ctx, v):
        if isinstance(v, SymSet) and getattr(v, 'size', None) is not None:
            return Sym(v.size)
        if prev_len:
            return prev_len(ctx, v)
        raise OutOfSubset("len of %r" % (v,))
    I.models['len.fallback'] = m_len

    def m_exclude(ctx, args, kwargs):
        # contract of delete_if_all_in_set (proved above): the rows not wholly inside the set, in order
        arr, sset = args
        I.reg.assumptions_used.add("contract of rough_uff.delete_if_all_in_set (proved above): removes exactly the rows wholly inside the set, keeps the order of the others")
        m = z3.Int(I.reg.fresh('n_kept'))
        I.assume(z3.And(m >= 0, m <= arr.length))
        cols = [z3.Array(I.reg.fresh('kept_c%d' % c), INT, INT) for c in range(len(arr.cols))]
        src = z3.Function(I.reg.fresh('kept_src'), INT, INT)
        q = z3.Int(I.reg.fresh('q'))
        inside = lambda r_: z3.And(*[sset.pred(z3.Select(c, r_)) for c in arr.cols])
        I.assume(z3.ForAll([q], z3.Implies(z3.And(q >= 0, q < m), z3.And(src(q) >= 0, src(q) < arr.length, z3.Not(inside(src(q))),
                                                                        *[z3.Select(cn, q) == z3.Select(co, src(q)) for cn, co in zip(cols, arr.cols)])), patterns=[z3.Select(cols[0], q)]))
        out = SymSeq(m, cols, arr.width, arr.kind, 'kept_' + (arr.name or 'terms'))
        st_x['filtered'] = (out, arr, src)
        return out
    I.models[RU + ':delete_if_all_in_set'] = m_exclude
    clo = I.closure_for(RU, fn)
    st = {}

    def thunk():
        NA, NT = z3.Int('n_atoms'), z3.Int('n_terms')
        I.assume(NA >= 0)
        I.assume(NT >= 0)
        uff = SymSeq(NA, [z3.Array('uff_atom_types', INT, StrS)], None, 'list', 'uff_atom_types')
        terms = SymSeq(NT, [z3.Array('%s_c%d' % (kind, c), INT, INT) for c in range(n)], n, 'ndarray', kind + 's')
        r = z3.Int('rq')
        I.assume(z3.ForAll([r], z3.Implies(z3.And(r >= 0, r < NT), z3.And(*[z3.And(z3.Select(c, r) >= 0, z3.Select(c, r) < NA) for c in terms.cols])),
                           patterns=[z3.Select(terms.cols[0], r)]))          # requires: terms refer to existing atoms
        atoms = I.state.alloc('Atoms', {'__class__': 'Atoms', kind + 's': terms, kind + '_types': None, kind + '_type_coeffs': None})
        st_x.clear()
        if with_exclude:
            inset = z3.Function('in_exclusion_set', INT, z3.BoolSort())
            excl = SymSet(lambda x: inset(x), INT, 'exclude')
            excl.size = z3.Int('exclusion_set_size')
            I.assume(excl.size >= 0)
            I.call_closure(clo, [atoms, uff], {'bond_order_rules': rules, 'exclude': excl})
        else:
            I.call_closure(clo, [atoms, uff], {'bond_order_rules': rules})
        return atoms, uff, terms, dict(st_x)

    paths = I.explore(thunk)
    for pi, p in enumerate(paths):
        if p.outcome != 'return':
            raise OutOfSubset("%s raises" % fn)
        atoms, uff, terms0, stx = p.value
        heap = p.state.heap[atoms.oid]
        T, C = heap[kind + '_types'], heap[kind + '_type_coeffs']
        terms = heap[kind + 's']
        tag = fn + ('[exclusion set]' if with_exclude else '')
        if with_exclude:
            filt = stx.get('filtered')
            size = z3.Int('exclusion_set_size')
            if filt is not None:
                S.add(I, tag + "/post/exclusion-applied-only-when-the-set-can-hold-a-term#" + str(pi), p.pc, z3.And(size >= ARITY_, z3.BoolVal(terms is filt[0] and filt[1] is terms0)),
                      clause='honours the exclusion set')
            else:
                S.add(I, tag + "/post/no-exclusion-for-a-set-smaller-than-a-term#" + str(pi), p.pc, z3.And(size < ARITY_, z3.BoolVal(terms is terms0)), clause='honours the exclusion set')
        if not (isinstance(T, SymSeq) and isinstance(C, SymSeq)):
            raise OutOfSubset("%s does not assign symbolic type / coefficient lists" % fn)
        i, j, u = z3.Int('pi'), z3.Int('pj'), z3.Int('pu')
        seq = lambda r: [z3.Select(uff.cols[0], z3.Select(c, r)) for c in terms.cols]
        upto = lambda x, y: z3.Or(eq(x, y), eq(x, list(reversed(y))))
        Ti, Tj = z3.Select(T.cols[0], i), z3.Select(T.cols[0], j)
        if not with_exclude:
            S.add(I, "%s/frame/term-list-unchanged-without-exclusion#%d" % (tag, pi), p.pc, z3.BoolVal(heap[kind + 's'] is terms0), kind='frame')
        S.add(I, "%s/post/one-type-per-term#%d" % (tag, pi), p.pc, T.length == terms.length, clause='every term gets a type')
        S.add(I, "%s/post/same-type-iff-uff-sequences-agree-up-to-reversal#%d" % (tag, pi), p.pc,
              z3.ForAll([i, j], z3.Implies(z3.And(i >= 0, i < terms.length, j >= 0, j < terms.length), (Ti == Tj) == upto(seq(i), seq(j)))),
              clause='two terms have the same type exactly when their UFF type sequences agree up to reversal')
        if kind == 'bond':
            f = I.reg.ufunc('fmt[%10.6f %10.6f # %s %s]', REAL, REAL, StrS, StrS, StrS)
            robj = rules.term
            text = lambda t: f(pk(t[0], t[1], robj), pr(t[0], t[1], robj), t[0], t[1])
            S.add(I, "%s/post/type-carries-the-parameters-of-the-terms-own-sequence#%d" % (tag, pi), p.pc,
                  z3.ForAll([i], z3.Implies(z3.And(i >= 0, i < terms.length), z3.And(Ti >= 0, Ti < C.length,
                            z3.Or(z3.Select(C.cols[0], Ti) == text(seq(i)), z3.Select(C.cols[0], Ti) == text(list(reversed(seq(i)))))))),
                  clause='each type carries the parameters of that UFF sequence (in one of its two orientations)')
        else:
            f3 = I.reg.ufunc('fmt[%s %s %s]', StrS, StrS, StrS, StrS)
            text = lambda t: a2l(tupstar(ap(t[0], t[1], t[2], rules.term), f3(*t)))
            S.add(I, "%s/post/type-carries-the-parameters-of-the-terms-own-sequence#%d" % (tag, pi), p.pc,
                  z3.ForAll([i], z3.Implies(z3.And(i >= 0, i < terms.length), z3.And(Ti >= 0, Ti < C.length,
                            z3.Or(z3.Select(C.cols[0], Ti) == text(seq(i)), z3.Select(C.cols[0], Ti) == text(list(reversed(seq(i)))))))),
                  clause='each type carries the parameters of that UFF sequence (in one of its two orientations)')
        S.add(I, "%s/post/every-type-number-is-used#%d" % (tag, pi), p.pc,
              z3.ForAll([u], z3.Implies(z3.And(u >= 0, u < C.length), z3.Exists([i], z3.And(i >= 0, i < terms.length, Ti == u)))),
              clause='type numbers are dense: one coefficient line per type in use')
        S.add_canary(I, "%s/canary#%d" % (tag, pi), [h for h in p.pc if not z3.is_quantifier(h)])
        S.add_probe(I, "%s/probe/hypotheses-consistent#%d" % (tag, pi), p.pc)
    S.add_interp_obligations(I)


# ------------------------------------------------------------------------------------------------
# calc_angles: every pair of distinct neighbours of every node, once (networkx / itertools enter by assumed contracts)
from pyvc.values import RowVal


class GraphRec:
    def __init__(self):
        self.edges = None


def prove_calc_angles(S):
    S.function('mofun/rough_uff.py', 'calc_angles')
    S.guarded('calc_angles', lambda: _calc_angles(S))


def _calc_angles(S):
    RU = 'mofun/rough_uff.py'
    I = S.interp()
    I.allow_merge = False
    models_py.install(I)
    models_np.install(I)
    st = {}
    A2 = z3.ArraySort(INT, INT)
    NV = z3.Int('n_nodes')
    V = SymSeq(NV, [z3.Array('graph_nodes', INT, INT)], None, 'list', 'nodes')
    NB = z3.Array('neighbour_lists', INT, A2)                  # NB[v][i]: i-th neighbour of node V[v]
    deg = z3.Function('degree', INT, INT)
    clen = z3.Function('n_pairs', INT, INT)                    # number of 2-combinations of the neighbours of node v
    fi = z3.Function('pair_first', INT, INT, INT)              # positions (i < j) of the p-th combination
    se = z3.Function('pair_second', INT, INT, INT)
    pairpos = z3.Function('pair_position', INT, INT, INT, INT)
    base = z3.Function('rows_before_node', INT, INT)
    adj = z3.Function('bonded', INT, INT, z3.BoolSort())
    nb = lambda v, i: z3.Select(z3.Select(NB, v), i)
    Vv = lambda v: z3.Select(V.cols[0], v)

    def triple(A, r, v, p):
        return z3.And(z3.Select(A.cols[0], r) == nb(v, fi(v, p)), z3.Select(A.cols[1], r) == Vv(v), z3.Select(A.cols[2], r) == nb(v, se(v, p)))

    def graph_axioms(bonds):
        """ASSUMED contract of networkx.Graph built by add_edges_from(bonds) (bonds join distinct atoms) and of itertools.combinations(., 2)."""
        I.reg.assumptions_used.add("networkx: Graph.add_edges_from(bonds): nodes = the distinct endpoints; neighbors(n) = the distinct nodes bonded to n (either direction), each once")
        I.reg.assumptions_used.add("itertools.combinations(seq, 2): every pair of positions i < j exactly once")
        v, i, j, p, e, x, y, u, w = [z3.Int('g' + c) for c in 'vijpexyuw']
        E = bonds.length
        b0, b1 = bonds.cols
        I.assume(NV >= 0)
        # bonded(x, y): some bond joins x and y; symmetric; every node is an endpoint and every endpoint a node
        wit = z3.Function('bond_joining', INT, INT, INT)
        I.assume(z3.ForAll([e], z3.Implies(z3.And(e >= 0, e < E), z3.And(adj(z3.Select(b0, e), z3.Select(b1, e)), adj(z3.Select(b1, e), z3.Select(b0, e)))), patterns=[z3.Select(b0, e)]))
        I.assume(z3.ForAll([x, y], z3.Implies(adj(x, y), z3.And(wit(x, y) >= 0, wit(x, y) < E, z3.Or(z3.And(z3.Select(b0, wit(x, y)) == x, z3.Select(b1, wit(x, y)) == y),
                                                                                                      z3.And(z3.Select(b0, wit(x, y)) == y, z3.Select(b1, wit(x, y)) == x)))), patterns=[adj(x, y)]))
        I.assume(z3.ForAll([u, w], z3.Implies(z3.And(u >= 0, u < w, w < NV), Vv(u) != Vv(w)), patterns=[z3.MultiPattern(Vv(u), Vv(w))]))
        # neighbour lists
        nbpos = z3.Function('neighbour_position', INT, INT, INT)
        I.assume(z3.ForAll([v], z3.Implies(z3.And(v >= 0, v < NV), z3.And(deg(v) >= 0, clen(v) >= 0)), patterns=[deg(v)]))
        I.assume(z3.ForAll([v], z3.Implies(z3.And(v >= 0, v < NV), z3.And(deg(v) >= 0, clen(v) >= 0)), patterns=[clen(v)]))
        I.assume(z3.ForAll([v, i], z3.Implies(z3.And(v >= 0, v < NV, i >= 0, i < deg(v)), z3.And(adj(Vv(v), nb(v, i)), nbpos(v, nb(v, i)) == i)), patterns=[nb(v, i)]))
        I.assume(z3.ForAll([v, y], z3.Implies(z3.And(v >= 0, v < NV, adj(Vv(v), y)), z3.And(nbpos(v, y) >= 0, nbpos(v, y) < deg(v), nb(v, nbpos(v, y)) == y)), patterns=[adj(Vv(v), y)]))
        # combinations of the neighbour list of node v
        I.assume(z3.ForAll([v, p], z3.Implies(z3.And(v >= 0, v < NV, p >= 0, p < clen(v)),
                                              z3.And(fi(v, p) >= 0, fi(v, p) < se(v, p), se(v, p) < deg(v), pairpos(v, fi(v, p), se(v, p)) == p)), patterns=[fi(v, p)]))
        I.assume(z3.ForAll([v, p], z3.Implies(z3.And(v >= 0, v < NV, p >= 0, p < clen(v)),
                                              z3.And(fi(v, p) >= 0, fi(v, p) < se(v, p), se(v, p) < deg(v), pairpos(v, fi(v, p), se(v, p)) == p)), patterns=[se(v, p)]))
        I.assume(z3.ForAll([v, i, j], z3.Implies(z3.And(v >= 0, v < NV, i >= 0, i < j, j < deg(v)),
                                                 z3.And(pairpos(v, i, j) >= 0, pairpos(v, i, j) < clen(v), fi(v, pairpos(v, i, j)) == i, se(v, pairpos(v, i, j)) == j)), patterns=[pairpos(v, i, j)]))
        # ghost: number of rows produced before node v
        I.assume(base(0) == 0)
        I.assume(z3.ForAll([v], z3.Implies(z3.And(v >= 0, v < NV), base(v + 1) == base(v) + clen(v)), patterns=[base(v + 1)]))
        I.assume(z3.ForAll([v], z3.Implies(z3.And(v >= 0, v < NV), base(v + 1) == base(v) + clen(v)), patterns=[clen(v)]))

    I.models['networkx.Graph'] = lambda ctx, args, kwargs: GraphRec()

    def m_add_edges(ctx, recv, args, kwargs, f):
        if isinstance(recv, GraphRec) and isinstance(args[0], SymSeq) and args[0].width == 2:
            recv.edges = args[0]
            return None
        return NotImplemented
    I.models['method.add_edges_from'] = m_add_edges
    I.models['attr.nodes'] = lambda ctx, obj: V if isinstance(obj, GraphRec) else NotImplemented

    def m_neighbors(ctx, recv, args, kwargs, f):
        if isinstance(recv, GraphRec) and I.notes.get('loop_k') is not None:
            k = I.notes['loop_k']
            n = to_z3(args[0])
            I.oblige("%s/model/neighbors-is-asked-for-the-current-node" % ctx.speckey, n == Vv(k), 'pre')
            s = SymSeq(deg(k), [z3.Select(NB, k)], None, 'list', 'neighbours')
            s.node = k
            return s
        return NotImplemented
    I.models['method.neighbors'] = m_neighbors

    def m_combinations(ctx, args, kwargs):
        seq, r = args
        if not (isinstance(seq, SymSeq) and getattr(seq, 'node', None) is not None and r == 2):
            raise OutOfSubset("itertools.combinations in an unmodelled form")
        k = seq.node
        c0, c1 = z3.Array(I.reg.fresh('comb0'), INT, INT), z3.Array(I.reg.fresh('comb1'), INT, INT)
        p = z3.Int(I.reg.fresh('p'))
        I.assume(z3.ForAll([p], z3.Implies(z3.And(p >= 0, p < clen(k)), z3.And(z3.Select(c0, p) == nb(k, fi(k, p)), z3.Select(c1, p) == nb(k, se(k, p)))), patterns=[z3.Select(c0, p)]))
        I.assume(z3.ForAll([p], z3.Implies(z3.And(p >= 0, p < clen(k)), z3.And(z3.Select(c0, p) == nb(k, fi(k, p)), z3.Select(c1, p) == nb(k, se(k, p)))), patterns=[z3.Select(c1, p)]))
        out = SymSeq(clen(k), [c0, c1], 2, 'list', 'combinations')
        out.shape = ('t', [('s', INT), ('s', INT)])
        return out
    I.models['itertools.combinations'] = m_combinations

    def m_concat(ctx, op, a, b):
        if op == 'Add' and isinstance(a, SymSeq) and isinstance(b, SymSeq) and len(a.cols) == len(b.cols) == 3:
            I.reg.assumptions_used.add("python: list += list appends the items in order")
            n = a.length + b.length
            cols = [z3.Array(I.reg.fresh('angles_c%d' % c), INT, INT) for c in range(3)]
            p = z3.Int(I.reg.fresh('p'))
            body = z3.And(*[z3.Select(cn, p) == z3.If(p < a.length, z3.Select(ca, p), z3.Select(cb, p - a.length)) for cn, ca, cb in zip(cols, a.cols, b.cols)])
            for cn in cols[:1]:
                I.assume(z3.ForAll([p], z3.Implies(z3.And(p >= 0, p < n), body), patterns=[z3.Select(cn, p)]))
            out = SymSeq(n, cols, 3, 'list', 'angles')
            out.shape = a.shape
            k = I.notes.get('loop_k')
            # stepping stone (an obligation of its own, then a hypothesis): the rows appended for the current node are its neighbour pairs, in order
            lp = z3.Int(I.reg.fresh('lp'))
            step = z3.Implies(z3.And(lp >= 0, lp < clen(k)), z3.And(b.length == clen(k), triple(out, a.length + lp, k, lp)))
            I.oblige("%s/lemma/rows-appended-for-this-node-are-its-neighbour-pairs" % ctx.speckey, z3.ForAll([lp], step), 'lemma')
            I.assume(z3.ForAll([lp], step, patterns=[fi(k, lp)]))
            I.assume(z3.ForAll([lp], step, patterns=[se(k, lp)]))
            # ghost code: remember which node and which combination every new row came from
            for gname, val in (('ghost_row_node', lambda pp: k), ('ghost_row_pair', lambda pp: pp - a.length)):
                G = ctx.lookup(gname)
                g2 = z3.Array(I.reg.fresh(gname), INT, INT)
                I.assume(z3.ForAll([p], z3.Implies(z3.And(p >= 0, p < n), z3.Select(g2, p) == z3.If(p < a.length, z3.Select(G.cols[0], p), val(p))), patterns=[z3.Select(g2, p)]))
                ctx.setvar_existing(gname, SymSeq(n, [g2], None, 'list', gname))
            return out
        raise OutOfSubset("binary %s on sequences" % op)
    I.models['seq.binop'] = m_concat
    I.models['numpy.array'] = lambda ctx, args, kwargs: args[0]

    def inv(view, k):
        A, RV, RP = view['angles'], view['ghost_row_node'], view['ghost_row_pair']
        k = k if z3.is_expr(k) else z3.IntVal(k)
        r, u, w, v, p = z3.Int('ir'), z3.Int('iu'), z3.Int('iw'), z3.Int('iv'), z3.Int('ip')
        rv, rp = z3.Select(RV.cols[0], r), z3.Select(RP.cols[0], r)
        return [('count-is-rows-before-this-node', z3.And(A.length == base(k), RV.length == A.length, RP.length == A.length)),
                ('rows-before-a-node-grow-with-the-node', z3.ForAll([u, w], z3.Implies(z3.And(u >= 0, u < w, w <= k), base(u + 1) <= base(w)), patterns=[z3.MultiPattern(base(u + 1), base(w))])),
                ('every-row-is-a-pair-of-neighbours-of-an-earlier-node',
                 z3.ForAll([r], z3.Implies(z3.And(r >= 0, r < A.length), z3.And(rv >= 0, rv < k, rp >= 0, rp < clen(rv), r == base(rv) + rp, triple(A, r, rv, rp))), patterns=[z3.Select(A.cols[0], r)])),
                ('rows-of-an-earlier-node-lie-before-the-rows-of-the-next',
                 z3.ForAll([v], z3.Implies(z3.And(v >= 0, v < k), z3.And(base(v) >= 0, base(v) + clen(v) <= A.length)), patterns=[clen(v)])),
                ('every-pair-of-neighbours-of-an-earlier-node-has-its-row',
                 z3.ForAll([v, p], z3.Implies(z3.And(v >= 0, v < k, p >= 0, p < clen(v)), triple(A, base(v) + p, v, p)), patterns=[fi(v, p)]))]

    empty_ghost = lambda name: (lambda: SymSeq(z3.IntVal(0), [z3.K(INT, z3.IntVal(0))], None, 'list', name))
    I.funcspecs['%s:calc_angles' % RU] = FuncSpec(loops=[LoopSpec('n in g.nodes', inv=inv, havoc_types={'angles': ('tuple', ['int', 'int', 'int'])},
                                                                   extra_modifies=('ghost_row_node', 'ghost_row_pair'))],
                                                  ghost_locals={'ghost_row_node': empty_ghost('ghost_row_node'), 'ghost_row_pair': empty_ghost('ghost_row_pair')})
    clo = I.closure_for(RU, 'calc_angles')

    def thunk():
        E = z3.Int('n_bonds')
        I.assume(E >= 0)
        bonds = SymSeq(E, [z3.Array('bond_c0', INT, INT), z3.Array('bond_c1', INT, INT)], 2, 'ndarray', 'bonds')
        e = z3.Int('re')
        I.assume(z3.ForAll([e], z3.Implies(z3.And(e >= 0, e < E), z3.Select(bonds.cols[0], e) != z3.Select(bonds.cols[1], e)), patterns=[z3.Select(bonds.cols[0], e)]))   # requires: a bond joins two different atoms
        graph_axioms(bonds)
        return I.call_closure(clo, [bonds], {}), bonds

    paths = I.explore(thunk)
    nret = 0
    for pi, pth in enumerate(paths):
        if pth.outcome == 'loopend':
            continue
        if pth.outcome != 'return':
            raise OutOfSubset("calc_angles raises")
        nret += 1
        A, bonds = pth.value
        if not (isinstance(A, SymSeq) and len(A.cols) == 3):
            raise OutOfSubset("calc_angles does not return triples")
        tag = "calc_angles"
        r, r2, v, i, j = z3.Int('qr'), z3.Int('qr2'), z3.Int('qv'), z3.Int('qi'), z3.Int('qj')
        a_, n_, b_ = [z3.Select(c, r) for c in A.cols]
        S.add(I, "%s/post/every-row-joins-two-different-atoms-bonded-to-its-centre#%d" % (tag, pi), pth.pc,
              z3.ForAll([r], z3.Implies(z3.And(r >= 0, r < A.length), z3.And(adj(n_, a_), adj(n_, b_), a_ != b_))),
              clause='every angle (a, n, b): a and b are different atoms, both bonded to n (two distinct bonds sharing the atom n)')
        S.add(I, "%s/post/every-pair-of-bonds-sharing-an-atom-is-listed#%d" % (tag, pi), pth.pc,
              z3.ForAll([v, i, j], z3.Implies(z3.And(v >= 0, v < NV, i >= 0, i < j, j < deg(v)), z3.And(
                  base(v) + pairpos(v, i, j) >= 0, base(v) + pairpos(v, i, j) < A.length,
                  z3.Select(A.cols[0], base(v) + pairpos(v, i, j)) == nb(v, i), z3.Select(A.cols[1], base(v) + pairpos(v, i, j)) == Vv(v),
                  z3.Select(A.cols[2], base(v) + pairpos(v, i, j)) == nb(v, j)))),
              clause='every pair of distinct neighbours of every atom is listed')
        a2, n2, b2 = [z3.Select(c, r2) for c in A.cols]
        S.add(I, "%s/post/no-angle-is-listed-twice-forwards-or-backwards#%d" % (tag, pi), pth.pc,
              z3.ForAll([r, r2], z3.Implies(z3.And(r >= 0, r < r2, r2 < A.length), z3.Not(z3.And(n_ == n2, z3.Or(z3.And(a_ == a2, b_ == b2), z3.And(a_ == b2, b_ == a2)))))),
              clause='... exactly once')
        S.add_canary(I, "%s/canary#%d" % (tag, pi), [h for h in pth.pc if not z3.is_quantifier(h)])
        S.add_probe(I, "%s/probe/hypotheses-consistent#%d" % (tag, pi), pth.pc)
    if nret == 0:
        raise OutOfSubset("calc_angles has no returning path")
    S.add_interp_obligations(I)


# ------------------------------------------------------------------------------------------------
# calc_dihedrals: every chain a1 - a - b - b1 around every bond a - b, once
def prove_calc_dihedrals(S):
    S.function('mofun/rough_uff.py', 'calc_dihedrals')
    S.guarded('calc_dihedrals', lambda: _calc_dihedrals(S))


def _calc_dihedrals(S):
    RU = 'mofun/rough_uff.py'
    I = S.interp()
    I.allow_merge = False
    models_py.install(I)
    models_np.install(I)
    A2 = z3.ArraySort(INT, INT)
    NE = z3.Int('n_edges')
    EA, EB = z3.Array('edge_a', INT, INT), z3.Array('edge_b', INT, INT)       # g.edges: every bond once, as stored by networkx
    NBV = z3.Array('neighbours_of', INT, A2)                                    # NBV[x][i]: i-th neighbour of atom x
    degv = z3.Function('degree_of', INT, INT)
    nbposv = z3.Function('neighbour_position_of', INT, INT, INT)
    adj = z3.Function('bonded', INT, INT, z3.BoolSort())
    plen = z3.Function('n_chains', INT, INT)                                    # chains around edge e = (deg(a)-1) * (deg(b)-1), as a ghost count
    pi_, pj_ = z3.Function('chain_first', INT, INT, INT), z3.Function('chain_second', INT, INT, INT)
    ppos = z3.Function('chain_position', INT, INT, INT, INT)
    base = z3.Function('rows_before_edge', INT, INT)
    nbv = lambda x, i: z3.Select(z3.Select(NBV, x), i)
    ea, eb = (lambda e: z3.Select(EA, e)), (lambda e: z3.Select(EB, e))
    # the neighbour list of x with y removed: i-th element
    without = lambda x, y, i: z3.If(i < nbposv(x, y), nbv(x, i), nbv(x, i + 1))
    an = lambda e, i: without(ea(e), eb(e), i)
    bn = lambda e, j: without(eb(e), ea(e), j)

    def quad(D, r, e, p):
        return z3.And(z3.Select(D.cols[0], r) == an(e, pi_(e, p)), z3.Select(D.cols[1], r) == ea(e), z3.Select(D.cols[2], r) == eb(e), z3.Select(D.cols[3], r) == bn(e, pj_(e, p)))

    def graph_axioms(bonds):
        I.reg.assumptions_used.add("networkx: Graph.add_edges_from(bonds): edges = every bond once (as an unordered pair); adj[x] = the distinct atoms bonded to x, each once")
        I.reg.assumptions_used.add("python: list.remove(y) drops the first y and keeps the order of the rest; a double comprehension enumerates every pair of positions once")
        e, e2, x, y, i, j, p = [z3.Int('h' + c) for c in ('e', 'f', 'x', 'y', 'i', 'j', 'p')]
        E = bonds.length
        b0, b1 = bonds.cols
        wit = z3.Function('bond_joining', INT, INT, INT)
        I.assume(NE >= 0)
        I.assume(z3.ForAll([e], z3.Implies(z3.And(e >= 0, e < E), z3.And(adj(z3.Select(b0, e), z3.Select(b1, e)), adj(z3.Select(b1, e), z3.Select(b0, e)))), patterns=[z3.Select(b0, e)]))
        I.assume(z3.ForAll([x, y], z3.Implies(adj(x, y), z3.And(adj(y, x), x != y, wit(x, y) >= 0, wit(x, y) < E)), patterns=[adj(x, y)]))
        eidx = z3.Function('edge_of', INT, INT, INT)
        I.assume(z3.ForAll([e], z3.Implies(z3.And(e >= 0, e < NE), z3.And(adj(ea(e), eb(e)), eidx(ea(e), eb(e)) == e, eidx(eb(e), ea(e)) == e)), patterns=[ea(e)]))
        I.assume(z3.ForAll([e], z3.Implies(z3.And(e >= 0, e < NE), z3.And(adj(ea(e), eb(e)), eidx(ea(e), eb(e)) == e, eidx(eb(e), ea(e)) == e)), patterns=[eb(e)]))
        I.assume(z3.ForAll([x, y], z3.Implies(adj(x, y), z3.And(eidx(x, y) >= 0, eidx(x, y) < NE, z3.Or(z3.And(ea(eidx(x, y)) == x, eb(eidx(x, y)) == y), z3.And(ea(eidx(x, y)) == y, eb(eidx(x, y)) == x)))),
                           patterns=[eidx(x, y)]))
        I.assume(z3.ForAll([x], degv(x) >= 0, patterns=[degv(x)]))
        I.assume(z3.ForAll([x, i], z3.Implies(z3.And(i >= 0, i < degv(x)), z3.And(adj(x, nbv(x, i)), nbposv(x, nbv(x, i)) == i)), patterns=[nbv(x, i)]))
        I.assume(z3.ForAll([x, y], z3.Implies(adj(x, y), z3.And(nbposv(x, y) >= 0, nbposv(x, y) < degv(x), nbv(x, nbposv(x, y)) == y)), patterns=[nbposv(x, y)]))
        I.assume(z3.ForAll([x, y], z3.Implies(adj(x, y), z3.And(nbposv(x, y) >= 0, nbposv(x, y) < degv(x), nbv(x, nbposv(x, y)) == y)), patterns=[adj(x, y)]))
        # products of the two shortened neighbour lists of edge e
        la, lb = (lambda e_: degv(ea(e_)) - 1), (lambda e_: degv(eb(e_)) - 1)
        rng = z3.And(e >= 0, e < NE, p >= 0, p < plen(e))
        body = z3.And(pi_(e, p) >= 0, pi_(e, p) < la(e), pj_(e, p) >= 0, pj_(e, p) < lb(e), ppos(e, pi_(e, p), pj_(e, p)) == p)
        I.assume(z3.ForAll([e, p], z3.Implies(rng, body), patterns=[pi_(e, p)]))
        I.assume(z3.ForAll([e, p], z3.Implies(rng, body), patterns=[pj_(e, p)]))
        I.assume(z3.ForAll([e, i, j], z3.Implies(z3.And(e >= 0, e < NE, i >= 0, i < la(e), j >= 0, j < lb(e)),
                                                 z3.And(ppos(e, i, j) >= 0, ppos(e, i, j) < plen(e), pi_(e, ppos(e, i, j)) == i, pj_(e, ppos(e, i, j)) == j)), patterns=[ppos(e, i, j)]))
        I.assume(z3.ForAll([e], z3.Implies(z3.And(e >= 0, e < NE), plen(e) >= 0), patterns=[plen(e)]))
        I.assume(base(0) == 0)
        I.assume(z3.ForAll([e], z3.Implies(z3.And(e >= 0, e < NE), base(e + 1) == base(e) + plen(e)), patterns=[base(e + 1)]))
        I.assume(z3.ForAll([e], z3.Implies(z3.And(e >= 0, e < NE), base(e + 1) == base(e) + plen(e)), patterns=[plen(e)]))

    I.models['networkx.Graph'] = lambda ctx, args, kwargs: GraphRec()

    def m_add_edges(ctx, recv, args, kwargs, f):
        if isinstance(recv, GraphRec) and isinstance(args[0], SymSeq) and args[0].width == 2:
            recv.edges = args[0]
            return None
        return NotImplemented
    I.models['method.add_edges_from'] = m_add_edges

    class Adj:
        pass
    adjobj = Adj()
    edges = SymSeq(NE, [EA, EB], 2, 'list', 'edges')
    edges.shape = ('t', [('s', INT), ('s', INT)])
    I.models['attr.edges'] = lambda ctx, obj: edges if isinstance(obj, GraphRec) else NotImplemented
    I.models['attr.adj'] = lambda ctx, obj: adjobj if isinstance(obj, GraphRec) else NotImplemented

    def adj_getitem(ctx, cont, idx):
        x = to_z3(idx[1])
        s = SymSeq(degv(x), [z3.Select(NBV, x)], None, 'list', 'adjacency')
        s.of = x
        return s
    I.models['getitem:Adj'] = adj_getitem

    def m_list(ctx, args, kwargs):
        v = args[0] if args else None
        if isinstance(v, SymSeq) and getattr(v, 'of', None) is not None:
            out = SymSeq(v.length, v.cols, v.width, 'list', v.name)        # list(g.adj[a]): a copy with the same items
            out.of = v.of
            return out
        return I.lib.bi_list(ctx, args, kwargs)
    I.models['list'] = m_list

    def m_remove(ctx, recv, args, kwargs, f):
        if isinstance(recv, SymSeq) and getattr(recv, 'of', None) is not None and getattr(recv, 'removed', None) is None:
            x, y = recv.of, to_z3(args[0])
            I.oblige("%s/safety/removed-atom-is-a-neighbour" % ctx.speckey, adj(x, y), 'safety')      # list.remove raises ValueError otherwise
            col = z3.Array(I.reg.fresh('without'), INT, INT)
            q = z3.Int(I.reg.fresh('q'))
            I.assume(z3.ForAll([q], z3.Implies(z3.And(q >= 0, q < degv(x) - 1), z3.Select(col, q) == without(x, y, q)), patterns=[z3.Select(col, q)]))
            out = SymSeq(degv(x) - 1, [col], None, 'list', 'neighbours_without')
            out.of, out.removed = x, y
            I.lib.rebind(ctx, f, out)
            return None
        return NotImplemented
    I.models['method.remove'] = m_remove

    def m_product(ctx, e, sc):
        # [(a1, a, b, b1) for a1 in a_neighbors for b1 in b_neighbors]: both generators symbolic
        gens = e.generators
        if len(gens) != 2 or any(g.ifs for g in gens) or I.notes.get('loop_k') is None:
            raise OutOfSubset("comprehension of an unsupported shape: %s" % ast.unparse(e))
        k = I.notes['loop_k']
        s1, s2 = ctx.eval(gens[0].iter), ctx.eval(gens[1].iter)
        if not (isinstance(s1, SymSeq) and isinstance(s2, SymSeq) and getattr(s1, 'removed', None) is not None and getattr(s2, 'removed', None) is not None):
            raise OutOfSubset("double comprehension over unexpected sequences")
        I.oblige("%s/model/product-of-the-two-shortened-neighbour-lists-of-the-current-edge" % ctx.speckey,
                 z3.And(s1.of == ea(k), s1.removed == eb(k), s2.of == eb(k), s2.removed == ea(k)), 'pre')
        p = z3.Int(I.reg.fresh('pp'))
        pc0 = len(I.pc)
        I.merge_depth += 1
        try:
            I.pc.append(z3.And(p >= 0, p < plen(k)))
            ctx.assign(gens[0].target, Sym(z3.Select(s1.cols[0], pi_(k, p))))
            ctx.assign(gens[1].target, Sym(z3.Select(s2.cols[0], pj_(k, p))))
            val = ctx.eval(e.elt)
        finally:
            del I.pc[pc0:]
            I.merge_depth -= 1
        if not (isinstance(val, tuple) and len(val) == 4):
            raise OutOfSubset("dihedral comprehension does not build 4-tuples")
        cols = [z3.Array(I.reg.fresh('chain_c%d' % c), INT, INT) for c in range(4)]
        body = z3.And(*[z3.Select(cn, p) == to_z3(v) for cn, v in zip(cols, val)])
        I.assume(z3.ForAll([p], z3.Implies(z3.And(p >= 0, p < plen(k)), body), patterns=[z3.Select(cols[0], p)]))
        out = SymSeq(plen(k), cols, 4, 'list', 'chains')
        out.shape = ('t', [('s', INT)] * 4)
        return out
    import ast
    prev_comp = I.models.get('comprehension')

    def comp(ctx, e, sc):
        if len(e.generators) == 2:
            return m_product(ctx, e, sc)
        return prev_comp(ctx, e, sc)
    I.models['comprehension'] = comp

    def m_concat(ctx, op, a, b):
        if op == 'Add' and isinstance(a, SymSeq) and isinstance(b, SymSeq) and len(a.cols) == len(b.cols) == 4:
            n = a.length + b.length
            cols = [z3.Array(I.reg.fresh('dihedrals_c%d' % c), INT, INT) for c in range(4)]
            p = z3.Int(I.reg.fresh('p'))
            body = z3.And(*[z3.Select(cn, p) == z3.If(p < a.length, z3.Select(ca, p), z3.Select(cb, p - a.length)) for cn, ca, cb in zip(cols, a.cols, b.cols)])
            I.assume(z3.ForAll([p], z3.Implies(z3.And(p >= 0, p < n), body), patterns=[z3.Select(cols[0], p)]))
            out = SymSeq(n, cols, 4, 'list', 'dihedrals')
            out.shape = a.shape
            k = I.notes.get('loop_k')
            lp = z3.Int(I.reg.fresh('lp'))
            step = z3.Implies(z3.And(lp >= 0, lp < plen(k)), z3.And(b.length == plen(k), quad(out, a.length + lp, k, lp)))
            I.oblige("%s/lemma/rows-appended-for-this-bond-are-its-chains" % ctx.speckey, z3.ForAll([lp], step), 'lemma')
            I.assume(z3.ForAll([lp], step, patterns=[pi_(k, lp)]))
            I.assume(z3.ForAll([lp], step, patterns=[pj_(k, lp)]))
            for gname, val in (('ghost_row_edge', lambda pp: k), ('ghost_row_chain', lambda pp: pp - a.length)):
                G = ctx.lookup(gname)
                g2 = z3.Array(I.reg.fresh(gname), INT, INT)
                I.assume(z3.ForAll([p], z3.Implies(z3.And(p >= 0, p < n), z3.Select(g2, p) == z3.If(p < a.length, z3.Select(G.cols[0], p), val(p))), patterns=[z3.Select(g2, p)]))
                ctx.setvar_existing(gname, SymSeq(n, [g2], None, 'list', gname))
            return out
        raise OutOfSubset("binary %s on sequences" % op)
    I.models['seq.binop'] = m_concat
    I.models['numpy.array'] = lambda ctx, args, kwargs: args[0]

    def inv(view, k):
        D, RE, RC = view['dihedrals'], view['ghost_row_edge'], view['ghost_row_chain']
        k = k if z3.is_expr(k) else z3.IntVal(k)
        r, u, w, e, p = z3.Int('jr'), z3.Int('ju'), z3.Int('jw'), z3.Int('je'), z3.Int('jp')
        re_, rc = z3.Select(RE.cols[0], r), z3.Select(RC.cols[0], r)
        return [('count-is-rows-before-this-bond', z3.And(D.length == base(k), RE.length == D.length, RC.length == D.length)),
                ('rows-before-a-bond-grow-with-the-bond', z3.ForAll([u, w], z3.Implies(z3.And(u >= 0, u < w, w <= k), base(u + 1) <= base(w)), patterns=[z3.MultiPattern(base(u + 1), base(w))])),
                ('every-row-is-a-chain-around-an-earlier-bond',
                 z3.ForAll([r], z3.Implies(z3.And(r >= 0, r < D.length), z3.And(re_ >= 0, re_ < k, rc >= 0, rc < plen(re_), r == base(re_) + rc, quad(D, r, re_, rc))), patterns=[z3.Select(D.cols[0], r)])),
                ('rows-of-an-earlier-bond-lie-before-the-rows-of-the-next',
                 z3.ForAll([e], z3.Implies(z3.And(e >= 0, e < k), z3.And(base(e) >= 0, base(e) + plen(e) <= D.length)), patterns=[plen(e)])),
                ('every-chain-around-an-earlier-bond-has-its-row',
                 z3.ForAll([e, p], z3.Implies(z3.And(e >= 0, e < k, p >= 0, p < plen(e)), quad(D, base(e) + p, e, p)), patterns=[pi_(e, p)]))]

    empty_ghost = lambda name: (lambda: SymSeq(z3.IntVal(0), [z3.K(INT, z3.IntVal(0))], None, 'list', name))
    I.funcspecs['%s:calc_dihedrals' % RU] = FuncSpec(loops=[LoopSpec('(a, b) in g.edges', inv=inv, havoc_types={'dihedrals': ('tuple', ['int'] * 4)},
                                                                      extra_modifies=('ghost_row_edge', 'ghost_row_chain'))],
                                                     ghost_locals={'ghost_row_edge': empty_ghost('ghost_row_edge'), 'ghost_row_chain': empty_ghost('ghost_row_chain')})
    clo = I.closure_for(RU, 'calc_dihedrals')

    def thunk():
        E = z3.Int('n_bonds')
        I.assume(E >= 0)
        bonds = SymSeq(E, [z3.Array('bond_c0', INT, INT), z3.Array('bond_c1', INT, INT)], 2, 'ndarray', 'bonds')
        e = z3.Int('re')
        I.assume(z3.ForAll([e], z3.Implies(z3.And(e >= 0, e < E), z3.Select(bonds.cols[0], e) != z3.Select(bonds.cols[1], e)), patterns=[z3.Select(bonds.cols[0], e)]))
        graph_axioms(bonds)
        return I.call_closure(clo, [bonds], {})

    paths = I.explore(thunk)
    nret = 0
    for pi, pth in enumerate(paths):
        if pth.outcome == 'loopend':
            continue
        if pth.outcome != 'return':
            raise OutOfSubset("calc_dihedrals raises %r" % (pth.value,))
        nret += 1
        D = pth.value
        if not (isinstance(D, SymSeq) and len(D.cols) == 4):
            raise OutOfSubset("calc_dihedrals does not return 4-tuples")
        tag = "calc_dihedrals"
        r, e, x1, y1 = z3.Int('qr'), z3.Int('qe'), z3.Int('qx'), z3.Int('qy')
        c0, c1, c2, c3 = [z3.Select(c, r) for c in D.cols]
        S.add(I, "%s/post/every-row-is-a-bonded-chain#%d" % (tag, pi), pth.pc,
              z3.ForAll([r], z3.Implies(z3.And(r >= 0, r < D.length), z3.And(adj(c0, c1), adj(c1, c2), adj(c2, c3), c0 != c2, c3 != c1))),
              clause='every dihedral (i, j, k, l) is a bonded chain i-j-k-l with i != k and l != j')
        row = base(e) + ppos(e, nbposv(ea(e), x1) - z3.If(nbposv(ea(e), x1) > nbposv(ea(e), eb(e)), 1, 0), nbposv(eb(e), y1) - z3.If(nbposv(eb(e), y1) > nbposv(eb(e), ea(e)), 1, 0))
        S.add(I, "%s/post/every-chain-around-every-bond-is-listed#%d" % (tag, pi), pth.pc,
              z3.ForAll([e, x1, y1], z3.Implies(z3.And(e >= 0, e < NE, adj(ea(e), x1), x1 != eb(e), adj(eb(e), y1), y1 != ea(e)),
                        z3.And(row >= 0, row < D.length, z3.Select(D.cols[0], row) == x1, z3.Select(D.cols[1], row) == ea(e), z3.Select(D.cols[2], row) == eb(e), z3.Select(D.cols[3], row) == y1))),
              clause='every chain x - a - b - y around every bond a - b (x != b, y != a) is listed')
        r2 = z3.Int('qr2')
        d0, d1, d2, d3 = [z3.Select(c, r2) for c in D.cols]
        S.add(I, "%s/post/no-chain-is-listed-twice-forwards-or-backwards#%d" % (tag, pi), pth.pc,
              z3.ForAll([r, r2], z3.Implies(z3.And(r >= 0, r < r2, r2 < D.length),
                        z3.Not(z3.Or(z3.And(c0 == d0, c1 == d1, c2 == d2, c3 == d3), z3.And(c0 == d3, c1 == d2, c2 == d1, c3 == d0))))),
              clause='... exactly once')
        S.add_canary(I, "%s/canary#%d" % (tag, pi), [h for h in pth.pc if not z3.is_quantifier(h)])
        S.add_probe(I, "%s/probe/hypotheses-consistent#%d" % (tag, pi), pth.pc)
    if nret == 0:
        raise OutOfSubset("calc_dihedrals has no returning path")
    S.add_interp_obligations(I)


# ------------------------------------------------------------------------------------------------
# assign_dihedral_types: block contracts on the statements that build a dihedral's type key and apply the exclusion set.  The reversed
# deletion loop (torsions without parameters), first-seen numbering and the coefficient strings stay BOUNDED (bounded/C19.py).
import ast as _ast


def prove_dihedral_blocks(S):
    RU = 'mofun/rough_uff.py'
    FN = 'assign_dihedral_types'
    S.function(RU, FN)
    S.guarded(FN + ' (type key of a dihedral, exclusion)', lambda: _dihedral_blocks(S, RU, FN))


def _z3_consts(e):
    out, todo, seen = [], [e], set()
    while todo:
        x = todo.pop()
        if x.get_id() in seen:
            continue
        seen.add(x.get_id())
        if z3.is_const(x) and x.decl().kind() == z3.Z3_OP_UNINTERPRETED:
            out.append(x)
        todo.extend(x.children())
    return out


def _one(fn, pred, what):
    hits = [n for n in _ast.walk(fn) if pred(n)]
    if len(hits) != 1:
        raise OutOfSubset("expected exactly one statement `%s` in assign_dihedral_types, found %d (contract no longer applies)" % (what, len(hits)))
    return hits[0]


def _dihedral_blocks(S, RU, FN):
    I = S.interp()
    I.allow_merge = False
    models_py.install(I)
    models_np.install(I)
    key4 = key_functions(I, 4)
    I.reg.assumptions_used.add("contract of helpers.typekey (proved above, arities 2-4): the key is the tuple or its reverse and is reversal invariant")
    fn = I.module(RU).find(FN)
    body = fn.body
    is_assign_to = lambda n, name: isinstance(n, _ast.Assign) and len(n.targets) == 1 and _ast.unparse(n.targets[0]) == name
    cnt_st = _one(fn, lambda n: is_assign_to(n, 'num_dihedrals_per_bond'), 'num_dihedrals_per_bond = Counter([...])')
    typ_st = _one(fn, lambda n: is_assign_to(n, 'dihedral_types') and isinstance(n.value, _ast.ListComp) and 'typekey' in _ast.unparse(n.value),
                  'dihedral_types = [(*typekey(...), count) for atup in atoms.dihedrals]')
    exc_st = _one(fn, lambda n: isinstance(n, _ast.If) and 'exclude' in _ast.unparse(n.test), 'if exclude is not None and len(exclude) >= 4')
    v = cnt_st.value
    if not (isinstance(v, _ast.Call) and _ast.unparse(v.func) in ('Counter', 'collections.Counter') and len(v.args) == 1 and not v.keywords
            and isinstance(v.args[0], (_ast.ListComp, _ast.GeneratorExp)) and len(v.args[0].generators) == 1 and not v.args[0].generators[0].ifs
            and _ast.unparse(v.args[0].generators[0].iter) == 'atoms.dihedrals'):
        raise OutOfSubset("the torsion count is not `Counter([key for row in atoms.dihedrals])` (contract no longer applies)")
    cgen, celt = v.args[0].generators[0], v.args[0].elt
    tv = typ_st.value
    if not (len(tv.generators) == 1 and not tv.generators[0].ifs and _ast.unparse(tv.generators[0].iter) == 'atoms.dihedrals'):
        raise OutOfSubset("the type keys are not computed by one unfiltered comprehension over atoms.dihedrals (contract no longer applies)")
    tgen, telt = tv.generators[0], tv.elt
    top = {id(s): k for k, s in enumerate(body)}
    if not (id(cnt_st) in top and id(typ_st) in top and id(exc_st) in top):
        raise OutOfSubset("count / exclusion / type statements are not top-level statements of assign_dihedral_types")
    # order: torsions are counted over the full list (before the exclusion set removes any), keys are taken after it
    S.add(I, FN + "/order/torsions-about-a-bond-counted-before-exclusion-keys-taken-after", [],
          z3.BoolVal(top[id(cnt_st)] < top[id(exc_st)] < top[id(typ_st)]), kind='frame',
          clause='for dihedrals also the number of torsions about the central bond')

    # the parameters of a type are asked for with the caller's bond-order rules (three-valued syntactic frame obligation, contracts/frames.py)
    from contracts import frames
    calls = [n for n in _ast.walk(fn) if isinstance(n, _ast.Call) and _ast.unparse(n.func).split('.')[-1] == 'dihedral_params']
    if len(calls) != 1:
        raise OutOfSubset("expected exactly one call of dihedral_params in assign_dihedral_types, found %d (contract no longer applies)" % len(calls))
    kw = [k for k in calls[0].keywords if k.arg == 'bond_order_rules']
    kinds = frames.rebindings(fn, 'bond_order_rules') + ([frames.classify(kw[0].value, 'bond_order_rules')] if kw else ['changed'])
    vd = frames.verdict(kinds)
    if vd == 'unknown':
        raise OutOfSubset("cannot read which bond-order rules dihedral_params receives")
    S.add(I, FN + "/frame/dihedral-params-asked-with-the-callers-bond-order-rules", [], z3.BoolVal(vd == 'same'), kind='frame',
          clause='attaches to each type the parameters of that sequence')

    tk_clo = I.closure_for('mofun/helpers.py', 'typekey')

    def m_typekey(ctx, args, kwargs):
        t = args[0]
        if isinstance(t, (list, tuple)) and len(t) == 4 and all(isinstance(x, Sym) and x.e.sort() == StrS for x in t):
            return tuple(Sym(k) for k in key4([x.e for x in t]))
        if isinstance(t, (list, tuple)) and len(t) == 2 and all(isinstance(x, Sym) and x.e.sort() == INT for x in t):
            return I.call_closure(tk_clo, [t], {})           # atom indices: the real typekey, inlined
        raise OutOfSubset("typekey is called with something else than 4 UFF type names or 2 atom indices")
    I.models['mofun/helpers.py:typekey'] = m_typekey

    class CountMap:
        pass
    counts = CountMap()
    cnt = I.reg.ufunc('torsions_filed_under_key', INT, INT, INT)

    def m_count(ctx, cont, idx):
        k = idx[1]
        if idx[0] == 'tuple' and all(isinstance(x, tuple) and x[0] == 'index' for x in k):
            k = tuple(x[1] for x in k)                  # counts[(a, b)]: a tuple display as subscript
        elif idx[0] != 'index':
            raise OutOfSubset("the torsion count is looked up with a slice")
        if not (isinstance(k, tuple) and len(k) == 2):
            raise OutOfSubset("the torsion count is looked up with something else than a 2-tuple key")
        return Sym(cnt(to_z3(k[0]), to_z3(k[1])))
    I.models['getitem:CountMap'] = m_count

    NA = z3.Int('n_atoms')
    d = [z3.Int('dih_a%d' % c) for c in range(4)]
    UFF = z3.Array('uff_atom_types', INT, StrS)

    def thunk():
        I.assume(NA >= 0)
        for x in d:
            I.assume(z3.And(x >= 0, x < NA))
        uff = SymSeq(NA, [UFF], None, 'list', 'uff_atom_types')
        out = []
        for row in (d, list(reversed(d))):
            env = {'uff_atom_types': uff, 'num_dihedrals_per_bond': counts, '__row': tuple(Sym(x) for x in row)}
            ctx = I.block_ctx(RU, FN, env)
            ctx.exec_block([_ast.fix_missing_locations(_ast.Assign(targets=[cgen.target], value=_ast.Name(id='__row', ctx=_ast.Load()), lineno=0, col_offset=0))])
            ck = ctx.eval(celt)
            ctx2 = I.block_ctx(RU, FN, env)
            ctx2.exec_block([_ast.fix_missing_locations(_ast.Assign(targets=[tgen.target], value=_ast.Name(id='__row', ctx=_ast.Load()), lineno=0, col_offset=0))])
            tk = ctx2.eval(telt)
            out.append((ck, tk))
        return out

    paths = I.explore(thunk)
    if not paths:
        raise OutOfSubset("no path through the key statements")
    eq = lambda x, y: z3.And(*[p == q for p, q in zip(x, y)])
    for pi, p in enumerate(paths):
        if p.outcome != 'return':
            raise OutOfSubset("the key statements of assign_dihedral_types raise")
        (ck, tk), (ckr, tkr) = p.value
        if not (isinstance(ck, tuple) and len(ck) == 2 and isinstance(ckr, tuple) and len(ckr) == 2):
            raise OutOfSubset("the key a torsion is counted under is not a 2-tuple")
        if not (isinstance(tk, tuple) and len(tk) == 5 and isinstance(tkr, tuple) and len(tkr) == 5):
            raise OutOfSubset("the type key of a dihedral is not a 5-tuple (four type names and a count)")
        ck, ckr, tk, tkr = [[to_z3(x) for x in t] for t in (ck, ckr, tk, tkr)]
        seq = [z3.Select(UFF, x) for x in d]
        S.add(I, FN + "/post/torsion-counted-under-its-central-bond#%d" % pi, p.pc, z3.Or(eq(ck, [d[1], d[2]]), eq(ck, [d[2], d[1]])),
              clause='for dihedrals also the number of torsions about the central bond')
        S.add(I, FN + "/post/count-key-is-direction-independent#%d" % pi, p.pc, eq(ck, ckr),
              clause='for dihedrals also the number of torsions about the central bond')
        S.add(I, FN + "/post/type-key-starts-with-the-uff-sequence-up-to-reversal#%d" % pi, p.pc, z3.Or(eq(tk[:4], seq), eq(tk[:4], list(reversed(seq)))),
              clause='two terms have the same type exactly when their UFF type sequences agree up to reversal')
        S.add(I, FN + "/post/type-key-is-direction-independent#%d" % pi, p.pc, eq(tk, tkr),
              clause='two terms have the same type exactly when their UFF type sequences agree up to reversal')
        S.add(I, FN + "/post/type-key-ends-with-the-count-filed-under-the-central-bond#%d" % pi, p.pc, tk[4] == cnt(ck[0], ck[1]),
              clause='for dihedrals also the number of torsions about the central bond')
        S.add_canary(I, FN + "/canary#%d" % pi, [h for h in p.pc if not z3.is_quantifier(h)])
    S.add_interp_obligations(I)

    # -------- parameter statement: the entry of a type is (dihedral_params(*its own key, bond_order_rules=caller's), its own key)
    par_st = _one(fn, lambda n: is_assign_to(n, 'params') and isinstance(n.value, _ast.ListComp) and 'dihedral_params' in _ast.unparse(n.value),
                  'params = [(dihedral_params(*key, ...), key) for key in unique_dihedral_types]')
    pv = par_st.value
    if not (len(pv.generators) == 1 and not pv.generators[0].ifs and _ast.unparse(pv.generators[0].iter) == 'unique_dihedral_types'):
        raise OutOfSubset("params is not one unfiltered comprehension over unique_dihedral_types (contract no longer applies)")
    I3 = S.interp()
    I3.allow_merge = False
    models_py.install(I3)
    OBJ = models_py.ObjS
    dp = I3.reg.ufunc('dihedral_params', StrS, StrS, StrS, StrS, INT, OBJ, OBJ)
    rules = Opaque(z3.Const('bond_order_rules', OBJ), 'rules')
    seen = {}

    def m_dp(ctx, args, kwargs):
        if len(args) != 5 or set(kwargs) != {'bond_order_rules'}:
            raise OutOfSubset("dihedral_params is not called as dihedral_params(t1, t2, t3, t4, count, bond_order_rules=...)")
        seen['n'] = seen.get('n', 0) + 1
        return Opaque(dp(*[to_z3(x) for x in args], models_py.to_obj(I3, kwargs['bond_order_rules'])), 'dihedral_params')
    I3.models['%s:dihedral_params' % RU] = m_dp
    kt = [z3.Const('key_t%d' % c, StrS) for c in range(4)] + [z3.Int('key_count')]
    others = SymSeq(z3.Int('n_unique'), [z3.Array('uniq_c%d' % c, INT, StrS if c < 4 else INT) for c in range(5)], 5, 'list', 'unique_dihedral_types')

    def thunk3():
        seen.clear()
        env = {'bond_order_rules': rules, 'unique_dihedral_types': others, '__key': tuple(Sym(x) for x in kt)}
        ctx = I3.block_ctx(RU, FN, env)
        ctx.exec_block([_ast.fix_missing_locations(_ast.Assign(targets=[pv.generators[0].target], value=_ast.Name(id='__key', ctx=_ast.Load()), lineno=0, col_offset=0))])
        return ctx.eval(pv.elt), dict(seen)
    paths3 = I3.explore(thunk3)
    if not paths3:
        raise OutOfSubset("no path through the parameter statement")
    for pi, p in enumerate(paths3):
        if p.outcome != 'return':
            raise OutOfSubset("the parameter statement of assign_dihedral_types raises")
        ent, sn = p.value
        if not (isinstance(ent, tuple) and len(ent) == 2 and isinstance(ent[0], Opaque) and isinstance(ent[1], tuple) and len(ent[1]) == 5):
            raise OutOfSubset("an entry of params is not (parameters, 5-tuple key)")
        S.add(I3, FN + "/post/parameters-of-a-type-computed-from-its-own-key-in-one-of-its-orientations-with-the-callers-rules#%d" % pi, p.pc,
              z3.And(z3.Or(ent[0].term == dp(*kt, rules.term), ent[0].term == dp(kt[3], kt[2], kt[1], kt[0], kt[4], rules.term)), z3.BoolVal(sn.get('n') == 1), *[to_z3(a) == b for a, b in zip(ent[1], kt)]),
              clause='attaches to each type the parameters of that sequence')
        S.add_canary(I3, FN + "[params]/canary#%d" % pi, [h for h in p.pc if not z3.is_quantifier(h)])
    S.add_interp_obligations(I3)

    # -------- coefficient statement: the line of a type is formatted from that type's own parameters and its own key
    co_st = _one(fn, lambda n: is_assign_to(n, 'atoms.dihedral_type_coeffs'), 'atoms.dihedral_type_coeffs = [fmt % (*p1, *p2) for p1, p2 in params]')
    cv = co_st.value
    if not (isinstance(cv, _ast.ListComp) and len(cv.generators) == 1 and not cv.generators[0].ifs and _ast.unparse(cv.generators[0].iter) == 'params'):
        raise OutOfSubset("the coefficient lines are not one unfiltered comprehension over params (contract no longer applies)")
    I4 = S.interp()
    I4.allow_merge = False
    models_py.install(I4)
    pp = [z3.Const('par_style', StrS), z3.Real('par_k'), z3.Int('par_d'), z3.Int('par_n')]
    kk = [z3.Const('ckey_t%d' % c, StrS) for c in range(4)] + [z3.Int('ckey_count')]
    qq = [z3.Const('other_style', StrS), z3.Real('other_k'), z3.Int('other_d'), z3.Int('other_n')]
    oo = [z3.Const('okey_t%d' % c, StrS) for c in range(4)] + [z3.Int('okey_count')]

    def thunk4():
        outs = []
        for a, b in ((pp, kk), (qq, oo)):
            env = {'__entry': (tuple(Sym(x) for x in a), tuple(Sym(x) for x in b))}
            ctx = I4.block_ctx(RU, FN, env)
            ctx.exec_block([_ast.fix_missing_locations(_ast.Assign(targets=[cv.generators[0].target], value=_ast.Name(id='__entry', ctx=_ast.Load()), lineno=0, col_offset=0))])
            outs.append(ctx.eval(cv.elt))
        return outs
    paths4 = I4.explore(thunk4)
    if not paths4:
        raise OutOfSubset("no path through the coefficient statement")
    for pi, p in enumerate(paths4):
        if p.outcome != 'return':
            raise OutOfSubset("the coefficient statement of assign_dihedral_types raises")
        l1, l2 = p.value
        if not (isinstance(l1, Sym) and isinstance(l2, Sym) and l1.e.sort() == StrS):
            raise OutOfSubset("a coefficient line is not a formatted string")
        same_in = z3.And(*[x == y for x, y in zip(pp + kk, qq + oo)])
        # functional in its own entry: equal entries give equal lines; every one of the four parameters enters the line (the text after '#' is a comment: not required)
        S.add(I4, FN + "/post/coefficient-line-is-a-function-of-the-types-own-parameters-and-key#%d" % pi, p.pc, z3.Implies(same_in, l1.e == l2.e),
              clause='attaches to each type the parameters of that sequence')
        used = {str(d_) for d_ in _z3_consts(l1.e)}
        S.add(I4, FN + "/post/coefficient-line-states-all-four-parameters-of-the-type#%d" % pi, p.pc,
              z3.BoolVal(all(str(x) in used for x in pp)), kind='frame', clause='attaches to each type the parameters of that sequence')
        S.add_canary(I4, FN + "[coeffs]/canary#%d" % pi, [h for h in p.pc if not z3.is_quantifier(h)])
    S.add_interp_obligations(I4)

    # -------- exclusion statement: applied through delete_if_all_in_set (proved above) exactly when the set can hold a dihedral
    I2 = S.interp()
    I2.allow_merge = False
    models_py.install(I2)
    models_np.install(I2)
    st_x = {}

    def m_exclude(ctx, args, kwargs):
        if len(args) != 2 or kwargs:
            raise OutOfSubset("delete_if_all_in_set is not called as delete_if_all_in_set(terms, exclude)")
        st_x['call'] = (args[0], args[1])
        out = SymSeq(z3.Int(I2.reg.fresh('n_kept')), [z3.Array(I2.reg.fresh('kept_c%d' % c), INT, INT) for c in range(4)], 4, 'ndarray', 'kept_dihedrals')
        st_x['out'] = out
        return out
    I2.models[RU + ':delete_if_all_in_set'] = m_exclude
    prev_len = I2.models.get('len.fallback')

    def m_len(ctx, v):
        if isinstance(v, SymSet) and getattr(v, 'size', None) is not None:
            return Sym(v.size)
        if prev_len:
            return prev_len(ctx, v)
        raise OutOfSubset("len of %r" % (v,))
    I2.models['len.fallback'] = m_len
    size = z3.Int('exclusion_set_size')
    for given in (True, False):
        def thunk2(given=given):
            NT = z3.Int('n_dihedrals')
            I2.assume(NT >= 0)
            I2.assume(size >= 0)
            terms = SymSeq(NT, [z3.Array('dihedral_c%d' % c, INT, INT) for c in range(4)], 4, 'ndarray', 'dihedrals')
            atoms = I2.state.alloc('Atoms', {'__class__': 'Atoms', 'dihedrals': terms})
            st_x.clear()
            if given:
                inset = z3.Function('in_exclusion_set', INT, z3.BoolSort())
                excl = SymSet(lambda x: inset(x), INT, 'exclude')
                excl.size = size
            else:
                excl = None
            ctx = I2.block_ctx(RU, FN, {'atoms': atoms, 'exclude': excl})
            ctx.exec_block([exc_st])
            return atoms, terms, excl, dict(st_x)
        paths2 = I2.explore(thunk2)
        if not paths2:
            raise OutOfSubset("no path through the exclusion statement")
        for pi, p in enumerate(paths2):
            if p.outcome != 'return':
                raise OutOfSubset("the exclusion statement of assign_dihedral_types raises")
            atoms, terms0, excl, stx = p.value
            now = p.state.heap[atoms.oid]['dihedrals']
            tag = FN + ('[exclusion set]' if given else '[no exclusion set]')
            if 'call' in stx:
                ok = given and stx['call'][0] is terms0 and stx['call'][1] is excl and now is stx['out']
                S.add(I2, tag + "/post/exclusion-applied-only-when-the-set-can-hold-a-dihedral#%d" % pi, p.pc, z3.And(size >= 4, z3.BoolVal(bool(ok))),
                      clause='honours the exclusion set')
            else:
                goal = z3.BoolVal(now is terms0)
                if given:
                    goal = z3.And(size < 4, goal)
                S.add(I2, tag + "/post/no-exclusion-for-a-set-smaller-than-a-dihedral#%d" % pi, p.pc, goal, clause='honours the exclusion set')
            S.add_canary(I2, tag + "/canary#%d" % pi, [h for h in p.pc if not z3.is_quantifier(h)])
    S.add_interp_obligations(I2)
