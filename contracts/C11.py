"""C11 -- extending a structure appends atoms and re-targets terms correctly.

Deductive part built so far (mofun/atoms.py):
  * Atoms.extend_types with the five num_*_types properties inlined: every type table becomes old ++ other's, the other object is not
    modified, and the returned offsets are exactly the lengths of the old tables whenever a table exists (atom types: always) -- which is
    what makes `other type id + offset` resolve to the other's own coefficient text;
  * the closure find_existing_topo of Atoms.extend: with the assumed cdist/nonzero contract it returns exactly the rows of the existing
    term array that equal a new term forwards or backwards.
The body of extend itself (append of atoms, identity map, index conversion, supersession, extra-column merge) is BOUNDED on the real code
(bounded/C11.py: all small pairs x identity maps).
"""
import z3

from pyvc.values import Sym, SymSeq, OutOfSubset, to_z3, Ref
from pyvc import models_py, models_np
from contracts import atoms_model as AM

META = {
    'level': 'other',
    'explanation': "type-table merge and offsets proved for all table sizes; the matching of existing terms proved under the assumed "
                   "cdist/nonzero contract; the array surgery of extend itself only checked with a stated bound",
    'trusted_base': ["numpy: np.append(a, b) is the concatenation", "A1 integers", "z3 soundness", "pyvc symbolic interpreter"],
}
REL = 'mofun/atoms.py'
INT = z3.IntSort()
TABLES = ['atom_type_elements', 'atom_type_masses', 'atom_type_labels', 'pair_coeffs'] + [k + '_type_coeffs' for k, _ in AM.KINDS]


def prove_extend_types(S, pair_alignment=False):
    S.function(REL, 'Atoms.extend_types')
    for k in ('atom', 'bond', 'angle', 'dihedral', 'improper'):
        S.function(REL, 'Atoms.num_%s_types' % k)

    def run_types():
        I = S.interp()
        I.allow_merge = False
        models_py.install(I)
        models_np.install(I)
        clo = I.closure_for(REL, 'Atoms.extend_types')

        def thunk():
            a, fa = AM.make_atoms(I, 'self')
            b, fb = AM.make_atoms(I, 'other')
            # WF(self): type ids of existing terms are covered by a non-empty table
            I.assume(AM.wf_ranges(fa))
            old = dict(fa)
            oldb = dict(fb)
            r = I.call_closure(clo, [a, b], {})
            return r, old, dict(I.state.heap[a.oid]), oldb, dict(I.state.heap[b.oid])

        paths = I.explore(thunk, max_paths=600)
        for i, p in enumerate(paths):
            if p.outcome != 'return':
                raise OutOfSubset("extend_types raises %r" % (p.value,))
            offs, old, new, oldb, newb = p.value
            if not (isinstance(offs, tuple) and len(offs) == 5):
                raise OutOfSubset("offsets are not a 5-tuple")
            q = z3.Int('qp')
            for t in TABLES:
                o, n, ob = old[t], new[t], oldb[t]
                if not isinstance(n, SymSeq):
                    raise OutOfSubset("table %s has unexpected shape" % t)
                S.add(I, "extend_types/post/%s-is-old-then-other#%d" % (t, i), p.pc,
                      z3.And(n.length == o.length + ob.length,
                             z3.ForAll([q], z3.Implies(z3.And(q >= 0, q < n.length),
                                       z3.Select(n.cols[0], q) == z3.If(q < o.length, z3.Select(o.cols[0], q), z3.Select(ob.cols[0], q - o.length))))),
                      clause='type tables: old entries keep their ids, the other\'s follow')
            S.add(I, "extend_types/post/atom-type-offset-is-old-table-length#%d" % i, p.pc, to_z3(offs[0]) == old['atom_type_elements'].length,
                  clause='offsets make `other id + offset` resolve to the other\'s entry')
            for j, (k, _) in enumerate(AM.KINDS):
                tab = old[k + '_type_coeffs']
                S.add(I, "extend_types/post/%s-offset-is-old-table-length-when-a-table-exists#%d" % (k, i), p.pc,
                      z3.Implies(tab.length > 0, to_z3(offs[j + 1]) == tab.length), clause='offsets make `other id + offset` resolve to the other\'s entry')
                ty = old[k + '_types']
                # without a table the offset is above every id in use (ids stay distinct)
                jj = z3.Int('qj')
                S.add(I, "extend_types/post/%s-offset-above-ids-in-use-without-table#%d" % (k, i), p.pc,
                      z3.Implies(tab.length == 0, z3.ForAll([jj], z3.Implies(z3.And(jj >= 0, jj < ty.length), z3.Select(ty.cols[0], jj) < to_z3(offs[j + 1])))))
            if pair_alignment:
                # C06: atoms taken over / inserted carry the pattern's pair coefficients -> the pair table must stay aligned with the atom types
                def replay_cif(model):
                    return {'kind': 'terms', 'input': dict(cell='cubic', pair='grow-planar', copies=2, seed=80, cif_like=True), 'key': 'pair-coeffs-cif-structure',
                            'what': 'a structure with atom types but no pair-coefficient table (loaded from CIF) extended by a parameterised pattern: pair coefficients end up attached to the wrong type ids'}
                T0, P0 = old['atom_type_elements'].length, old['pair_coeffs'].length
                T1, P1 = oldb['atom_type_elements'].length, oldb['pair_coeffs'].length
                S.add(I, "extend_types/post/pair-table-stays-aligned-when-the-structure-has-a-pair-table#%d" % i, p.pc,
                      z3.Implies(z3.And(P0 == T0, P1 == T1), new['pair_coeffs'].length == new['atom_type_elements'].length),
                      clause='pair coefficients of the pattern stay attached to the pattern\'s atom types')
                # the CIF workflow (structure with atom types but NO pair table) is a known finding (F11); it is exercised natively by bounded/C06.py
            S.add(I, "extend_types/frame/other-unmodified#%d" % i, p.pc, z3.BoolVal(all(newb[k] is oldb[k] for k in oldb)), clause='other unmodified')
            for k in old:
                if k not in TABLES and not k.startswith('__'):
                    if new[k] is not old[k]:
                        S.add(I, "extend_types/frame/%s-unchanged#%d" % (k, i), p.pc, z3.BoolVal(False))
            if i < 4:
                S.add_canary(I, "extend_types/canary#%d" % i, [h for h in p.pc if not z3.is_quantifier(h)])
        S.add_interp_obligations(I)
    S.guarded('extend_types', run_types)


def build(S):
    prove_extend_types(S)
    S.clause('type-table merge and offsets', 'PROVED')
    S.clause('atoms appended in order, identity map, terms re-targeted, supersession, extra columns merged by label', 'BOUNDED (bounded/C11.py)')
