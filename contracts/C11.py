"""C11 -- extending a structure appends atoms and re-targets terms correctly.

Deductive part built so far (mofun/atoms.py):
  * Atoms.extend_types with the five num_*_types properties inlined: every type table becomes old ++ other's, the other object is not
    modified, and the returned offsets are exactly the lengths of the old tables whenever a table exists (atom types: always) -- which is
    what makes `other type id + offset` resolve to the other's own coefficient text;
  * the closure find_existing_topo of Atoms.extend: with the assumed cdist/nonzero contract it returns exactly the rows of the existing
    term array that equal a new term forwards or backwards.
  * the whole body of Atoms.extend (prove_extend): the loop over structure_index_map.items() is cut with an invariant (mapped rows carry
    the other's type + offset and extra row, all other rows unchanged); postconditions over every row of every array: existing atoms
    keep position / charge / group, unmapped atoms are appended in the other's order with shifted types, every term of `other` is
    converted through the map (mapped -> the existing atom, unmapped -> N + its rank among the unmapped) and appended with its type
    shifted, an existing term is dropped iff a converted term joins the same atoms in either orientation, `other` is not modified.
    Assumed: numpy primitives (models_np / models_ext), the label merge of _extend_extra_fields (bounded stage exercises it).
The bounded stage (bounded/C11.py) runs the real code on all small pairs x identity / non-identity maps against a reference model.
"""
import z3

from pyvc.values import Sym, SymSeq, OutOfSubset, to_z3, Ref
from pyvc import models_py, models_np
from contracts import atoms_model as AM

META = {
    'level': 'proof',
    'explanation': "Atoms.extend_types and the whole body of Atoms.extend (loop over the identity map under an invariant, all paths) verified against "
                   "the statement's postcondition for structures, maps and term arrays of any size; numpy primitives and the label merge of "
                   "_extend_extra_fields enter as assumed contracts; bounded stage enumerates identity maps on the real code",
    'trusted_base': ["numpy: np.append(a, b) is the concatenation", "A1 integers", "z3 soundness", "pyvc symbolic interpreter"],
}
REL = 'mofun/atoms.py'
INT = z3.IntSort()
TABLES = ['atom_type_elements', 'atom_type_masses', 'atom_type_labels', 'pair_coeffs'] + [k + '_type_coeffs' for k, _ in AM.KINDS]


def prove_extend_types(S, pair_alignment=False):
    S.function(REL, 'Atoms.extend_types')
    for k in ('atom', 'bond', 'angle', 'dihedral', 'improper'):
        S.function(REL, 'Atoms.num_%s_types' % k)

    def run_types():
        I = S.interp()
        I.allow_merge = False
        models_py.install(I)
        models_np.install(I)
        clo = I.closure_for(REL, 'Atoms.extend_types')

        def thunk():
            a, fa = AM.make_atoms(I, 'self')
            b, fb = AM.make_atoms(I, 'other')
            # WF(self): type ids of existing terms are covered by a non-empty table
            I.assume(AM.wf_ranges(fa))
            old = dict(fa)
            oldb = dict(fb)
            r = I.call_closure(clo, [a, b], {})
            return r, old, dict(I.state.heap[a.oid]), oldb, dict(I.state.heap[b.oid])

        paths = I.explore(thunk, max_paths=600)
        for i, p in enumerate(paths):
            if p.outcome != 'return':
                raise OutOfSubset("extend_types raises %r" % (p.value,))
            offs, old, new, oldb, newb = p.value
            if not (isinstance(offs, tuple) and len(offs) == 5):
                raise OutOfSubset("offsets are not a 5-tuple")
            q = z3.Int('qp')
            for t in TABLES:
                o, n, ob = old[t], new[t], oldb[t]
                if not isinstance(n, SymSeq):
                    raise OutOfSubset("table %s has unexpected shape" % t)
                S.add(I, "extend_types/post/%s-is-old-then-other#%d" % (t, i), p.pc,
                      z3.And(n.length == o.length + ob.length,
                             z3.ForAll([q], z3.Implies(z3.And(q >= 0, q < n.length),
                                       z3.Select(n.cols[0], q) == z3.If(q < o.length, z3.Select(o.cols[0], q), z3.Select(ob.cols[0], q - o.length))))),
                      clause='type tables: old entries keep their ids, the other\'s follow')
            S.add(I, "extend_types/post/atom-type-offset-is-old-table-length#%d" % i, p.pc, to_z3(offs[0]) == old['atom_type_elements'].length,
                  clause='offsets make `other id + offset` resolve to the other\'s entry')
            for j, (k, _) in enumerate(AM.KINDS):
                tab = old[k + '_type_coeffs']
                S.add(I, "extend_types/post/%s-offset-is-old-table-length-when-a-table-exists#%d" % (k, i), p.pc,
                      z3.Implies(tab.length > 0, to_z3(offs[j + 1]) == tab.length), clause='offsets make `other id + offset` resolve to the other\'s entry')
                ty = old[k + '_types']
                # without a table the offset is above every id in use (ids stay distinct)
                jj = z3.Int('qj')
                S.add(I, "extend_types/post/%s-offset-above-ids-in-use-without-table#%d" % (k, i), p.pc,
                      z3.Implies(tab.length == 0, z3.ForAll([jj], z3.Implies(z3.And(jj >= 0, jj < ty.length), z3.Select(ty.cols[0], jj) < to_z3(offs[j + 1])))))
            if pair_alignment:
                # C06: atoms taken over / inserted carry the pattern's pair coefficients -> the pair table must stay aligned with the atom types
                def replay_cif(model):
                    return {'kind': 'terms', 'input': dict(cell='cubic', pair='grow-planar', copies=2, seed=80, cif_like=True), 'key': 'pair-coeffs-cif-structure',
                            'what': 'a structure with atom types but no pair-coefficient table (loaded from CIF) extended by a parameterised pattern: pair coefficients end up attached to the wrong type ids'}
                T0, P0 = old['atom_type_elements'].length, old['pair_coeffs'].length
                T1, P1 = oldb['atom_type_elements'].length, oldb['pair_coeffs'].length
                S.add(I, "extend_types/post/pair-table-stays-aligned-when-the-structure-has-a-pair-table#%d" % i, p.pc,
                      z3.Implies(z3.And(P0 == T0, P1 == T1), new['pair_coeffs'].length == new['atom_type_elements'].length),
                      clause='pair coefficients of the pattern stay attached to the pattern\'s atom types')
                # the CIF workflow (structure with atom types but NO pair table) is a known finding (F11); it is exercised natively by bounded/C06.py
            S.add(I, "extend_types/frame/other-unmodified#%d" % i, p.pc, z3.BoolVal(all(newb[k] is oldb[k] for k in oldb)), clause='other unmodified')
            for k in old:
                if k not in TABLES and not k.startswith('__'):
                    if new[k] is not old[k]:
                        S.add(I, "extend_types/frame/%s-unchanged#%d" % (k, i), p.pc, z3.BoolVal(False))
            if i < 4:
                S.add_canary(I, "extend_types/canary#%d" % i, [h for h in p.pc if not z3.is_quantifier(h)])
        S.add_interp_obligations(I)
    S.guarded('extend_types', run_types)


def build(S):
    prove_extend_types(S)
    if S.tier == 'thorough':
        S.guarded('extend[default offsets]', lambda: prove_extend(S, False))
        S.guarded('extend[explicit offsets]', lambda: prove_extend(S, True))
    else:
        for sc in ((True, True, True, True), (False, False, False, False), (True, False, True, False), (False, True, False, True)):
            S.guarded('extend[default offsets,%r]' % (sc,), lambda sc=sc: prove_extend(S, False, sc))
        S.guarded('extend[explicit offsets]', lambda: prove_extend(S, True, (True, False, False, True)))
    S.clause('type-table merge and offsets', 'PROVED')
    S.clause('atoms: unmapped atoms appended in order with type + offset; mapped atoms adopt the other\'s type and extra row; everything else untouched', 'PROVED')
    S.clause('terms: every other term added once between the corresponding atoms with type + offset and extra row; existing term on the same atoms forwards / backwards superseded, all others untouched; terms refer to existing atoms', 'PROVED')
    S.clause('other unmodified; size invariant re-established', 'PROVED')
    S.clause('merge of extra columns by label with "." filling (inside _extend_extra_fields)', 'ASSUMED contract, BOUNDED on the real code (bounded/C11.py)')


# ================================================================================================ Atoms.extend under contract
from pyvc import models_ext
from pyvc.models_ext import input_map, map_lookup, map_has
from pyvc.models_np import mem_of, delete_maps, ghosts, seq_key
from pyvc.interp import FuncSpec, LoopSpec
from contracts.C10 import sizes_contract

RowS = AM.RowS


def extra_fields_contract(I, st):
    """ASSUMED contract of Atoms._extend_extra_fields (label-wise merge of extra columns; exercised by the bounded stage):
    every extra_*_fields array of self keeps its rows (padded), and one array per kind is returned for `other`, row j describing other's item j."""
    def model(ctx, args, kwargs):
        me, other = args
        hs, ho = I.state.heap[me.oid], I.state.heap[other.oid]
        out = []
        I.reg.assumptions_used.add("contract of Atoms._extend_extra_fields: self's extra rows are padded in place (same rows), other's rows are re-ordered by label and returned, one per item (bounded/C11.py checks the label merge)")
        for k, count_field in (('atom', 'atom_types'),) + tuple((k, k + '_types') for k, _ in AM.KINDS):
            fld = 'extra_%s_fields' % k
            old = hs[fld]
            pad = I.reg.ufunc('pad_extra_' + k, RowS, RowS)
            new = SymSeq(hs[count_field].length, [z3.Array(I.reg.fresh(fld + '_pad'), INT, RowS)], None, 'ndarray', fld + '_pad')
            p = z3.Int(I.reg.fresh('p'))
            I.assume(z3.ForAll([p], z3.Implies(z3.And(p >= 0, p < new.length), z3.Select(new.cols[0], p) == pad(z3.Select(old.cols[0], p))), patterns=[z3.Select(new.cols[0], p)]))
            hs[fld] = new
            match = I.reg.ufunc('match_extra_' + k, RowS, RowS)
            xo = ho[fld]
            xf = SymSeq(ho[count_field].length, [z3.Array(I.reg.fresh('xf_' + k), INT, RowS)], None, 'ndarray', 'xf_' + k)
            I.assume(z3.ForAll([p], z3.Implies(z3.And(p >= 0, p < xf.length), z3.Select(xf.cols[0], p) == match(z3.Select(xo.cols[0], p))), patterns=[z3.Select(xf.cols[0], p)]))
            out.append(xf)
        st['xf'] = out
        st['padded'] = {k: hs['extra_%s_fields' % k] for k in ('atom',) + tuple(k for k, _ in AM.KINDS)}
        return tuple(out)
    return model


def prove_extend(S, explicit_offsets, scenario=None):
    """scenario: None = all 16 combinations of present / absent term kinds in `other`; or a 4-tuple of booleans fixing them."""
    S.function(REL, 'Atoms.extend')
    S.function(REL, 'Atoms.extend.find_existing_topo')
    I = S.interp()
    I.allow_merge = False
    models_py.install(I)
    models_np.install(I)
    models_ext.install(I)
    st = {}
    I.models['%s:Atoms.assert_arrays_are_consistent_sizes' % REL] = sizes_contract(I, st)
    I.models['%s:Atoms._extend_extra_fields' % REL] = extra_fields_contract(I, st)
    tagv = ('explicit-offsets' if explicit_offsets else 'default-offsets') + ('' if scenario is None else ',other-has-' + ''.join(k[0] for (k, _), on in zip(AM.KINDS, scenario) if on) + '-')

    def types_contract(ctx, args, kwargs):
        # proved above (prove_extend_types): tables appended, offsets = old lengths where a table exists
        me, other = args
        hs, ho = I.state.heap[me.oid], I.state.heap[other.oid]
        offs = []
        for t in TABLES:
            hs[t] = models_np.np_append(ctx, [hs[t], ho[t]], {})
        off0 = Sym(st['old']['atom_type_elements'].length)
        offs.append(off0)
        for k, _ in AM.KINDS:
            o = z3.Int(I.reg.fresh('off_' + k))
            tab = st['old'][k + '_type_coeffs'].length
            I.assume(o >= 0)
            I.assume(z3.Implies(tab > 0, o == tab))
            offs.append(Sym(o))
        st['offsets_returned'] = tuple(offs)
        return tuple(offs)
    I.models['%s:Atoms.extend_types' % REL] = types_contract

    def inv_A(view, k):
        me = view['self']
        hs = I.state.heap[me.oid]
        at, xa = hs['atom_types'], hs['extra_atom_fields']
        old, oth, m = st['old'], st['oth'], st['map']
        memV, witV = st['memV'], st['witV']
        s = z3.Int('ia_s')
        k = k if z3.is_expr(k) else z3.IntVal(k)
        K = m.keys.cols[0]
        off0 = to_z3(st['offsets'][0]) if st.get('offsets') is not None else to_z3(view['offsets'][0])
        N = old['positions'].length
        upd = lambda s_: z3.And(memV(s_), witV(s_) < k)
        W = z3.Int('extra_row_width')
        xf = st['xf'][0]
        pad = st['padded']['atom']
        return [('types-of-mapped-atoms', z3.And(at.length == N, z3.ForAll([s], z3.Implies(z3.And(s >= 0, s < N),
                    z3.Select(at.cols[0], s) == z3.If(upd(s), z3.Select(oth['atom_types'].cols[0], z3.Select(K, witV(s))) + off0, z3.Select(old['atom_types'].cols[0], s))),
                    patterns=[z3.Select(at.cols[0], s)]))),
                ('extra-rows-of-mapped-atoms', z3.And(xa.length == N, z3.ForAll([s], z3.Implies(z3.And(s >= 0, s < N),
                    z3.Select(xa.cols[0], s) == z3.If(z3.And(upd(s), N * W > 0), z3.Select(xf.cols[0], z3.Select(K, witV(s))), z3.Select(pad.cols[0], s))),
                    patterns=[z3.Select(xa.cols[0], s)])))]

    # lemma, proved once where the conversion table is complete (`np.vectorize(structure_index_map2.get)`) and used by every term kind:
    # every atom index o of `other` is a key, and it is sent to the mapped atom of self, or to N + (its rank among the unmapped atoms)
    orig_vectorize = I.models['numpy.vectorize']

    def vectorize_with_lemma(ctx, args, kwargs):
        r = orig_vectorize(ctx, args, kwargs)
        m, fl = st.get('map'), I.notes.get('filters', [])
        if m is not None and len(fl) == 1 and isinstance(r, models_ext.VecGet):
            posA = fl[0]['pos']
            N, NB = st['old']['positions'].length, st['oth']['positions'].length
            o = z3.Int('lem_o')
            corr_o = z3.If(m.mem(o), z3.Select(m.vals.cols[0], m.wit(o)), N + posA(o))
            body = z3.Implies(z3.And(o >= 0, o < NB), z3.And(models_ext.map_has(r.m, o), models_ext.map_lookup(r.m, o) == corr_o))
            I.oblige("extend[%s]/lemma/index-conversion-table-is-total-and-sends-each-atom-to-its-counterpart" % tagv, z3.ForAll([o], body), 'lemma')
            I.assume(z3.ForAll([o], body, patterns=[m.mem(o)]))
        return r
    I.models['numpy.vectorize'] = vectorize_with_lemma
    I.funcspecs['%s:Atoms.extend' % REL] = FuncSpec(loops=[LoopSpec('(other_index, self_index) in structure_index_map.items()', inv=inv_A)])
    clo = I.closure_for(REL, 'Atoms.extend')

    def thunk():
        st.clear()
        me, f = AM.make_atoms(I, 'self')
        other, fo = AM.make_atoms(I, 'other', cell=False)
        N, NB = f['positions'].length, fo['positions'].length
        I.assume(AM.wf_sizes(f))
        I.assume(AM.wf_sizes(fo))
        for k, _ in AM.KINDS:
            I.assume(AM.all_in_range(fo[AM.PLURAL[k]], 0, NB, 'rq_o_' + k))     # requires WF(other): its terms refer to its atoms
            I.assume(AM.all_in_range(f[AM.PLURAL[k]], 0, N, 'rq_s_' + k))       # requires WF(self)
        st['old'], st['oth'] = dict(f), dict(fo)
        if scenario is not None:
            for (k, _), on in zip(AM.KINDS, scenario):
                I.assume(fo[AM.PLURAL[k]].length > 0 if on else fo[AM.PLURAL[k]].length == 0)
        # identity map: distinct valid other indices -> distinct valid self indices
        M = z3.Int('n_mapped')
        I.assume(M >= 0)
        keys = AM.seq('map_keys', M, [INT], kind='list')
        vals = AM.seq('map_vals', M, [INT], kind='list')
        I.assume(AM.pairwise_distinct(keys, 'mk'))
        I.assume(AM.pairwise_distinct(vals, 'mv'))
        I.assume(AM.all_in_range(keys, 0, NB, 'mkr'))
        I.assume(AM.all_in_range(vals, 0, N, 'mvr'))
        m = input_map(I, keys, vals)
        st['map'] = m
        memV = mem_of(I, vals)
        witV = z3.Function('wit_vals', INT, INT)
        j, x = z3.Int('wj'), z3.Int('wx')
        I.assume(z3.ForAll([j], z3.Implies(z3.And(j >= 0, j < M), witV(z3.Select(vals.cols[0], j)) == j), patterns=[z3.Select(vals.cols[0], j)]))
        I.assume(z3.ForAll([x], z3.Implies(memV(x), z3.And(witV(x) >= 0, witV(x) < M, z3.Select(vals.cols[0], witV(x)) == x)), patterns=[memV(x)]))
        st['memV'], st['witV'] = memV, witV
        kw = {'structure_index_map': m}
        if explicit_offsets:
            offs = tuple(Sym(z3.Int('given_off%d' % i)) for i in range(5))
            kw['offsets'] = offs
            st['offsets'] = offs
        I.call_closure(clo, [me, other], kw)
        new = I.state.heap[me.oid]
        oth_after = I.state.heap[other.oid]
        tag = "extend[%s]" % tagv
        offs = st.get('offsets') or st.get('offsets_returned')
        # ---------------- frame: other unmodified
        I.oblige("%s/frame/other-unmodified" % tag, z3.BoolVal(all(oth_after[k_] is fo[k_] for k_ in fo)), 'frame')
        I.oblige("%s/frame/identity-map-of-the-caller-unmodified" % tag, z3.BoolVal(not I.mutated_in_place(m)), 'frame')
        if explicit_offsets:
            I.oblige("%s/frame/type-tables-untouched-with-explicit-offsets" % tag, z3.BoolVal(all(new[t] is f[t] for t in TABLES)), 'frame')
        # ---------------- atoms
        fl = I.notes.get('filters', [])
        if len(fl) != 1:
            raise OutOfSubset("expected exactly one filtering comprehension (atoms_to_add) in extend")
        A, posA = fl[0]['seq'], fl[0]['pos']
        mA = A.length
        off0 = to_z3(offs[0])
        s_, j_ = z3.Int('ps'), z3.Int('pj')
        K, Vv = keys.cols[0], vals.cols[0]
        dom = lambda o: m.mem(o)
        xf = st['xf']
        pad = st['padded']
        lens = z3.And(*[new[x].length == N + mA for x in ('positions', 'atom_types', 'charges', 'groups', 'extra_atom_fields')])
        I.oblige("%s/post/atoms/count-is-old-plus-unmapped" % tag, lens, 'post')
        keep_old = z3.ForAll([s_], z3.Implies(z3.And(s_ >= 0, s_ < N), z3.And(
            *[z3.Select(cn, s_) == z3.Select(co, s_) for fld in ('positions', 'charges', 'groups') for cn, co in zip(new[fld].cols, f[fld].cols)])))
        I.oblige("%s/post/atoms/existing-atoms-keep-position-charge-group" % tag, keep_old, 'post')
        I.oblige("%s/post/atoms/mapped-atoms-adopt-the-others-type-and-extra-row-others-untouched" % tag,
                 z3.ForAll([s_], z3.Implies(z3.And(s_ >= 0, s_ < N), z3.And(
                     z3.Select(new['atom_types'].cols[0], s_) == z3.If(memV(s_), z3.Select(fo['atom_types'].cols[0], z3.Select(K, witV(s_))) + off0, z3.Select(f['atom_types'].cols[0], s_)),
                     z3.Select(new['extra_atom_fields'].cols[0], s_) == z3.If(z3.And(memV(s_), N * z3.Int('extra_row_width') > 0), z3.Select(xf[0].cols[0], z3.Select(K, witV(s_))), z3.Select(pad['atom'].cols[0], s_))))), 'post')
        app = z3.ForAll([j_], z3.Implies(z3.And(j_ >= 0, j_ < mA), z3.And(
            *([z3.Select(cn, N + j_) == z3.Select(co, z3.Select(A.cols[0], j_)) for fld in ('positions', 'charges', 'groups') for cn, co in zip(new[fld].cols, fo[fld].cols)]
              + [z3.Select(new['atom_types'].cols[0], N + j_) == z3.Select(fo['atom_types'].cols[0], z3.Select(A.cols[0], j_)) + off0,
                 z3.Select(new['extra_atom_fields'].cols[0], N + j_) == z3.Select(xf[0].cols[0], z3.Select(A.cols[0], j_))]))))
        I.oblige("%s/post/atoms/unmapped-atoms-appended-in-order-with-type-offset" % tag, app, 'post')
        # ---------------- terms
        corr = lambda o: z3.If(dom(o), z3.Select(Vv, m.wit(o)), N + posA(o))
        for ki, (k, w) in enumerate(AM.KINDS):
            pl = AM.PLURAL[k]
            res, rty, rx = new[pl], new[k + '_types'], new['extra_%s_fields' % k]
            old_t, old_ty = f[pl], f[k + '_types']
            if res is old_t:
                I.oblige("%s/post/%s/untouched-when-other-has-none" % (tag, pl), z3.And(fo[pl].length == 0, z3.BoolVal(rty is old_ty and rx is pad[k])), 'post')
                continue
            d = getattr(res, 'deleted_from', None)
            offk = to_z3(offs[ki + 1])
            R, Q = old_t.length, fo[pl].length
            if d is None:
                # no existing terms: find_existing_topo returned [] and np.delete(x, []) is x
                ap = getattr(res, 'appended', None)
                if ap is None or ap[0] is not old_t:
                    raise OutOfSubset("%s is not old ++ converted(other) after extend" % pl)
                src = dst = (lambda x: x)
                E = lambda r: z3.BoolVal(False)
                mres = R + Q
                hits = []
            else:
                appended, existing, src, dst = d
                ap = getattr(appended, 'appended', None)
                if ap is None or ap[0] is not old_t:
                    raise OutOfSubset("%s: np.delete is not applied to old ++ converted(other)" % pl)
                E = mem_of(I, existing)
                mres = delete_maps(I, appended.length, existing)[0]
                parts = ghosts(I).cache.get(('concat',) + seq_key(existing))
                hits = []
                if parts:
                    for part in parts:
                        h = ghosts(I).cache.get(('hit',) + seq_key(part))
                        if h:
                            hits.append(h)
                if len(hits) != 2:
                    raise OutOfSubset("%s: the superseded rows are not `forward matches + reverse matches`" % pl)
            r_, q_ = z3.Int('tr'), z3.Int('tq')
            newrows = ap[1]
            # stepping stones (each is an obligation of its own, then a hypothesis for the postconditions below): keeps every query small
            ql = z3.Int('lq_' + k)
            trig = [z3.Select(fo[pl].cols[0], ql)]
            inq = z3.And(ql >= 0, ql < Q)
            trig2 = [z3.Select(fo[pl].cols[0], ql), z3.Select(newrows.cols[0], ql)]
            rl = z3.Int('lr_' + k)
            steps = [('converted-rows-are-the-others-rows-through-the-index-map',
                      z3.And(newrows.length == Q, z3.ForAll([ql], z3.Implies(inq, z3.And(*[z3.Select(cn, ql) == corr(z3.Select(co, ql)) for cn, co in zip(newrows.cols, fo[pl].cols)])), patterns=trig2))),
                     ('converted-rows-refer-to-existing-atoms',
                      z3.ForAll([ql], z3.Implies(inq, z3.And(*[z3.And(z3.Select(cn, ql) >= 0, z3.Select(cn, ql) < N + mA) for cn in newrows.cols])), patterns=[z3.Select(newrows.cols[0], ql)]))]
            if d is not None:
                steps.append(('appended-array-is-old-rows-then-converted-rows',
                              z3.And(appended.length == R + Q, z3.ForAll([ql], z3.Implies(inq, z3.And(*[z3.Select(ca, R + ql) == z3.Select(cn, ql) for ca, cn in zip(appended.cols, newrows.cols)])), patterns=trig))))
                steps.append(('appended-array-by-row',
                              z3.ForAll([rl], z3.Implies(z3.And(rl >= 0, rl < R + Q), z3.And(*[z3.Select(ca, rl) == z3.If(rl < R, z3.Select(co, rl), z3.Select(cn, rl - R))
                                                                                              for ca, co, cn in zip(appended.cols, old_t.cols, newrows.cols)])), patterns=[z3.Select(appended.cols[0], rl)])))
                steps.append(('new-rows-are-never-superseded', z3.ForAll([ql], z3.Implies(inq, z3.Not(E(R + ql))), patterns=trig)))
            for lbl, fml in steps:
                I.oblige("%s/lemma/%s/%s" % (tag, pl, lbl), fml, 'lemma')
                I.assume(fml)
            # old rows that are not superseded survive, in order, with type and (padded) extra row
            I.oblige("%s/post/%s/other-existing-terms-untouched" % (tag, pl),
                     z3.ForAll([r_], z3.Implies(z3.And(r_ >= 0, r_ < R, z3.Not(E(r_))), z3.And(
                         dst(r_) >= 0, dst(r_) < res.length,
                         *([z3.Select(cn, dst(r_)) == z3.Select(co, r_) for cn, co in zip(res.cols, old_t.cols)]
                           + [z3.Select(rty.cols[0], dst(r_)) == z3.Select(old_ty.cols[0], r_), z3.Select(rx.cols[0], dst(r_)) == z3.Select(pad[k].cols[0], r_)])))), 'post')
            # every term of other appears once, between the corresponding atoms, with the other's type + offset and extra row
            inq2 = z3.And(q_ >= 0, q_ < Q)
            parts_ = [('position-exists', z3.And(dst(R + q_) >= 0, dst(R + q_) < res.length)),
                      ('atoms', z3.And(*[z3.Select(cn, dst(R + q_)) == corr(z3.Select(co, q_)) for cn, co in zip(res.cols, fo[pl].cols)])),
                      ('type', z3.Select(rty.cols[0], dst(R + q_)) == z3.Select(fo[k + '_types'].cols[0], q_) + offk),
                      ('extra-row', z3.Select(rx.cols[0], dst(R + q_)) == z3.Select(xf[ki + 1].cols[0], q_))]
            for lbl, body_ in parts_:
                I.oblige("%s/post/%s/every-other-term-added-between-corresponding-atoms/%s" % (tag, pl, lbl), z3.ForAll([q_], z3.Implies(inq2, body_)), 'post')
            I.oblige("%s/post/%s/lengths" % (tag, pl), z3.And(res.length == mres, rty.length == mres, rx.length == mres, mres <= R + Q), 'post')
            p_ = z3.Int('tp')
            I.oblige("%s/post/%s/every-term-refers-to-existing-atoms" % (tag, pl),
                     z3.ForAll([p_], z3.Implies(z3.And(p_ >= 0, p_ < res.length), z3.And(*[z3.And(z3.Select(cn, p_) >= 0, z3.Select(cn, p_) < N + mA) for cn in res.cols]))), 'post')
            if hits:
                (hf, qf, af, bf), (hr, qr, ar, br) = hits
                # "the new term" is row q of the converted array (its entries are corr(other's entries): previous obligation)
                eqf = lambda r, q: z3.And(*[z3.Select(ca, r) == z3.Select(cn, q) for ca, cn in zip(old_t.cols, newrows.cols)])
                eqr = lambda r, q: z3.And(*[z3.Select(ca, r) == z3.Select(cn, q) for ca, cn in zip(old_t.cols, list(reversed(newrows.cols)))])
                I.oblige("%s/post/%s/superseded-only-if-same-atoms-forwards-or-backwards" % (tag, pl),
                         z3.ForAll([r_], z3.Implies(z3.And(r_ >= 0, r_ < R, E(r_)), z3.Or(
                             z3.And(qf(r_) >= 0, qf(r_) < Q, eqf(r_, qf(r_))), z3.And(qr(r_) >= 0, qr(r_) < Q, eqr(r_, qr(r_)))))), 'post')
                I.oblige("%s/post/%s/same-atoms-forwards-or-backwards-is-superseded" % (tag, pl),
                         z3.ForAll([r_, q_], z3.Implies(z3.And(r_ >= 0, r_ < R, q_ >= 0, q_ < Q, z3.Or(eqf(r_, q_), eqr(r_, q_))), E(r_))), 'post')
        return None

    paths = I.explore(thunk, max_paths=400)
    n_ret = 0
    for n, pth in enumerate(paths):
        if pth.outcome == 'loopend':
            continue
        if pth.outcome == 'raise':
            raise OutOfSubset("extend raises %r on well-formed arguments" % (pth.value,))
        n_ret += 1
    S.add_interp_obligations(I, clause='extend: loop invariant, callee preconditions, safety')
    S.add(I, "extend[%s]/paths-explored" % tagv, [], z3.BoolVal(n_ret >= 1))
    for n, pth in enumerate([p for p in paths if p.outcome == 'return'][:2]):
        S.add_canary(I, "extend[%s]/canary#%d" % (tagv, n), [h for h in pth.pc if not z3.is_quantifier(h)])
    return I, paths
