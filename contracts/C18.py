"""C18 -- UFF parameters follow the published formulas for every type combination.

Functions under contract (mofun/rough_uff.py): guess_bond_order, bond_params, angle_params, dihedral_params,
pair_coeffs.  The parameter table is a *symbolic* map (any real-valued table), atom types are symbolic strings;
string tests (s[2], len(s), s[0:2].strip('_')) are uninterpreted functions shared by code and spec, with their
values on every string literal of the code given as facts.  Verification is modular: angle_params and
dihedral_params are checked against the contracts of bond_params / guess_bond_order, not their bodies.
"""
import z3

from pyvc.values import Sym, SymOpt, StrS, OutOfSubset, to_z3, SmallSet
from pyvc.interp import ExcVal, RaiseSig
from pyvc import models_py

META = {
    'level': 'proof',
    'explanation': "code == spec function and reversal symmetry, over reals with log/sqrt/cos/sin uninterpreted; "
                   "finiteness/positivity/style exhaustively on the real table (bounded stage)",
    'trusted_base': ["A2: float arithmetic treated as real arithmetic", "z3 / cvc5 soundness", "pyvc symbolic interpreter",
                     "math.log/sqrt/cos/sin are uninterpreted functions with sqrt(x)^2 = x (x >= 0), log 1 = 0, sin^2 + cos^2 = 1",
                     "the table is non-degenerate: no denominator in the formulas vanishes (checked exhaustively on the real table by the bounded stage)"],
}

R = z3.RealSort()
RV = z3.RealVal
REL = 'mofun/rough_uff.py'


class SymTable:
    def __init__(self, name):
        self.name = name


class TableRow:
    def __init__(self, table, key):
        self.table = table
        self.key = key


def install_table(I):
    def getitem_table(ctx, cont, idx):
        if idx[0] != 'index':
            raise OutOfSubset("table slice")
        k = idx[1]
        e = to_z3(k)
        if e.sort() != StrS:
            raise OutOfSubset("table key of sort %s" % e.sort())
        iskey = I.reg.ufunc('is_uff_key', StrS, z3.BoolSort())
        I.oblige("%s/safety/key-in-table" % ctx.speckey, iskey(e), 'safety')
        return TableRow(cont, e)

    def getitem_row(ctx, row, idx):
        if idx[0] != 'index' or not isinstance(idx[1], int):
            raise OutOfSubset("symbolic column index")
        return Sym(col(I, idx[1])(row.key))
    I.models['getitem:SymTable'] = getitem_table
    I.models['getitem:TableRow'] = getitem_row
    I.global_overrides[(REL, 'UFF4MOF')] = SymTable('UFF4MOF')


def col(I, k):
    return I.reg.ufunc('UFF4MOF.col%d' % k, StrS, R)


# ------------------------------------------------------------------------------------------------ spec functions
class Spec:
    """Spec functions (z3 terms) written from Rappe et al. 1992 and the documented special cases."""

    def __init__(self, I):
        self.I = I
        reg = I.reg
        self.lit = reg.strlit
        self.log = reg.ufunc('log', R, R)
        self.sqrt = reg.ufunc('sqrt', R, R)
        self.cos = reg.ufunc('cos', R, R)
        self.sin = reg.ufunc('sin', R, R)
        self.pi = z3.Real('math.pi')
        self.slen = reg.ufunc('str.len', StrS, z3.IntSort())
        self.char2 = reg.ufunc('str.char[2]', StrS, StrS)
        self.slice02 = reg.ufunc('str.slice[0:2:None]', StrS, StrS)
        self.strip_ = reg.ufunc("str.strip('_',)", StrS, StrS)
        reg.strfun_defs['str.len'] = len
        reg.strfun_defs['str.char[2]'] = lambda s: s[2]
        reg.strfun_defs['str.slice[0:2:None]'] = lambda s: s[0:2]
        reg.strfun_defs["str.strip('_',)"] = lambda s: s.strip('_')

    def T(self, k, a):
        return col(self.I, k)(a)

    def isin(self, a, names):
        return z3.Or(*[a == self.lit(n) for n in names])

    # bond order -------------------------------------------------------------------------------
    def guess(self, a1, a2, rules=()):
        single = ['H_', 'F_', 'Cl', 'Br', 'I_', 'C_3', 'N_3', 'O_3']
        r = z3.If(z3.Or(self.isin(a1, single), self.isin(a2, single)), RV(1),
                  z3.If(z3.And(a1 == a2, self.isin(a1, ['C_2', 'N_2', 'O_2'])), RV(2),
                        z3.If(z3.And(a1 == a2, self.isin(a1, ['C_R', 'N_R', 'O_R'])), RV('3/2'), RV(1))))
        for (r1, r2, bo) in reversed(list(rules)):
            same_set = z3.And(z3.Or(a1 == r1, a1 == r2), z3.Or(a2 == r1, a2 == r2),
                              z3.Or(r1 == a1, r1 == a2), z3.Or(r2 == a1, r2 == a2))
            r = z3.If(same_set, bo, r)
        return r

    # bonds (eqs 2, 3, 4, 6) -------------------------------------------------------------------
    def rij(self, a1, a2, bo):
        ri, rj = self.T(0, a1), self.T(0, a2)
        xi, xj = self.T(8, a1), self.T(8, a2)
        rbo = -RV('0.1332') * (ri + rj) * self.log(bo)
        d = self.sqrt(xi) - self.sqrt(xj)
        ren = ri * rj * (d * d) / (xi * ri + xj * rj)
        return ri + rj + rbo - ren

    def bond(self, a1, a2, bo):
        r = self.rij(a1, a2, bo)
        k = RV('664.12') * self.T(5, a1) * self.T(5, a2) / (r * r * r)
        return (k / 2, r)

    # angles (eq 13 and the linear / trigonal / square / octahedral special forms) --------------
    def coord4(self, a):
        return z3.And(self.slen(a) > 2, self.char2(a) == self.lit('3'))

    def angle(self, a1, a2, a3, bo1, bo2):
        th0 = self.T(1, a2)
        th = th0 * 2 * self.pi / 360
        c, s = self.cos(th), self.sin(th)
        rij, rjk = self.rij(a1, a2, bo1), self.rij(a2, a3, bo2)
        rik = self.sqrt(rij * rij + rjk * rjk - 2 * rij * rjk * c)
        k = RV('664.12') * (self.T(5, a1) * self.T(5, a3) / (rik * rik * rik * rik * rik)) * \
            (3 * rij * rjk * (1 - c * c) - (rik * rik) * c)
        c2 = 1 / (4 * s * s)
        c1 = -4 * c2 * c
        c0 = c2 * (2 * c * c + 1)
        cases = [
            (th0 == 180, ('cosine/periodic', k, 1, 1)),
            (th0 == 120, ('cosine/periodic', k, -1, 3)),
            (z3.And(th0 == 90, self.coord4(a2)), ('cosine/periodic', k, -1, 2)),
            (th0 == 90, ('cosine/periodic', k, 1, 4)),
            (z3.BoolVal(True), ('fourier', k, c0, c1, c2)),
        ]
        return cases

    # torsions (eqs 16, 17 and exceptions) ------------------------------------------------------
    def hyb(self, a):
        return z3.If(self.slen(a) > 2, self.char2(a), self.I.reg.pyint_as_str(0))

    def elem(self, a):
        return self.strip_(self.slice02(a))

    def torsion(self, a1, a2, a3, a4, M, bo, main_group):
        """Returns list of (condition, outcome) in decision order; outcome: tuple | None | 'raise'."""
        h = [self.hyb(a) for a in (a1, a2, a3, a4)]
        el = [self.elem(a) for a in (a1, a2, a3, a4)]
        L = self.lit
        oxy = ['O', 'S', 'Se', 'Te', 'Po']
        is3 = lambda x: x == L('3')
        is2R = lambda x: z3.Or(x == L('2'), x == L('R'))
        is2 = lambda x: x == L('2')
        inoxy = lambda e: self.isin(e, oxy)
        Mr = z3.ToReal(M)
        both_oxy = z3.And(inoxy(el[1]), inoxy(el[2]))
        v1 = z3.If(both_oxy, z3.If(el[1] == L('O'), RV(2), RV('6.8')), self.T(6, a2))
        v2 = z3.If(both_oxy, z3.If(el[2] == L('O'), RV(2), RV('6.8')), self.T(6, a3))
        n33 = z3.If(both_oxy, 2, 3)
        v33 = self.sqrt(v1 * v2) / Mr
        v22 = 5 * self.sqrt(self.T(7, a2) * self.T(7, a3)) * (1 + RV('4.18') * self.log(bo)) / Mr
        propene = z3.Or(z3.And(is2(h[0]), is2(h[1])), z3.And(is2(h[2]), is2(h[3])))
        oxy_exc = z3.Or(z3.And(is3(h[1]), inoxy(el[1]), z3.Not(inoxy(el[2]))),
                        z3.And(is3(h[2]), inoxy(el[2]), z3.Not(inoxy(el[1]))))
        mixed = z3.And(z3.Or(is2R(h[1]), is3(h[1])), z3.Or(is2R(h[2]), is3(h[2])))
        sp = z3.Or(h[1] == L('1'), h[2] == L('1'))
        mg = z3.And(self.isin(el[1], main_group), self.isin(el[2], main_group))
        return [
            (z3.And(is3(h[1]), is3(h[2])), ('harmonic', v33 / 2, 1, n33)),
            (z3.And(is2R(h[1]), is2R(h[2])), ('harmonic', v22 / 2, -1, 2)),
            (z3.And(mixed, propene), ('harmonic', (2 / Mr) / 2, 1, 3)),
            (z3.And(mixed, oxy_exc), ('harmonic', v22 / 2, 1, 2)),
            (mixed, ('harmonic', (1 / Mr) / 2, -1, 6)),
            (sp, None),
            (z3.Not(mg), None),
            (z3.BoolVal(True), 'raise'),
        ]


def first_match(cases):
    """[(cond, outcome)] in decision order -> [(exclusive condition, outcome)]"""
    out = []
    prior = []
    for c, o in cases:
        out.append((z3.And(c, *[z3.Not(p) for p in prior]), o))
        prior.append(c)
    return out


def outcome_eq(I, res, outcome):
    """z3 formula: engine result `res` (path outcome) equals the spec outcome."""
    kind, val = res
    if outcome == 'raise':
        return z3.BoolVal(kind == 'raise')
    if kind == 'raise':
        return z3.BoolVal(False)
    if outcome is None:
        return z3.BoolVal(val is None)
    if val is None or not isinstance(val, tuple) or len(val) != len(outcome):
        return z3.BoolVal(False)
    parts = []
    for x, y in zip(val, outcome):
        if isinstance(y, str):
            parts.append(z3.BoolVal(x == y) if isinstance(x, str) else (to_z3(x) == I.reg.strlit(y)))
        else:
            ex, ey = to_z3(x), to_z3(y) if not z3.is_expr(y) else y
            if z3.is_expr(ey) and ey.sort() == z3.RealSort() and ex.sort() != z3.RealSort():
                ex = z3.ToReal(ex)
            if z3.is_expr(ey) and ey.sort() == z3.IntSort() and ex.sort() == z3.RealSort():
                ey = z3.ToReal(ey)
            if not z3.is_expr(ey):
                ey = z3.IntVal(ey)
                if ex.sort() == z3.RealSort():
                    ey = z3.ToReal(ey)
            parts.append(ex == ey)
    return z3.And(*parts)


def math_axioms(sp):
    x = z3.Real('x')
    return [sp.log(RV(1)) == 0]


def not_div(ob):
    return '/safety/div-nonzero' not in ob.name


def build(S):
    S.assume("A2: float arithmetic treated as real arithmetic")
    S.assume("denominators of the UFF formulas are non-zero for the table (requires; exhaustively checked on the real table)")
    for fn in ('guess_bond_order', 'bond_params', 'angle_params', 'dihedral_params', 'pair_coeffs'):
        S.function(REL, fn)
    main_group = None

    def new_interp():
        I = S.interp()
        models_py.install(I)
        models_py.install_strings(I)
        install_table(I)
        sp = Spec(I)
        return I, sp

    A = lambda n: z3.Const(n, StrS)

    # ---------------------------------------------------------------- guess_bond_order == spec (rules: none / one / two)
    def run_guess():
        for nrules in (0, 1, 2):
            I, sp = new_interp()
            a1, a2 = A('a1'), A('a2')
            rules = [(A('r%da' % i), A('r%db' % i), z3.Real('rbo%d' % i)) for i in range(nrules)]
            clo = I.closure_for(REL, 'guess_bond_order')

            def thunk():
                rv = None if nrules == 0 else [(SmallSet([Sym(x), Sym(y)]), Sym(b)) for x, y, b in rules]
                return I.call_closure(clo, [Sym(a1), Sym(a2)], {'rules': rv})
            paths = I.explore(thunk)
            want = sp.guess(a1, a2, rules)
            for i, p in enumerate(paths):
                if p.outcome != 'return':
                    raise OutOfSubset("guess_bond_order raises")
                S.add(I, "guess_bond_order[rules=%d]/post/equals-spec#%d" % (nrules, i), p.pc,
                      z3.ToReal(to_z3(p.value)) == want if to_z3(p.value).sort() == z3.IntSort() else to_z3(p.value) == want,
                      clause='bond-order guesses')
                S.add_canary(I, "guess_bond_order[rules=%d]/canary#%d" % (nrules, i), p.pc)
            S.add_interp_obligations(I, only=not_div)
            if nrules == 1:
                # lemma: the spec is symmetric
                S.add(I, "lemma/spec_guess-symmetric", [], sp.guess(a1, a2, rules) == sp.guess(a2, a1, rules), kind='lemma')
    S.guarded('guess_bond_order', run_guess)

    # contract models used by callers ------------------------------------------------------------
    # A caller's proof runs twice: without user rules and with an ARBITRARY rule list R (an opaque value).  The bond order guessed under R is the
    # uninterpreted function guess_with_rules(R, a1, a2): what a caller has to get right is WHICH pair and WHICH rule list it asks about.
    from pyvc.values import Opaque
    from pyvc.models_py import ObjS

    def guess_under(I, sp, rules):
        if rules is None:
            return lambda a, b: sp.guess(a, b)
        if isinstance(rules, Opaque):
            g = I.reg.ufunc('guess_with_rules', ObjS, StrS, StrS, R)
            return lambda a, b: g(rules.term, a, b)
        raise OutOfSubset("bond-order rules of an unmodelled shape: %r" % (rules,))

    def guess_contract(I, sp):
        def model(ctx, args, kwargs):
            a1, a2 = to_z3(args[0]), to_z3(args[1])
            rules = kwargs.get('rules', args[2] if len(args) > 2 else None)
            return Sym(guess_under(I, sp, rules)(a1, a2))
        return model

    def bond_contract(I, sp):
        def model(ctx, args, kwargs):
            a1, a2 = to_z3(args[0]), to_z3(args[1])
            bo = kwargs.get('bond_order', args[2] if len(args) > 2 else None)
            rules = kwargs.get('bond_order_rules', args[3] if len(args) > 3 else None)
            guess = guess_under(I, sp, rules)
            iskey = I.reg.ufunc('is_uff_key', StrS, z3.BoolSort())
            I.oblige("%s/pre/bond_params-keys" % ctx.speckey, z3.And(iskey(a1), iskey(a2)), 'pre')
            if bo is None:
                boz = guess(a1, a2)
            elif isinstance(bo, SymOpt):
                boz = z3.If(bo.is_none, guess(a1, a2), to_z3(bo.val, sort=R))
            else:
                boz = to_z3(bo, sort=R)
            k, r = sp.bond(a1, a2, boz)
            return (Sym(k), Sym(r))
        return model

    def bo_opt(name):
        return SymOpt(z3.Bool(name + '_none'), Sym(z3.Real(name)))

    def bo_eff(sp, opt, a, b, guess=None):
        return z3.If(opt.is_none, (guess or sp.guess)(a, b), opt.val.e)

    RULE_SCENARIOS = (('', None), ('[user rules]', 'R'))

    def rules_value(tag):
        return None if tag is None else Opaque(z3.Const('user_rules', ObjS), 'bond_order_rules')

    # ---------------------------------------------------------------- bond_params == spec, symmetric
    def run_bond():
      for rtag, rk in RULE_SCENARIOS:
        I, sp = new_interp()
        I.models[REL + ':guess_bond_order'] = guess_contract(I, sp)
        iskey = I.reg.ufunc('is_uff_key', StrS, z3.BoolSort())
        a1, a2 = A('a1'), A('a2')
        bo = bo_opt('bo')
        clo = I.closure_for(REL, 'bond_params')
        rv = rules_value(rk)
        guess = guess_under(I, sp, rv)

        def thunk():
            I.assume(iskey(a1)); I.assume(iskey(a2))
            return I.call_closure(clo, [Sym(a1), Sym(a2)], dict({'bond_order': bo}, **({'bond_order_rules': rv} if rv is not None else {})))
        paths = I.explore(thunk)
        for i, p in enumerate(paths):
            if p.outcome != 'return':
                raise OutOfSubset("bond_params raises")
            k, r = sp.bond(a1, a2, bo_eff(sp, bo, a1, a2, guess))
            S.add(I, "bond_params%s/post/equals-spec#%d" % (rtag, i), p.pc + math_axioms(sp),
                  z3.And(to_z3(p.value[0]) == k, to_z3(p.value[1]) == r), clause='bond length and force constant')
            S.add_canary(I, "bond_params%s/canary#%d" % (rtag, i), p.pc)
        S.add_interp_obligations(I, only=not_div)
      if True:
        b = z3.Real('b')
        k1, r1 = sp.bond(a1, a2, b)
        k2, r2 = sp.bond(a2, a1, b)
        sq = [z3.Implies(x >= 0, z3.And(sp.sqrt(x) >= 0, sp.sqrt(x) * sp.sqrt(x) == x)) for x in (sp.T(8, a1), sp.T(8, a2))]
        S.add(I, "lemma/spec_bond-reversal-symmetric", sq, z3.And(k1 == k2, r1 == r2), kind='lemma', clause='reversal symmetry (bond)')
    S.guarded('bond_params', run_bond)

    # ---------------------------------------------------------------- angle_params == spec, symmetric
    def run_angle():
      for rtag, rk in RULE_SCENARIOS:
        I, sp = new_interp()
        I.models[REL + ':bond_params'] = bond_contract(I, sp)
        I.models[REL + ':guess_bond_order'] = guess_contract(I, sp)
        iskey = I.reg.ufunc('is_uff_key', StrS, z3.BoolSort())
        a1, a2, a3 = A('a1'), A('a2'), A('a3')
        b1, b2 = bo_opt('bo1'), bo_opt('bo2')
        clo = I.closure_for(REL, 'angle_params')
        rv = rules_value(rk)
        guess = guess_under(I, sp, rv)

        def thunk():
            for a in (a1, a2, a3):
                I.assume(iskey(a))
            return I.call_closure(clo, [Sym(a1), Sym(a2), Sym(a3)], dict({'bond_orders': [b1, b2]}, **({'bond_order_rules': rv} if rv is not None else {})))
        paths = I.explore(thunk)
        cases = first_match(sp.angle(a1, a2, a3, bo_eff(sp, b1, a1, a2, guess), bo_eff(sp, b2, a2, a3, guess)))
        for i, p in enumerate(paths):
            res = (p.outcome, p.value)
            goal = z3.And(*[z3.Implies(c, outcome_eq(I, res, o)) for c, o in cases])
            S.add(I, "angle_params%s/post/equals-spec#%d" % (rtag, i), p.pc + math_axioms(sp), goal, clause='angle force constant and style')
            S.add_canary(I, "angle_params%s/canary#%d" % (rtag, i), p.pc)
        S.add_interp_obligations(I, only=not_div)
      if True:
        # lemma: reversal symmetry of the spec, using the bond lemma (r symmetric)
        x1, x2 = z3.Real('x1'), z3.Real('x2')
        fw = first_match(sp.angle(a1, a2, a3, x1, x2))
        bw = first_match(sp.angle(a3, a2, a1, x2, x1))
        rsym = [sp.rij(a1, a2, x1) == sp.rij(a2, a1, x1), sp.rij(a2, a3, x2) == sp.rij(a3, a2, x2)]
        goals = []
        for (c, o), (c2, o2) in zip(fw, bw):
            goals.append(c == c2)
            goals.append(z3.Implies(c, z3.And(*[(x == y) if z3.is_expr(x) or z3.is_expr(y) else z3.BoolVal(x == y)
                                                for x, y in zip(o, o2)])))
        S.add(I, "lemma/spec_angle-reversal-symmetric", rsym, z3.And(*goals), kind='lemma', clause='reversal symmetry (angle)')
    S.guarded('angle_params', run_angle)

    # ---------------------------------------------------------------- dihedral_params == spec, symmetric
    def run_dihedral():
      for rtag, rk in RULE_SCENARIOS:
        I, sp = new_interp()
        I.models[REL + ':guess_bond_order'] = guess_contract(I, sp)
        iskey = I.reg.ufunc('is_uff_key', StrS, z3.BoolSort())
        mg = I.module('mofun/uff4mof.py').consts['MAIN_GROUP_ELEMENTS']
        a = [A('a%d' % i) for i in range(1, 5)]
        M = z3.Int('M')
        bo = bo_opt('bo')
        clo = I.closure_for(REL, 'dihedral_params')
        rv = rules_value(rk)
        guess = guess_under(I, sp, rv)

        def thunk():
            for x in a:
                I.assume(iskey(x))
            I.assume(M >= 1)
            return I.call_closure(clo, [Sym(x) for x in a], dict({'num_dihedrals_about_bond': Sym(M), 'bond_order': bo}, **({'bond_order_rules': rv} if rv is not None else {})))
        paths = I.explore(thunk)
        cases = first_match(sp.torsion(a[0], a[1], a[2], a[3], M, bo_eff(sp, bo, a[1], a[2], guess), mg))
        for i, p in enumerate(paths):
            res = (p.outcome, p.value)
            goal = z3.And(*[z3.Implies(c, outcome_eq(I, res, o)) for c, o in cases])
            S.add(I, "dihedral_params%s/post/equals-spec#%d" % (rtag, i), p.pc + math_axioms(sp), goal, clause='torsion case analysis')
            S.add_canary(I, "dihedral_params%s/canary#%d" % (rtag, i), p.pc)
        S.add_interp_obligations(I, only=not_div)
      if True:
        b = z3.Real('b')
        fw = first_match(sp.torsion(a[0], a[1], a[2], a[3], M, b, mg))
        bw = first_match(sp.torsion(a[3], a[2], a[1], a[0], M, b, mg))
        # every forward case implies the same outcome among the backward cases
        goals = []
        for c, o in fw:
            for c2, o2 in bw:
                if o == 'raise' or o2 == 'raise' or o is None or o2 is None:
                    same = z3.BoolVal((o == 'raise') == (o2 == 'raise') and (o is None) == (o2 is None))
                else:
                    same = z3.And(*[(x == y) if z3.is_expr(x) or z3.is_expr(y) else z3.BoolVal(x == y) for x, y in zip(o, o2)])
                goals.append(z3.Implies(z3.And(c, c2), same))
        S.add(I, "lemma/spec_torsion-reversal-symmetric", [M >= 1], z3.And(*goals), kind='lemma', clause='reversal symmetry (torsion)')
        # dependency: a1, a4 enter only through `hyb(a) == '2'`
        a1b, a4b = A('a1b'), A('a4b')
        alt = first_match(sp.torsion(a1b, a[1], a[2], a4b, M, b, mg))
        hyps = [(sp.hyb(a[0]) == sp.lit('2')) == (sp.hyb(a1b) == sp.lit('2')), (sp.hyb(a[3]) == sp.lit('2')) == (sp.hyb(a4b) == sp.lit('2')), M >= 1]
        goals = []
        for (c, o), (c2, o2) in zip(fw, alt):
            goals.append(c == c2)
            if o not in (None, 'raise'):
                goals.append(z3.And(*[(x == y) if z3.is_expr(x) or z3.is_expr(y) else z3.BoolVal(x == y) for x, y in zip(o, o2)]))
        S.add(I, "lemma/spec_torsion-depends-on-ends-only-through-sp2", hyps, z3.And(*goals), kind='lemma')
    S.guarded('dihedral_params', run_dihedral)

    # ---------------------------------------------------------------- pair_coeffs
    def run_pair():
        I, sp = new_interp()
        iskey = I.reg.ufunc('is_uff_key', StrS, z3.BoolSort())
        a1 = A('a1')
        clo = I.closure_for(REL, 'pair_coeffs')

        def thunk():
            I.assume(iskey(a1))
            return I.call_closure(clo, [Sym(a1)], {})
        paths = I.explore(thunk)
        powf = I.reg.ufunc('pow', R, R, R)
        for i, p in enumerate(paths):
            if p.outcome != 'return' or not isinstance(p.value, list) or len(p.value) != 2:
                raise OutOfSubset("pair_coeffs result shape")
            eps, sig = p.value
            S.add(I, "pair_coeffs/post/lj-conversion#%d" % i, p.pc,
                  z3.And(to_z3(eps) == sp.T(3, a1), to_z3(sig) == sp.T(2, a1) * powf(RV(2), RV('-1/6'))),
                  clause='Lennard-Jones conversion: epsilon = D1, sigma = x1 * 2^(-1/6)')
        S.add_interp_obligations(I, only=not_div)
    S.guarded('pair_coeffs', run_pair)
    S.assume("2**(-1/6) is the uninterpreted term pow(2, -1/6) in both code and spec")
    S.clause('formulas (bond, angle, torsion, pair) == spec functions', 'PROVED over symbolic real tables and symbolic type strings')
    S.clause('reversal symmetry', 'PROVED on the spec functions (lemmas), code tied to spec by the post obligations')
    S.clause('finite / positive / style on the real table', 'EXHAUSTIVE (bounded stage)')
