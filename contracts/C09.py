"""C09 -- Atoms objects stay consistent and type ids keep their meaning.

The representation invariant WF (per-atom arrays one entry per atom, per-term arrays one per term, term atoms exist, type ids covered by the
type tables) and Preserve (survivors resolve to what they were defined with) are proved per operation on the real code:
  * assert_arrays_are_consistent_sizes: returning normally implies the size part of WF (it is the last statement of __init__, extend, __delitem__);
  * __delitem__ / pop: C10's proof (sizes re-established, surviving terms refer to existing atoms, types and extra fields follow, tables untouched);
  * extend_types: tables only grow at the end and the offsets are the old lengths (C11), so old ids keep their meaning and new ones are covered;
  * __getitem__: the subset receives the same index list for every per-atom array and ALL atom type tables (elements, masses, labels, pair coefficients);
  * replicate: C12; copy: deep copy (assumed A4).
  * extend: C11's proof of the whole body (sizes consistent, every term refers to existing atoms, existing terms keep type and extra row);
  * replace_pattern_in_structure: C04's modular proof over the contracts of extend / __delitem__ (`result-is-well-formed`).
Closure under all histories follows by induction on the history.  __init__'s defaulting logic and the file readers are BOUNDED:
bounded/C09.py runs ~1800 operation histories of depth 3 against an abstract model and writes / re-reads a LAMMPS file at the end of each.
"""
import ast
import z3

from pyvc.values import Sym, SymSeq, OutOfSubset, to_z3, Ref, StrS
from pyvc.interp import RaiseSig, ExcVal
from pyvc import models_py, models_np
from contracts import atoms_model as AM
from contracts import C10, C11

META = {
    'level': 'proof',
    'explanation': "invariant preservation proved per operation: consistency assertion, deletion / pop, type-table merge, extend (whole body), subset, "
                   "replace_pattern_in_structure (modular) and (C12) replication; the constructor's defaulting, the readers and whole histories are "
                   "checked with a stated bound against an abstract model",
    'trusted_base': ["A4 deepcopy", "numpy contracts of C10 (np.delete, np.take as order-preserving selection)", "z3 soundness", "pyvc symbolic interpreter"],
}
REL = 'mofun/atoms.py'
INT = z3.IntSort()


def build(S):
    S.function(REL, 'Atoms.assert_arrays_are_consistent_sizes')

    # ---------------------------------------------------------------- assumption A4 is about the code that is there: copy() IS copy.deepcopy(self)
    def run_copy():
        import ast as _ast
        S.function(REL, 'Atoms.copy')
        I = S.interp()
        fn = I.module(REL).find('Atoms.copy')
        body = [n for n in fn.body if not (isinstance(n, _ast.Expr) and isinstance(n.value, _ast.Constant))]
        if not (len(body) == 1 and isinstance(body[0], _ast.Return) and _ast.unparse(body[0].value) == 'copy.deepcopy(self)'):
            raise OutOfSubset("Atoms.copy is no longer `return copy.deepcopy(self)`: every proof that models copy() as a fresh, independent object with "
                              "equal fields (assumption A4) does not apply to this code")
        S.add(I, "copy/is-a-deep-copy-of-the-object", [], z3.BoolVal(True), clause='copy() gives an independent object (A4: copy.deepcopy)')
    S.guarded('Atoms.copy', run_copy)

    # ---------------------------------------------------------------- the consistency assertion really asserts the size part of WF
    def run_assert():
        I = S.interp()
        I.allow_merge = False
        models_py.install(I)
        models_np.install(I)
        xw = {}

        def attr_shape(ctx, obj):
            if isinstance(obj, SymSeq) and obj.name in xw:
                return (Sym(obj.length), Sym(xw[obj.name]))
            return NotImplemented
        I.models['attr.shape'] = attr_shape

        def np_full(ctx, args, kwargs):
            shape = args[0]
            if isinstance(shape, tuple) and len(shape) == 2 and shape[1] == 0:
                n = to_z3(shape[0])
                s = SymSeq(n, [z3.Array(I.reg.fresh('full'), INT, AM.RowS)], None, 'ndarray', I.reg.fresh('fullarr'))
                xw[s.name] = z3.IntVal(0)
                return s
            raise OutOfSubset("np.full%r" % (shape,))
        I.models['numpy.full'] = np_full
        clo = I.closure_for(REL, 'Atoms.assert_arrays_are_consistent_sizes')

        def thunk():
            xw.clear()
            ref, f = AM.make_atoms(I, 'self')
            # independent lengths for every array (the assertion is what relates them)
            heap = I.state.heap[ref.oid]
            lens = {}
            for name in ('atom_types', 'charges', 'groups', 'extra_atom_fields') + tuple(k + '_types' for k, _ in AM.KINDS) + tuple('extra_%s_fields' % k for k, _ in AM.KINDS) \
                    + ('atom_type_masses', 'atom_type_labels'):
                n = z3.Int('len_' + name)
                I.assume(n >= 0)
                old = heap[name]
                heap[name] = SymSeq(n, old.cols, old.width, old.kind, old.name)
                lens[name] = n
            for k in ('atom',) + tuple(k for k, _ in AM.KINDS):
                nm = heap['extra_%s_fields' % k].name
                xw[nm] = z3.Int('width_extra_%s' % k)
                I.assume(xw[nm] >= 0)
                nl = z3.Int('n_extra_%s_labels' % k)
                I.assume(nl >= 0)
                heap['extra_%s_labels' % k] = SymSeq(nl, [z3.Array('extra_%s_labels' % k, INT, StrS)], None, 'list', 'extra_%s_labels' % k)
            I.call_closure(clo, [ref], {})
            h = I.state.heap[ref.oid]
            return h, dict(xw)

        paths = I.explore(thunk, max_paths=400)
        normal = 0
        for i, p in enumerate(paths):
            if p.outcome == 'raise':
                continue
            normal += 1
            h, widths = p.value
            N = h['positions'].length
            parts = [h[x].length == N for x in ('atom_types', 'charges', 'groups', 'extra_atom_fields')]
            for k, _ in AM.KINDS:
                nk = h[AM.PLURAL[k]].length
                parts += [h[k + '_types'].length == nk, h['extra_%s_fields' % k].length == nk]
            T = h['atom_type_elements'].length
            parts += [h['atom_type_labels'].length >= T, h['atom_type_masses'].length >= T]
            for k in ('atom',) + tuple(k for k, _ in AM.KINDS):
                fld = h['extra_%s_fields' % k]
                parts.append(h['extra_%s_labels' % k].length == widths[fld.name])
            S.add(I, "assert_arrays_are_consistent_sizes/post/normal-return-implies-size-invariant#%d" % i, p.pc, z3.And(*parts),
                  clause='every per-atom array has one entry per atom, every per-term array one per term, type tables cover the atom types')
            if normal <= 3:
                S.add_canary(I, "assert_arrays_are_consistent_sizes/canary#%d" % i, [x for x in p.pc if not z3.is_quantifier(x)])
        S.add(I, "assert_arrays_are_consistent_sizes/reachable-normal-return", [], z3.BoolVal(normal >= 1))
        S.add_interp_obligations(I)
    S.guarded('assert_arrays_are_consistent_sizes', run_assert)

    # ---------------------------------------------------------------- __getitem__: subset keeps every type table and selects all per-atom arrays alike
    S.function(REL, 'Atoms.__getitem__')

    def run_getitem():
        I = S.interp()
        models_py.install(I)
        models_np.install(I)
        st = {}

        class Taken:
            def __init__(self, src, idx):
                self.src, self.idx = src, idx

        def np_take(ctx, args, kwargs):
            if kwargs.get('axis', None) != 0:
                raise OutOfSubset("np.take without axis=0")
            return Taken(args[0], args[1])
        I.models['numpy.take'] = np_take
        I.models['numpy.array'] = lambda ctx, args, kwargs: ('idx', args[0])

        def ctor(ctx, args, kwargs):
            st['kw'] = dict(kwargs)
            return I.state.alloc('Atoms', {'__class__': 'Atoms'})
        I.models['%s:Atoms.__init__' % REL] = ctor
        clo = I.closure_for(REL, 'Atoms.__getitem__')

        def thunk():
            st.clear()
            ref, f = AM.make_atoms(I, 'self')
            i = SymSeq(z3.Int('n_sel'), [z3.Array('sel', INT, INT)], None, 'list', 'i')
            I.call_closure(clo, [ref, i], {})
            return f, dict(st.get('kw', {})), i
        paths = I.explore(thunk)
        for n, p in enumerate(paths):
            if p.outcome != 'return':
                raise OutOfSubset("__getitem__ raises")
            f, kw, i = p.value
            ok = True
            for field in ('positions', 'atom_types', 'charges', 'groups'):
                v = kw.get(field)
                ok &= isinstance(v, Taken) and v.src is f[field] and isinstance(v.idx, tuple) and v.idx[1] is i
            S.add(I, "__getitem__/post/per-atom-arrays-selected-with-the-same-index-list#%d" % n, p.pc, z3.BoolVal(bool(ok)),
                  clause='subset: position, type id, charge and group of the selected atoms')
            for table in ('atom_type_elements', 'atom_type_masses', 'atom_type_labels', 'pair_coeffs'):
                S.add(I, "__getitem__/post/subset-keeps-type-table-%s#%d" % (table, n), p.pc, z3.BoolVal(kw.get(table) is f[table]),
                      clause='type ids of a subset keep their label, element, mass and pair coefficient')
            S.add(I, "__getitem__/post/cell-kept#%d" % n, p.pc, z3.BoolVal(kw.get('cell') is f['cell']))
        S.add_interp_obligations(I)
    S.guarded('__getitem__', run_getitem)

    # ---------------------------------------------------------------- deletion and type-table merge (shared proofs)
    S.function(REL, 'Atoms.__delitem__')
    S.guarded('__delitem__', lambda: C10.build_delitem(S))
    C11.prove_extend_types(S)
    # extend re-establishes WF (sizes consistent via the final assertion, every term refers to existing atoms): C11's proof of the whole body,
    # here for the scenario in which `other` carries every kind of term (all 16 scenarios run in C11's thorough tier)
    S.guarded('extend', lambda: C11.prove_extend(S, False, (True, True, True, True)))
    # replace_pattern_in_structure hands back a well-formed structure (C04's modular frame proof, obligation `result-is-well-formed`)
    from contracts import C04
    C04.prove_frame(S)
    S.assume("A4: Atoms.copy is copy.deepcopy (structurally equal, nothing shared)")
    S.clause('size invariant established by the consistency assertion', 'PROVED')
    S.clause('deletion / pop preserve WF and Preserve', 'PROVED (C10)')
    S.clause('type tables only grow at the end, offsets = old lengths (ids keep their meaning, also when a kind has no terms left)', 'PROVED (C11)')
    S.clause('subset keeps all type tables', 'PROVED')
    S.clause('replication', 'PROVED in C12')
    S.clause('extend and replace_pattern_in_structure preserve WF', 'PROVED (C11 whole-body proof; C04 modular frame proof)')
    S.clause('constructor defaulting, file readers, whole histories, LAMMPS writability', 'BOUNDED (bounded/C09.py)')
