"""C17 -- bond detection equals the minimum-image covalent-radius rule.

Deductive part:
  * detect_bonds.max_bond_length against the spec r1 + r2 + 0.45*[either element is a non-metal] over the real COVALENT_RADII /
    NON_METALS tables (symbolic element names, key lookups as ite chains), and its symmetry;
  * the two nested loops of detect_bonds under inductive invariants (ghost rank d(a, j) = number of bonded pairs (a, a+1+j') with
    j' < j plus all bonded pairs of earlier first atoms): the returned array lists exactly the pairs a < b with Near(a, b), each once,
    where Near(a, b) is the value of `np.any(cdist(positions[a] + uc_offsets, [positions[b]], "euclidean") < max_bond_length(el[a], el[b]))`
    with uc_offsets = uc_neighbor_offsets(cell), or the single zero offset when there is no cell.
The meaning of that numpy/scipy composite (some listed offset brings the two atoms closer than the cutoff), the contents of
uc_neighbor_offsets (27 lattice vectors) and bridge lemma G2 (27 images suffice) are ASSUMED and exercised by bounded/C17.py on the real code.
"""
import z3

from pyvc.values import Sym, SymSeq, RowVal, Opaque, StrS, OutOfSubset, to_z3
from pyvc.interp import FuncSpec, LoopSpec
from pyvc.models_py import ObjS
from pyvc import models_py

META = {
    'level': 'proof',
    'explanation': "cutoff rule proved for all element pairs of the tables; both pair loops of detect_bonds under inductive invariants: exactly the "
                   "pairs i<j passing the code's distance test, each once; the meaning of the numpy/scipy distance test and the 27 offsets are "
                   "assumed and exercised with a stated bound on the real code",
    'trusted_base': ["A2: radii compared as reals", "bridge lemma G2 (DESIGN section 8): for cell widths > cutoff some periodic image is within the cutoff iff one of the 27 neighbour images is",
                     "z3 soundness", "pyvc symbolic interpreter"],
}
REL = 'mofun/detect_bonds.py'


def build(S):
    S.function(REL, 'max_bond_length')

    def run():
        I = S.interp()
        models_py.install(I)
        mod = I.module(REL)
        if 'COVALENT_RADII' not in mod.consts or 'NON_METALS' not in mod.consts:
            raise OutOfSubset("COVALENT_RADII / NON_METALS are no longer literal tables (contract no longer applies)")
        radii = mod.consts['COVALENT_RADII']
        from specs.bond_tables import NON_METALS as nonmet_spec
        nonmet = mod.consts['NON_METALS']
        st_tables_ok = (list(nonmet) == list(nonmet_spec))
        clo = I.closure_for(REL, 'max_bond_length')
        e1, e2 = z3.Const('el1', StrS), z3.Const('el2', StrS)
        lit = I.reg.strlit

        def isin(e, names):
            return z3.Or(*[e == lit(n) for n in names])

        def radius(e):
            r = z3.RealVal(0)
            for k, v in radii.items():
                r = z3.If(e == lit(k), z3.RealVal(repr(v)), r)
            return r

        def spec(a, b):
            return radius(a) + radius(b) + z3.If(z3.Or(isin(a, nonmet), isin(b, nonmet)), z3.RealVal('0.45'), z3.RealVal(0))

        def replay_for(model):
            def name(v):
                v = model.get(v, '')
                for k in radii:
                    if v == str(lit(k)):
                        return k
                return 'C'
            return {'kind': 'cutoff', 'input': {'el1': name('el1'), 'el2': name('el2')}, 'key': 'max_bond_length',
                    'what': 'max_bond_length(%s, %s) differs from r1 + r2 + 0.45*[non-metal involved]' % (name('el1'), name('el2'))}

        def thunk():
            I.assume(isin(e1, list(radii)))      # requires: elements of the radius table
            I.assume(isin(e2, list(radii)))
            return I.call_closure(clo, [Sym(e1), Sym(e2)], {})
        paths = I.explore(thunk)
        for i, p in enumerate(paths):
            if p.outcome != 'return':
                raise OutOfSubset("max_bond_length raises")
            S.add(I, "max_bond_length/post/equals-cutoff-rule#%d" % i, p.pc, to_z3(p.value, sort=z3.RealSort()) == spec(e1, e2), replay=replay_for,
                  clause='cutoff = r1 + r2 (+0.45 if a non-metal is involved)')
            S.add_canary(I, "max_bond_length/canary#%d" % i, p.pc)
        S.add(I, "lemma/cutoff-symmetric", [], spec(e1, e2) == spec(e2, e1), kind='lemma', clause='cutoff symmetric in the two elements')
        S.add(I, "tables/non-metal-list-is-the-documented-one", [], z3.BoolVal(bool(st_tables_ok)), clause='the 0.45 A allowance applies to H, D, B, C, N, O, F, P, S, Cl, Se, Br, I, Si')
        S.add_interp_obligations(I, replay=replay_for)
    S.guarded('max_bond_length', run)
    S.clause('cutoff rule (all 97 x 97 element pairs, symbolically)', 'PROVED')
    prove_pair_loops(S)
    S.clause('pairs i<j, each once, exactly those for which the distance test of the code succeeds', 'PROVED (both loops under invariants, with and without cell)')
    S.clause('distance test = smallest distance over the listed offsets below the cutoff; shift / reorder invariance', 'BOUNDED (real code); numpy / scipy composite ASSUMED')
    S.clause('27 images = all images', 'ASSUMED (bridge lemma G2, widths > cutoff)')


INT, REAL = z3.IntSort(), z3.RealSort()


def prove_pair_loops(S):
    S.function(REL, 'detect_bonds')
    for with_cell in (True, False):
        S.guarded('detect_bonds[%s]' % ('cell' if with_cell else 'no-cell'), lambda wc=with_cell: _pair_loops(S, wc))


def _pair_loops(S, with_cell):
    I = S.interp()
    I.allow_merge = False
    models_py.install(I)
    reg = I.reg
    tag = 'detect_bonds[%s]' % ('cell' if with_cell else 'no-cell')
    st = {}
    # ---- assumed library contracts: the distance test is a fixed function of (position a, offsets, position b, cutoff)
    images = reg.ufunc('images_of', REAL, REAL, REAL, ObjS, ObjS)               # atom1 + uc_offsets
    dists = reg.ufunc('cdist_euclidean_to', ObjS, REAL, REAL, REAL, ObjS)       # cdist(X, [atom2], "euclidean")
    below = reg.ufunc('elementwise_lt', ObjS, REAL, ObjS)                       # ss < c
    any_ = reg.ufunc('np_any', ObjS, z3.BoolSort())
    offsets_of = reg.ufunc('uc_neighbor_offsets', ObjS, ObjS)
    cutoff = reg.ufunc('max_bond_length', StrS, StrS, REAL)
    known = reg.ufunc('in_radius_table', StrS, z3.BoolSort())
    zero_offsets = z3.Const('single_zero_offset', ObjS)

    def m_offsets(ctx, args, kwargs):
        I.reg.assumptions_used.add("uc_neighbor_offsets(cell) enters as an uninterpreted value (its 27 lattice vectors are exercised by bounded/C17.py)")
        return Opaque(offsets_of(models_py.to_obj(I, args[0])), 'uc_offsets')

    def m_array(ctx, args, kwargs):
        v = args[0]
        if isinstance(v, SymSeq):
            return v
        if isinstance(v, list) and v == []:
            return SymSeq(z3.IntVal(0), [z3.K(INT, z3.IntVal(0)), z3.K(INT, z3.IntVal(0))], 2, 'ndarray', 'no_bonds')
        if isinstance(v, list) and len(v) == 1 and isinstance(v[0], list) and len(v[0]) == 3 and all(x == 0 for x in v[0]):
            return Opaque(zero_offsets, 'zero_offsets')
        raise OutOfSubset("np.array of %r" % (v,))

    def m_binop(ctx, op, a, b):
        if op == 'Add' and isinstance(a, RowVal) and len(a) == 3 and isinstance(b, Opaque):
            return Opaque(images(*[to_z3(x, sort=REAL) for x in a], b.term), 'images')
        raise OutOfSubset("binary %s on %r and %r" % (op, type(a).__name__, type(b).__name__))

    def m_cdist(ctx, args, kwargs):
        if len(args) != 3 or args[2] != 'euclidean' or kwargs:
            raise OutOfSubset("cdist is not called as cdist(X, Y, 'euclidean')")
        X, Y = args[0], args[1]
        if not (isinstance(X, Opaque) and isinstance(Y, list) and len(Y) == 1 and isinstance(Y[0], RowVal) and len(Y[0]) == 3):
            raise OutOfSubset("cdist arguments are not (images of atom1, [atom2])")
        return Opaque(dists(X.term, *[to_z3(x, sort=REAL) for x in Y[0]]), 'dists')

    def m_compare(ctx, op, a, b):
        if op == 'Lt' and isinstance(a, Opaque) and isinstance(b, Sym) and b.e.sort() == REAL:
            return Opaque(below(a.term, b.e), 'below')
        raise OutOfSubset("comparison %s between %r and %r" % (op, a, b))

    def m_any(ctx, args, kwargs):
        if len(args) == 1 and isinstance(args[0], Opaque) and not kwargs:
            return Sym(any_(args[0].term))
        raise OutOfSubset("np.any of %r" % (args,))

    def m_cutoff(ctx, args, kwargs):
        # contract of max_bond_length, proved above: defined for elements of the radius table, value = the cutoff rule
        e1, e2 = [to_z3(a) for a in args]
        I.oblige("%s/pre/max_bond_length/elements-in-radius-table" % tag, z3.And(known(e1), known(e2)), 'pre')
        return Sym(cutoff(e1, e2))

    I.models['mofun.uc_neighbor_offsets'] = m_offsets
    I.models['mofun/mofun.py:uc_neighbor_offsets'] = m_offsets
    I.models['numpy.array'] = m_array
    I.models['binop.fallback'] = m_binop
    I.models['scipy.spatial.distance.cdist'] = m_cdist
    I.models['compare.fallback'] = m_compare
    I.models['numpy.any'] = m_any
    I.models['%s:max_bond_length' % REL] = m_cutoff

    def near(a, b):
        P, E, O = st['pos'], st['els'], st['offs']
        pa = [z3.Select(c, a) for c in P.cols]
        pb = [z3.Select(c, b) for c in P.cols]
        return any_(below(dists(images(*pa, O), *pb), cutoff(z3.Select(E.cols[0], a), z3.Select(E.cols[0], b))))

    # ---- ghost rank (definitions by recursion on the loop counters; conservative)
    d = z3.Function('rank_d', INT, INT, INT)       # d(a, j): position of the pair (a, a+1+j) if it is bonded
    base = z3.Function('rank_base', INT, INT)      # base(a) = number of bonded pairs whose first atom is < a
    N = z3.Int('N')
    ga, gj = z3.Int('ga'), z3.Int('gj')
    I.base_axioms.append(base(0) == 0)
    I.base_axioms.append(z3.ForAll([ga], z3.Implies(z3.And(ga >= 0), d(ga, 0) == base(ga)), patterns=[d(ga, 0)]))
    I.base_axioms.append(z3.ForAll([ga], z3.Implies(z3.And(ga >= 0), d(ga, 0) == base(ga)), patterns=[base(ga)]))
    st['ghost'] = (d, base)

    def install_ghost_axioms():
        I.assume(z3.ForAll([ga, gj], z3.Implies(z3.And(ga >= 0, gj >= 0),
                 d(ga, gj + 1) == d(ga, gj) + z3.If(near(ga, ga + 1 + gj), 1, 0)), patterns=[d(ga, gj)]))
        I.assume(z3.ForAll([ga], z3.Implies(ga >= 1, base(ga) == d(ga - 1, N - ga)), patterns=[base(ga)]))

    def listed(B, kz, iz):
        """(S) every entry is a bonded pair a < b already visited, stored at its rank; (C) every visited bonded pair is stored at its rank."""
        p, a, j = z3.Int('lp'), z3.Int('la'), z3.Int('lj')
        ea, eb = z3.Select(B.cols[0], p), z3.Select(B.cols[1], p)
        visited = lambda x, jj: z3.Or(x < kz, z3.And(x == kz, jj < iz))
        S_ = z3.ForAll([p], z3.Implies(z3.And(p >= 0, p < B.length), z3.And(
            0 <= ea, ea < eb, eb < N, near(ea, eb), d(ea, eb - ea - 1) == p, visited(ea, eb - ea - 1))), patterns=[z3.Select(B.cols[0], p)])
        C_ = z3.ForAll([a, j], z3.Implies(z3.And(a >= 0, j >= 0, a + 1 + j < N, near(a, a + 1 + j), visited(a, j)), z3.And(
            d(a, j) >= 0, d(a, j) < B.length, z3.Select(B.cols[0], d(a, j)) == a, z3.Select(B.cols[1], d(a, j)) == a + 1 + j)), patterns=[d(a, j)])
        return S_, C_

    def inv_outer(view, k):
        B = view['bonds']
        k = k if z3.is_expr(k) else z3.IntVal(k)
        S_, C_ = listed(B, k, z3.IntVal(0))
        return [('count-is-rank-of-first-atom', B.length == base(k)), ('entries-are-visited-bonded-pairs-at-their-rank', S_), ('visited-bonded-pairs-are-listed', C_)]

    def inv_inner(view, k):
        B = view['bonds']
        k = k if z3.is_expr(k) else z3.IntVal(k)
        o = to_z3(view['idx1'])
        S_, C_ = listed(B, o, k)
        return [('count-is-rank-of-next-pair', B.length == d(o, k)), ('entries-are-visited-bonded-pairs-at-their-rank', S_), ('visited-bonded-pairs-are-listed', C_)]

    I.funcspecs['%s:detect_bonds' % REL] = FuncSpec(loops=[
        LoopSpec('(idx1, atom1) in enumerate(structure.positions)', inv=inv_outer, havoc_types={'bonds': ('tuple', ['int', 'int'])}),
        LoopSpec('(i, atom2) in enumerate(structure.positions[idx1 + 1:])', inv=inv_inner)])
    clo = I.closure_for(REL, 'detect_bonds')

    def thunk():
        I.assume(N >= 0)
        pos = SymSeq(N, [z3.Array('pos_%s' % c, INT, REAL) for c in 'xyz'], 3, 'ndarray', 'positions')
        els = SymSeq(N, [z3.Array('elements', INT, StrS)], None, 'list', 'elements')
        t = z3.Int('rt')
        I.assume(z3.ForAll([t], z3.Implies(z3.And(t >= 0, t < N), known(z3.Select(els.cols[0], t))), patterns=[z3.Select(els.cols[0], t)]))   # requires: elements of the radius table
        if with_cell:
            cell = Opaque(z3.Const('cell', ObjS), 'cell')
            st['offs'] = offsets_of(cell.term)
        else:
            cell = None
            st['offs'] = zero_offsets
        st.update(pos=pos, els=els)
        install_ghost_axioms()
        structure = I.state.alloc('Atoms', {'__class__': 'Atoms', 'positions': pos, 'elements': els, 'cell': cell})
        return I.call_closure(clo, [structure], {})

    paths = I.explore(thunk)
    nret = 0
    for i, p in enumerate(paths):
        if p.outcome == 'loopend':
            continue
        if p.outcome != 'return':
            raise OutOfSubset("detect_bonds raises")
        nret += 1
        R = p.value
        if not isinstance(R, SymSeq) or R.width != 2:
            raise OutOfSubset("detect_bonds does not return the list of index pairs")
        q, r, a, b = z3.Int('pq'), z3.Int('pr'), z3.Int('pa'), z3.Int('pb')
        ea, eb = z3.Select(R.cols[0], q), z3.Select(R.cols[1], q)
        S.add(I, "%s/post/every-row-is-a-bonded-pair-i<j#%d" % (tag, i), p.pc,
              z3.ForAll([q], z3.Implies(z3.And(q >= 0, q < R.length), z3.And(0 <= ea, ea < eb, eb < N, near(ea, eb)))),
              clause='returns only pairs i<j that pass the distance test')
        S.add(I, "%s/post/every-bonded-pair-i<j-is-a-row#%d" % (tag, i), p.pc,
              z3.ForAll([a, b], z3.Implies(z3.And(0 <= a, a < b, b < N, near(a, b)), z3.And(d(a, b - a - 1) >= 0, d(a, b - a - 1) < R.length,
                        z3.Select(R.cols[0], d(a, b - a - 1)) == a, z3.Select(R.cols[1], d(a, b - a - 1)) == b))),
              clause='returns every pair i<j that passes the distance test')
        S.add(I, "%s/post/each-pair-once#%d" % (tag, i), p.pc,
              z3.ForAll([q, r], z3.Implies(z3.And(q >= 0, q < R.length, r >= 0, r < R.length,
                        z3.Select(R.cols[0], q) == z3.Select(R.cols[0], r), z3.Select(R.cols[1], q) == z3.Select(R.cols[1], r)), q == r)),
              clause='each pair once')
        S.add_canary(I, "%s/canary#%d" % (tag, i), [h for h in p.pc if not z3.is_quantifier(h)])
        S.add_probe(I, "%s/probe/hypotheses-consistent#%d" % (tag, i), p.pc)
    if nret == 0:
        raise OutOfSubset("no returning path of detect_bonds")
    S.add_interp_obligations(I)
    spec = I.funcspecs['%s:detect_bonds' % REL]
    if len(spec.seen_loops) != 2:
        raise OutOfSubset("both loops of detect_bonds must be cut at their invariants")
