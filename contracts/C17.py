"""C17 -- bond detection equals the minimum-image covalent-radius rule.

Deductive part: detect_bonds.max_bond_length against the spec r1 + r2 + 0.45*[either element is a non-metal] over the real
COVALENT_RADII / NON_METALS tables (symbolic element names, key lookups as ite chains), and its symmetry.  The pair enumeration of
detect_bonds and the 27-image minimum are BOUNDED on the real code (bounded/C17.py); bridge lemma G2 (27 images suffice) is ASSUMED.
"""
import z3

from pyvc.values import Sym, StrS, OutOfSubset, to_z3
from pyvc import models_py

META = {
    'level': 'other',
    'explanation': "cutoff rule proved for all element pairs of the tables; pair enumeration and image handling of detect_bonds checked "
                   "with a stated bound on the real code (loops not yet under invariants)",
    'trusted_base': ["A2: radii compared as reals", "bridge lemma G2 (DESIGN section 8): for cell widths > cutoff some periodic image is within the cutoff iff one of the 27 neighbour images is",
                     "z3 soundness", "pyvc symbolic interpreter"],
}
REL = 'mofun/detect_bonds.py'


def build(S):
    S.function(REL, 'max_bond_length')

    def run():
        I = S.interp()
        models_py.install(I)
        mod = I.module(REL)
        if 'COVALENT_RADII' not in mod.consts or 'NON_METALS' not in mod.consts:
            raise OutOfSubset("COVALENT_RADII / NON_METALS are no longer literal tables (contract no longer applies)")
        radii = mod.consts['COVALENT_RADII']
        from specs.bond_tables import NON_METALS as nonmet_spec
        nonmet = mod.consts['NON_METALS']
        st_tables_ok = (list(nonmet) == list(nonmet_spec))
        clo = I.closure_for(REL, 'max_bond_length')
        e1, e2 = z3.Const('el1', StrS), z3.Const('el2', StrS)
        lit = I.reg.strlit

        def isin(e, names):
            return z3.Or(*[e == lit(n) for n in names])

        def radius(e):
            r = z3.RealVal(0)
            for k, v in radii.items():
                r = z3.If(e == lit(k), z3.RealVal(repr(v)), r)
            return r

        def spec(a, b):
            return radius(a) + radius(b) + z3.If(z3.Or(isin(a, nonmet), isin(b, nonmet)), z3.RealVal('0.45'), z3.RealVal(0))

        def replay_for(model):
            def name(v):
                v = model.get(v, '')
                for k in radii:
                    if v == str(lit(k)):
                        return k
                return 'C'
            return {'kind': 'cutoff', 'input': {'el1': name('el1'), 'el2': name('el2')}, 'key': 'max_bond_length',
                    'what': 'max_bond_length(%s, %s) differs from r1 + r2 + 0.45*[non-metal involved]' % (name('el1'), name('el2'))}

        def thunk():
            I.assume(isin(e1, list(radii)))      # requires: elements of the radius table
            I.assume(isin(e2, list(radii)))
            return I.call_closure(clo, [Sym(e1), Sym(e2)], {})
        paths = I.explore(thunk)
        for i, p in enumerate(paths):
            if p.outcome != 'return':
                raise OutOfSubset("max_bond_length raises")
            S.add(I, "max_bond_length/post/equals-cutoff-rule#%d" % i, p.pc, to_z3(p.value, sort=z3.RealSort()) == spec(e1, e2), replay=replay_for,
                  clause='cutoff = r1 + r2 (+0.45 if a non-metal is involved)')
            S.add_canary(I, "max_bond_length/canary#%d" % i, p.pc)
        S.add(I, "lemma/cutoff-symmetric", [], spec(e1, e2) == spec(e2, e1), kind='lemma', clause='cutoff symmetric in the two elements')
        S.add(I, "tables/non-metal-list-is-the-documented-one", [], z3.BoolVal(bool(st_tables_ok)), clause='the 0.45 A allowance applies to H, D, B, C, N, O, F, P, S, Cl, Se, Br, I, Si')
        S.add_interp_obligations(I, replay=replay_for)
    S.guarded('max_bond_length', run)
    S.clause('cutoff rule (all 97 x 97 element pairs, symbolically)', 'PROVED')
    S.clause('pairs i<j once each; smallest distance over the 27 images; shift / reorder invariance', 'BOUNDED (real code)')
    S.clause('27 images = all images', 'ASSUMED (bridge lemma G2, widths > cutoff)')
