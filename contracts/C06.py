"""C06 -- force-field terms and coefficients of the replacement arrive intact.

Deductive part: the carrying obligation of DESIGN C06 -- Atoms.extend_types appends the pattern's type tables after the structure's and
returns offsets equal to the old table lengths, so that `pattern type id + offset` resolves to the pattern's own coefficient text, and old
ids keep their text -- proved for all table sizes (shared with C11), plus the alignment of the pair-coefficient table with the atom types
(refuted for a CIF-loaded structure without pair table: known finding).  Atom clause (contracts/C04.prove_atoms_of_the_pattern): the replacement
block is executed for any number of non-overlapping matches against the contracts of extend_types / extend / __delitem__, a ghost sequence
recording which pattern atom every appended row came from: inserted atoms carry the pattern's charge, group and type id + offset, atoms taken
over the type id + offset of their pattern atom, none is deleted, and the type resolves to the pattern's label, element, mass.  Supersession and
re-targeting of terms inside one extend call is C11's proof, removal / re-indexing on the final delete C10's; the survival of the pattern's
terms across later matches and repeated replacements are BOUNDED with a reference model on the real code (bounded/C06.py).
"""
from contracts import C11

META = {
    'level': 'other',
    'explanation': "type-offset obligations proved; term re-targeting / supersession inside extend and the composition over matches only checked "
                   "with a stated bound against a reference model",
    'trusted_base': ["numpy: np.append(a, b) is the concatenation", "z3 soundness", "pyvc symbolic interpreter", "contracts of C10 (delete) and C07 (deletion set)"],
}


def build(S):
    C11.prove_extend_types(S, pair_alignment=True)
    from contracts import C04
    S.function('mofun/mofun.py', 'replace_pattern_in_structure')
    C04.prove_atoms_of_the_pattern(S)
    S.clause('inserted atoms carry the pattern\'s charge, group and type; atoms taken over carry the pattern\'s type; that type resolves to the pattern\'s label, element, mass',
             'PROVED for any number of non-overlapping matches (replacement block, modular over the contracts of extend / __delitem__)')
    S.clause('pattern type ids resolve to the pattern\'s coefficient text; old ids keep theirs', 'PROVED (extend_types offsets)')
    S.clause('pair coefficients stay aligned with atom types', 'PROVED when the structure has a pair table; the CIF workflow (atom types but no pair table) is refuted natively by the bounded stage: known finding F11')
    S.clause('each pattern term once between the corresponding atoms; supersession; terms touching removed atoms disappear; repeated replacements', 'BOUNDED (reference model, bounded/C06.py)')
