"""C08 -- self-replacement is a no-op and element substitutions are reversible.

Deductive part: atoms.find_unchanged_atom_pairs(P, P) is the identity map (both loops cut at invariants, the inner one left by
`break`), for patterns of any size without coincident same-element atoms.  With that map as a hypothesis the replacement block of
replace_pattern_in_structure (`new_structure = structure.copy()` ... bulk delete) is executed for ANY number of matches against the contracts of
extend_types / extend / __delitem__ (contracts/C04._frame in `self` mode, contracts/atoms_contracts.py): every pattern atom is mapped onto its
matched atom, extend appends nothing, nothing is marked for deletion, the final delete has an empty index list (C10 corollary: changes nothing);
hence the result has the same atoms in the same order with the same positions, charges, groups and elements, and every term array with its
types and extra rows is unchanged (pattern without terms of its own; a pattern WITH terms adds them, which is C06).  A -> B -> A reversibility
and 'second search finds none' are relations between runs of the search and are BOUNDED (bounded/C08.py).
"""
import z3

from pyvc.values import Sym, SymSeq, RowVal, OutOfSubset, to_z3, StrS
from pyvc.interp import FuncSpec, LoopSpec
from pyvc import models_py

META = {
    'level': 'proof',
    'explanation': "identity of the shared-atom map for identical patterns proved by loop invariants; the no-op conclusion proved for any number of "
                   "matches by executing the replacement block against the contracts of extend / __delitem__ / the search; reversibility clauses "
                   "are bounded (they rest on completeness of the search)",
    'trusted_base': ["norm(v) is an uninterpreted function with norm(0) = 0; 0 < max_delta", "z3 soundness", "pyvc symbolic interpreter"],
}
REL = 'mofun/atoms.py'
FN = 'find_unchanged_atom_pairs'
INT, REAL = z3.IntSort(), z3.RealSort()


def build(S):
    S.function(REL, FN)

    def run():
        I = S.interp()
        models_py.install(I)
        norm3 = I.reg.ufunc('norm3', REAL, REAL, REAL, REAL)

        def np_norm(ctx, args, kwargs):
            v = args[0]
            if isinstance(v, RowVal) and len(v) == 3:
                return Sym(norm3(*[to_z3(x, sort=REAL) for x in v]))
            raise OutOfSubset("norm of %r" % (v,))
        I.models['numpy.linalg.norm'] = np_norm
        I.models['numpy.array'] = lambda ctx, args, kwargs: args[0]
        I.base_axioms.append(norm3(0, 0, 0) == 0)
        st = {}

        def match(i, j):
            P, E = st['pos'], st['els']
            d = [z3.Select(P.cols[c], j) - z3.Select(P.cols[c], i) for c in range(3)]
            return z3.And(norm3(*d) < st['delta'], z3.Select(E.cols[0], i) == z3.Select(E.cols[0], j))

        def inv_outer(view, k):
            mp = view['match_pairs']
            t = z3.Int('ot')
            k = k if z3.is_expr(k) else z3.IntVal(k)
            return [('pairs-are-identity-so-far', z3.And(mp.length == k, z3.ForAll([t], z3.Implies(z3.And(t >= 0, t < k),
                     z3.And(z3.Select(mp.cols[0], t) == t, z3.Select(mp.cols[1], t) == t)), patterns=[z3.Select(mp.cols[0], t)])))]

        def inv_inner(view, k):
            mp = view['match_pairs']
            i = to_z3(view['i'])
            t = z3.Int('it')
            k = k if z3.is_expr(k) else z3.IntVal(k)
            u = z3.Int('iu')
            return [('no-earlier-partner', z3.ForAll([t], z3.Implies(z3.And(t >= 0, t < k), z3.Not(match(i, t))), patterns=[z3.Select(st['els'].cols[0], t)])),
                    ('pairs-unchanged-in-inner-loop', z3.And(mp.length == i, z3.ForAll([u], z3.Implies(z3.And(u >= 0, u < i),
                     z3.And(z3.Select(mp.cols[0], u) == u, z3.Select(mp.cols[1], u) == u)), patterns=[z3.Select(mp.cols[0], u)])))]

        I.funcspecs['%s:%s' % (REL, FN)] = FuncSpec(loops=[
            LoopSpec('(i, p1) in enumerate(orig_structure.positions)', inv=inv_outer, havoc_types={'match_pairs': ('tuple', ['int', 'int'])}),
            LoopSpec('(j, p2) in enumerate(final_structure.positions)', inv=inv_inner)])
        clo = I.closure_for(REL, FN)
        atoms_mod = I.module(REL)

        def thunk():
            N, T = z3.Int('N'), z3.Int('T')
            I.assume(N >= 0)
            I.assume(T >= 0)
            pos = SymSeq(N, [z3.Array('pos_%s' % c, INT, REAL) for c in 'xyz'], 3, 'ndarray', 'positions')
            els = SymSeq(N, [z3.Array('elements', INT, StrS)], None, 'list', 'elements')
            delta = z3.Real('max_delta')
            I.assume(delta > 0)
            st.update(pos=pos, els=els, delta=delta)
            a, b = z3.Int('ra'), z3.Int('rb')
            # requires: no two coincident atoms of the same element in the pattern
            I.assume(z3.ForAll([a, b], z3.Implies(z3.And(a >= 0, a < N, b >= 0, b < N, a != b), z3.Not(match(a, b))),
                               patterns=[z3.MultiPattern(z3.Select(els.cols[0], a), z3.Select(els.cols[0], b))]))
            P = I.state.alloc('Atoms', {'__class__': 'Atoms', '__module__': atoms_mod, 'positions': pos, 'elements': els})
            return I.call_closure(clo, [P, P], {'max_delta': Sym(delta)})

        paths = I.explore(thunk)
        for i, p in enumerate(paths):
            if p.outcome == 'loopend':
                continue
            if p.outcome != 'return':
                raise OutOfSubset("find_unchanged_atom_pairs raises")
            mp = p.value
            t = z3.Int('qt')
            S.add(I, "find_unchanged_atom_pairs/self/post/identity-map#%d" % i, p.pc,
                  z3.And(mp.length == st['pos'].length, z3.ForAll([t], z3.Implies(z3.And(t >= 0, t < mp.length),
                         z3.And(z3.Select(mp.cols[0], t) == t, z3.Select(mp.cols[1], t) == t)))),
                  clause='identical patterns share every atom: nothing is added or removed')
            S.add_canary(I, "find_unchanged_atom_pairs/canary#%d" % i, [h for h in p.pc if not z3.is_quantifier(h)])
        S.add_interp_obligations(I)
        spec = I.funcspecs['%s:%s' % (REL, FN)]
        if len(spec.seen_loops) != 2:
            raise OutOfSubset("both loops of %s must be cut at their invariants" % FN)
    S.guarded(FN, run)
    from contracts import C04
    S.function('mofun/mofun.py', 'replace_pattern_in_structure')
    C04.prove_self_replacement(S)
    S.clause('self-replacement: shared-atom map is the identity', 'PROVED (loop invariants, break handled)')
    S.clause('hence, for any number of matches: atom count, positions, elements, charges, groups and all term arrays unchanged (pattern without terms of its own)',
             'PROVED (replacement block, modular over the contracts of extend / __delitem__ / the search)')
    S.clause('A -> B -> A restores the structure; second search finds none; real MOF files', 'BOUNDED')
