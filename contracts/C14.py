"""C14 -- elements inferred from masses are the nearest element within tolerance.

Functions under contract: helpers.guess_elements_from_masses (+ closure find_element), and the try/except
block of Atoms.load_lmpdat that falls back to type numbers.
"""
import ast
import z3

from pyvc.values import Sym, SymOpt, SymSeq, StrS, OutOfSubset, to_z3
from pyvc.interp import ExcVal, RaiseSig, FuncSpec, LoopSpec
from pyvc import models_py

META = {
    'level': 'proof',
    'explanation': "VCs from the real AST of helpers.guess_elements_from_masses (table ATOMIC_MASSES read from "
                   "/repo/mofun/atomic_masses.py, loop over the constant table unrolled: complete, no bound), "
                   "real arithmetic; plus an exhaustive native stage over the table.",
    'trusted_base': ["A2: float arithmetic treated as real arithmetic (masses are compared as reals)",
                     "z3 / cvc5 soundness", "pyvc symbolic interpreter (cross-checked against CPython by selftest)"],
}


def zabs(e):
    return z3.If(e >= 0, e, -e)


def result_post(res, m, d, table, reg):
    """res: engine value (python str, Sym Str or SymOpt) -> z3 formula:
       |M[res] - m| < d  and  forall e: |M[e] - m| >= |M[res] - m|"""
    if isinstance(res, SymOpt):
        # on a normal return path `is None` was refuted by the path condition; postcondition speaks about val
        notnone = z3.Not(res.is_none)
        res = res.val
    else:
        notnone = z3.BoolVal(True)
    alts = []
    for e, me in table.items():
        de = zabs(z3.RealVal(str(me)) - m)
        closest = z3.And(*[zabs(z3.RealVal(str(m2)) - m) >= de for m2 in table.values()])
        alts.append(z3.And(to_z3(res, reg) == reg.strlit(e), de < d, closest))
    return z3.And(notnone, z3.Or(*alts))


def none_within(m, d, table):
    return z3.And(*[z3.Not(zabs(z3.RealVal(str(me)) - m) < d) for me in table.values()])


def build(S):
    I = S.interp()
    S.function('mofun/helpers.py', 'guess_elements_from_masses')
    S.function('mofun/helpers.py', 'guess_elements_from_masses.find_element')
    table = I.module('mofun/atomic_masses.py').consts['ATOMIC_MASSES']
    # exact decimal value of each table literal (the literal text, A2)
    table = {k: repr(v) for k, v in table.items()}
    g = I.closure_for('mofun/helpers.py', 'guess_elements_from_masses')
    S.assume("A2: float arithmetic treated as real arithmetic; table literals taken at their decimal value")

    # ---- (a) one mass: find_element against the nearest-within-tolerance spec ------------------
    m, d = z3.Real('elmass'), z3.Real('max_delta')

    def thunk():
        I.assume(d > 0)        # requires: a positive tolerance
        return I.call_closure(g, [[Sym(m)]], {'max_delta': Sym(d)})

    def replay_for(model):
        def val(name):
            v = model.get(name)
            if v is None:
                return 0.0
            v = v.replace('?', '')
            if '/' in v:
                a, b = v.split('/')
                return float(a) / float(b)
            return float(v)
        return {'kind': 'find_element', 'input': {'mass': val('elmass'), 'max_delta': val('max_delta')},
                'key': 'find_element', 'what': 'guess_elements_from_masses([%r], max_delta=%r) disagrees with nearest-within-tolerance' % (val('elmass'), val('max_delta'))}

    # loop invariant of `for sym, mass in ATOMIC_MASSES.items()` at concrete row i (one VC per table row):
    #   nothing chosen yet:  best_delta == max_delta  and rows 0..i-1 are all >= max_delta away
    #   chosen row t < i:    best_delta == |M_t - m| < max_delta  and rows 0..i-1 are all >= best_delta away
    rows = list(table.items())

    def inv(view, i):
        bs, bd = view['best_sym'], view['best_delta']
        if not isinstance(bs, SymOpt) and bs is not None:
            raise OutOfSubset("best_sym has unexpected shape")
        bd = to_z3(bd, sort=z3.RealSort())
        dist = [zabs(z3.RealVal(mm) - m) for _, mm in rows[:i]]
        if bs is None:
            return [('none-yet', z3.And(bd == d, *[x >= d for x in dist]))]
        some = z3.Or(*[z3.And(bs.val.e == I.reg.strlit(e), bd == dist[t]) for t, (e, _) in enumerate(rows[:i])]) if i else z3.BoolVal(False)
        return [('nearest-so-far', z3.And(
            z3.Implies(bs.is_none, z3.And(bd == d, *[x >= d for x in dist])),
            z3.Implies(z3.Not(bs.is_none), z3.And(some, bd < d, *[x >= bd for x in dist]))))]

    I.funcspecs['mofun/helpers.py:guess_elements_from_masses.find_element'] = FuncSpec(loops=[
        LoopSpec('(sym, mass) in ATOMIC_MASSES.items()', inv=inv, cut_concrete=True,
                 havoc_like={'best_sym': SymOpt(z3.BoolVal(True), Sym(z3.Const('s', StrS)))})])

    def run_a():
        paths = I.explore(thunk)
        if not paths:
            raise OutOfSubset("no feasible path through guess_elements_from_masses")
        paths = [p for p in paths if p.outcome != 'loopend']
        for i, p in enumerate(paths):
            if p.outcome == 'return':
                v = p.value
                if not (isinstance(v, list) and len(v) == 1):
                    raise OutOfSubset("unexpected result shape %r" % (v,))
                S.add(I, "find_element/post/nearest-within-tolerance#%d" % i, p.pc, result_post(v[0], m, d, table, I.reg),
                      replay=replay_for, clause='element is within tolerance and closest')
            elif p.outcome == 'raise':
                S.add(I, "find_element/raises-only-if-no-element-within-tolerance#%d" % i, p.pc, none_within(m, d, table),
                      replay=replay_for, clause='raises iff no element within tolerance')
            S.add_canary(I, "find_element/canary#%d" % i, p.pc)
        S.add_interp_obligations(I)
    S.guarded('guess_elements_from_masses', run_a)

    # ---- (b) two masses: the list result is element-wise, any failing mass raises ---------------
    I2 = S.interp()
    g2 = I2.closure_for('mofun/helpers.py', 'guess_elements_from_masses')
    m1, m2, d2 = z3.Real('m1'), z3.Real('m2'), z3.Real('max_delta')

    def thunk2():
        I2.assume(d2 > 0)
        return I2.call_closure(g2, [[Sym(m1), Sym(m2)]], {'max_delta': Sym(d2)})

    def find_element_contract(ctx, args, kwargs):
        (mass,) = args
        mz = to_z3(mass, sort=z3.RealSort())
        if I2.choose(2) == 0:
            r = Sym(z3.Const(I2.reg.fresh('el'), StrS))
            I2.assume(result_post(r, mz, d2, table, I2.reg))
            return r
        I2.assume(none_within(mz, d2, table))
        raise RaiseSig(ExcVal('Exception'))
    I2.models['mofun/helpers.py:guess_elements_from_masses.find_element'] = find_element_contract

    def run_b():
        paths = I2.explore(thunk2)
        for i, p in enumerate(paths):
            if p.outcome == 'return':
                v = p.value
                if not (isinstance(v, list) and len(v) == 2):
                    raise OutOfSubset("unexpected result shape")
                S.add(I2, "guess_elements/post/elementwise#%d" % i, p.pc,
                      z3.And(result_post(v[0], m1, d2, table, I2.reg), result_post(v[1], m2, d2, table, I2.reg)),
                      clause='list result is element-wise')
            else:
                S.add(I2, "guess_elements/raises-iff-some-mass-unmatched#%d" % i, p.pc,
                      z3.Or(none_within(m1, d2, table), none_within(m2, d2, table)))
            S.add_canary(I2, "guess_elements/canary#%d" % i, p.pc)
    S.guarded('guess_elements_from_masses[2]', run_b)

    # ---- (c) load_lmpdat: fallback to type numbers when guessing raises -------------------------
    I3 = S.interp()
    models_py.install(I3)
    S.function('mofun/atoms.py', 'Atoms.load_lmpdat')
    mod = I3.module('mofun/atoms.py')
    fn = mod.find('Atoms.load_lmpdat')
    tries = [n for n in ast.walk(fn) if isinstance(n, ast.Try)]

    def run_c():
        if len(tries) != 1:
            raise OutOfSubset("expected exactly one try block in load_lmpdat (contract no longer applies)")
        tr = tries[0]
        called = [ast.unparse(c.func) for c in ast.walk(tr) if isinstance(c, ast.Call)]
        if 'guess_elements_from_masses' not in called:
            raise OutOfSubset("try block no longer calls guess_elements_from_masses")
        state = {}

        def guess_model(ctx, args, kwargs):
            masses = args[0]
            dd = kwargs.get('max_delta', args[1] if len(args) > 1 else None)
            if not isinstance(masses, SymSeq) or dd is None:
                raise OutOfSubset("guess_elements_from_masses called with unexpected arguments")
            state['d_is_guess_atol'] = z3.simplify(to_z3(dd) == z3.Real('guess_atol'))
            state['masses_is_table'] = masses is state['atom_type_masses']
            j = z3.Int('j')
            all_ok = z3.ForAll([j], z3.Implies(z3.And(j >= 0, j < masses.length),
                                                z3.Not(none_within(z3.Select(masses.cols[0], j), to_z3(dd), table))))
            if I3.choose(2) == 0:
                I3.assume(all_ok)
                els = I3.fresh_seq('guessed', 'str')
                I3.assume(els.length == masses.length)
                state['guessed'] = els
                return els
            I3.assume(z3.Not(all_ok))
            raise RaiseSig(ExcVal('Exception'))
        I3.models['mofun/helpers.py:guess_elements_from_masses'] = guess_model

        def thunk3():
            n = z3.Int('ntypes')
            I3.assume(n >= 0)
            masses = SymSeq(n, [z3.Array('masses_tokens', z3.IntSort(), StrS)], None, 'list', 'masses')
            atm = SymSeq(n, [z3.Array('atom_type_masses', z3.IntSort(), z3.RealSort())], None, 'ndarray', 'atom_type_masses')
            state['atom_type_masses'] = atm
            env = {'masses': masses, 'atom_type_masses': atm, 'guess_atol': Sym(z3.Real('guess_atol')),
                   'atom_type_elements': []}
            ctx = I3.block_ctx('mofun/atoms.py', 'Atoms.load_lmpdat', env)
            ctx.exec_stmt(tr)
            return ctx.lookup('atom_type_elements'), n

        paths = I3.explore(thunk3)
        saw_fallback = saw_guess = False
        for i, p in enumerate(paths):
            if p.outcome != 'return':
                raise OutOfSubset("try block escapes with %s" % p.outcome)
            els, n = p.value
            if not isinstance(els, SymSeq):
                raise OutOfSubset("atom_type_elements is %r" % (els,))
            if state.get('guessed') is not None and els is state['guessed']:
                saw_guess = True
                S.add(I3, "load_lmpdat/try/guessed-list-used#%d" % i, p.pc,
                      z3.And(state['d_is_guess_atol'], z3.BoolVal(bool(state['masses_is_table']))),
                      clause='guessed elements are used when every mass matches')
            else:
                saw_fallback = True
                k = z3.Int('k')
                soi = I3.reg.ufunc('str_of_int', z3.IntSort(), StrS)
                goal = z3.And(els.length == n,
                              z3.ForAll([k], z3.Implies(z3.And(k >= 0, k < n), z3.Select(els.cols[0], k) == soi(k + 1))))
                S.add(I3, "load_lmpdat/try/fallback-is-type-numbers#%d" % i, p.pc, goal,
                      clause='type numbers for all types when a mass matches no element')
            state['guessed'] = None
        S.add(I3, "load_lmpdat/try/both-outcomes-reachable", [], z3.BoolVal(saw_fallback and saw_guess))
        S.add_interp_obligations(I3)
    S.guarded('load_lmpdat try block', run_c)
    S.assume("block contract: the try block of load_lmpdat is executed with masses / atom_type_masses of equal length "
             "(established by np.array(masses, dtype=float) just before it, not re-verified here)")
    S.assume("str(i) for a symbolic int is the uninterpreted injective-by-convention function str_of_int")
    S.clause('nearest-within-tolerance (find_element)', 'PROVED (reals, table unrolled)')
    S.clause('no element invented / fallback to type numbers', 'PROVED for the try block with guess_elements_from_masses under its contract')
    S.clause('write/read survival of distinguishable elements', 'EXHAUSTIVE over the 117-row table (bounded stage)')
    S.clause('IEEE double arithmetic', 'not proved (A2); exhaustive native stage runs the real doubles')
