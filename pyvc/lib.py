"""Core Python semantics for pyvc values plus the dispatch to library / contract models."""
import ast
import z3
from fractions import Fraction

from .values import (Sym, SymOpt, SymSeq, SeqSlice, SymSet, SmallSet, Ref, Opaque, Closure, Builtin, ModuleVal, ExcVal,
                     RowVal, OutOfSubset, StrS, to_z3, merge, truthy, zbool, values_equal, member, set_le,
                     is_scalar, is_concrete, sort_of_value, join_sorts, as_items, coerce)
from . import values as V
from .interp import (PathAbort, ReturnSig, BreakSig, ContinueSig, RaiseSig, MergeFail)
from .execctx import BoundMethod, StateView

NUM = (int, Fraction, bool)


def is_num(v):
    return isinstance(v, NUM) or (isinstance(v, Sym) and v.kind in ('int', 'real', 'bool'))


def is_seqlike(v):
    return isinstance(v, (list, tuple)) and not isinstance(v, str)


class CondSet:
    """Small set whose items carry presence conditions."""

    def __init__(self, items, conds):
        self.items = list(items)
        self.conds = list(conds)

    def __repr__(self):
        return "CondSet(%r)" % (list(zip(self.items, self.conds)),)


def to_condset(s):
    if isinstance(s, CondSet):
        return s
    items = as_items(s)
    return CondSet(items, [True] * len(items))


def cs_member(x, s):
    if isinstance(s, SymSet):
        return s.contains(to_z3(x))
    if isinstance(s, CondSet):
        parts = []
        for it, c in zip(s.items, s.conds):
            eq = values_equal(x, it)
            if eq is False or c is False:
                continue
            if eq is True and c is True:
                return True
            parts.append(z3.And(zbool(eq), zbool(c)))
        if not parts:
            return False
        return z3.Or(*parts) if len(parts) > 1 else parts[0]
    return member(x, s)


def cs_len(s):
    s = to_condset(s)
    terms = []
    for i, (it, c) in enumerate(zip(s.items, s.conds)):
        dup = []
        for j in range(i):
            eq = values_equal(it, s.items[j])
            if eq is False or s.conds[j] is False:
                continue
            dup.append(z3.And(zbool(eq), zbool(s.conds[j])))
        present = zbool(c)
        if dup:
            present = z3.And(present, z3.Not(z3.Or(*dup)))
        terms.append(z3.If(present, z3.IntVal(1), z3.IntVal(0)))
    if not terms:
        return 0
    e = z3.simplify(z3.Sum(*terms) if len(terms) > 1 else terms[0])
    if z3.is_int_value(e):
        return e.as_long()
    return Sym(e)


class Lib:
    def __init__(self, interp):
        self.I = interp
        interp.lib = self
        self.str_order_declared = False

    # ------------------------------------------------------------------ arithmetic
    def unop(self, ctx, op, v):
        if op == 'Not':
            t = truthy(v)
            if isinstance(t, bool):
                return not t
            return Sym(z3.Not(t))
        if op == 'USub':
            if isinstance(v, NUM):
                return -v
            if isinstance(v, Sym):
                return Sym(-self.num(v))
            if is_seqlike(v):
                return self.elementwise(ctx, lambda x: self.unop(ctx, op, x), v)
        if op == 'UAdd':
            return v
        raise OutOfSubset("unary %s on %r" % (op, v))

    def num(self, v):
        e = to_z3(v)
        if e.sort() == z3.BoolSort():
            e = z3.If(e, z3.IntVal(1), z3.IntVal(0))
        return e

    def elementwise(self, ctx, f, a, b=None):
        if b is None:
            out = [f(x) for x in a]
        else:
            if is_seqlike(a) and is_seqlike(b):
                if len(a) != len(b):
                    raise OutOfSubset("broadcast of different static lengths")
                out = [f(x, y) for x, y in zip(a, b)]
            elif is_seqlike(a):
                out = [f(x, b) for x in a]
            else:
                out = [f(a, y) for y in b]
        return RowVal(out, 'ndarray')

    def binop(self, ctx, op, a, b, inplace=False):
        mm = self.I.models.get('matval.binop')
        if mm is not None and (self._is_mat(a) or self._is_mat(b)):
            return mm(ctx, op, a, b)
        # numpy rows (fixed width) broadcast element-wise
        if isinstance(a, RowVal) or isinstance(b, RowVal):
            if (is_seqlike(a) or is_num(a)) and (is_seqlike(b) or is_num(b)):
                return self.elementwise(ctx, lambda x, y: self.binop(ctx, op, x, y), a, b)
        if isinstance(a, SymSeq) or isinstance(b, SymSeq):
            m = self.I.models.get('seq.binop')
            if m:
                return m(ctx, op, a, b)
            raise OutOfSubset("arithmetic on symbolic arrays (%s)" % op)
        if is_num(a) and is_num(b):
            return self.arith(ctx, op, a, b)
        if op == 'Add':
            if isinstance(a, str) and isinstance(b, str):
                return a + b
            if isinstance(a, list) and isinstance(b, list):
                return a + b
            if isinstance(a, tuple) and isinstance(b, tuple):
                return a + b
        if op == 'Mult':
            if isinstance(a, (list, tuple, str)) and isinstance(b, int):
                return a * b
            if isinstance(b, (list, tuple, str)) and isinstance(a, int):
                return b * a
        if op == 'Mod' and isinstance(a, str):
            return self.str_format(ctx, a, b)
        if op in ('BitAnd', 'BitOr', 'Sub') and self.is_setlike(a) and self.is_setlike(b):
            return self.set_op(op, a, b)
        if op in ('BitAnd', 'BitOr') and (self._boolish(a) and self._boolish(b)):
            ta, tb = zbool(truthy(a)), zbool(truthy(b))
            return Sym(z3.And(ta, tb) if op == 'BitAnd' else z3.Or(ta, tb))
        m = self.I.models.get('binop.fallback')
        if m:
            return m(ctx, op, a, b)
        raise OutOfSubset("binary %s on %r and %r" % (op, type(a).__name__, type(b).__name__))

    @staticmethod
    def _boolish(v):
        return isinstance(v, bool) or (isinstance(v, Sym) and v.kind == 'bool')

    @staticmethod
    def _is_mat(v):
        return isinstance(v, list) and not isinstance(v, RowVal) and len(v) > 0 and all(isinstance(r, RowVal) for r in v)

    def is_setlike(self, v):
        return isinstance(v, (set, frozenset, SmallSet, CondSet, SymSet))

    def set_op(self, op, a, b):
        if isinstance(a, (set, frozenset)) and isinstance(b, (set, frozenset)):
            return frozenset({'BitAnd': a & b, 'BitOr': a | b, 'Sub': a - b}[op])
        if op == 'BitOr':
            if isinstance(a, SymSet) or isinstance(b, SymSet):
                pa, pb = self.set_pred(a), self.set_pred(b)
                return SymSet(lambda x: z3.Or(pa(x), pb(x)), self.set_sort(a, b))
            ca, cb = to_condset(a), to_condset(b)
            return CondSet(ca.items + cb.items, ca.conds + cb.conds)
        if isinstance(a, SymSet):
            pa, pb = self.set_pred(a), self.set_pred(b)
            if op == 'BitAnd':
                return SymSet(lambda x: z3.And(pa(x), pb(x)), a.sort)
            return SymSet(lambda x: z3.And(pa(x), z3.Not(pb(x))), a.sort)
        ca = to_condset(a)
        conds = []
        for it, c in zip(ca.items, ca.conds):
            mb = cs_member(it, b)
            if op == 'Sub':
                mb = (not mb) if isinstance(mb, bool) else z3.Not(mb)
            if c is True:
                conds.append(mb)
            elif mb is True:
                conds.append(c)
            elif mb is False or c is False:
                conds.append(False)
            else:
                conds.append(z3.And(zbool(c), zbool(mb)))
        return CondSet(ca.items, conds)

    def set_sort(self, a, b):
        for s in (a, b):
            if isinstance(s, SymSet):
                return s.sort
        return z3.IntSort()

    def set_pred(self, s):
        if isinstance(s, SymSet):
            return s.pred
        return lambda x, s=s: zbool(cs_member(Sym(x), s))

    def arith(self, ctx, op, a, b):
        conc = isinstance(a, NUM) and isinstance(b, NUM)
        if conc:
            a2 = int(a) if isinstance(a, bool) else a
            b2 = int(b) if isinstance(b, bool) else b
            if op == 'Add':
                return a2 + b2
            if op == 'Sub':
                return a2 - b2
            if op == 'Mult':
                return a2 * b2
            if op == 'Div':
                if b2 == 0:
                    raise RaiseSig(ExcVal('ZeroDivisionError'))
                return Fraction(a2) / Fraction(b2)
            if op == 'FloorDiv':
                if b2 == 0:
                    raise RaiseSig(ExcVal('ZeroDivisionError'))
                return a2 // b2
            if op == 'Mod':
                if b2 == 0:
                    raise RaiseSig(ExcVal('ZeroDivisionError'))
                return a2 % b2
            if op == 'Pow':
                if isinstance(b2, int) or (isinstance(b2, Fraction) and b2.denominator == 1):
                    n = int(b2)
                    if n >= 0:
                        return a2 ** n
                    return Fraction(1) / (Fraction(a2) ** (-n))
                return self.sym_pow(ctx, a2, b2)
            raise OutOfSubset("concrete op %s" % op)
        ea, eb = self.num(a), self.num(b)
        real = ea.sort() == z3.RealSort() or eb.sort() == z3.RealSort()
        if real:
            ea, eb = coerce(ea, z3.RealSort()), coerce(eb, z3.RealSort())
        if op == 'Add':
            return Sym(ea + eb)
        if op == 'Sub':
            return Sym(ea - eb)
        if op == 'Mult':
            return Sym(ea * eb)
        if op == 'Div':
            ea, eb = coerce(ea, z3.RealSort()), coerce(eb, z3.RealSort())
            self.I.oblige("%s/safety/div-nonzero:%s" % (ctx.speckey, ctx.qualname), eb != 0, 'safety')
            return Sym(ea / eb)
        if op in ('FloorDiv', 'Mod'):
            if real:
                m = self.I.models.get('real.' + op)
                if m:
                    return m(ctx, a, b)
                raise OutOfSubset("%s on reals" % op)
            # python floor semantics agree with z3 div/mod for a positive divisor
            self.I.oblige("%s/safety/divisor-positive:%s" % (ctx.speckey, ctx.qualname), eb > 0, 'safety')
            return Sym(ea / eb) if op == 'FloorDiv' else Sym(ea % eb)
        if op == 'Pow':
            return self.sym_pow(ctx, a, b)
        raise OutOfSubset("symbolic op %s" % op)

    def sym_pow(self, ctx, a, b):
        if isinstance(b, bool):
            b = int(b)
        if isinstance(b, Fraction) and b.denominator == 1:
            b = int(b)
        if isinstance(b, int):
            base = self.num(a)
            n = abs(b)
            if n > 8:
                raise OutOfSubset("power %d" % b)
            if n == 0:
                return 1
            r = base
            for _ in range(n - 1):
                r = r * base
            if b < 0:
                r = 1 / coerce(r, z3.RealSort())
            return Sym(r)
        if isinstance(b, Fraction) and b == Fraction(1, 2):
            return self.sqrt(ctx, a)
        ea = coerce(self.num(a), z3.RealSort())
        eb = coerce(self.num(b), z3.RealSort())
        f = self.I.reg.ufunc('pow', z3.RealSort(), z3.RealSort(), z3.RealSort())
        return Sym(f(ea, eb))

    def sqrt(self, ctx, a):
        ea = coerce(self.num(a), z3.RealSort())
        f = self.I.reg.ufunc('sqrt', z3.RealSort(), z3.RealSort())
        r = f(ea)
        self.I.assume(z3.Implies(ea >= 0, z3.And(r >= 0, r * r == ea)))
        self.I.reg.assumptions_used.add("math: sqrt(x) is the non-negative root of x for x >= 0 (uninterpreted otherwise)")
        return Sym(r)

    def str_format(self, ctx, fmt, args):
        if not isinstance(args, tuple):
            args = (args,)
        if all(is_concrete(x) for x in args):
            return fmt % tuple(float(x) if isinstance(x, Fraction) else x for x in args)
        m = self.I.models.get('str.format')
        if m:
            return m(ctx, fmt, args)
        sorts = [sort_of_value(x) for x in args]
        if any(s is None for s in sorts):
            raise OutOfSubset("format of non-scalar")
        f = self.I.reg.ufunc('fmt[%s]' % fmt, *(sorts + [StrS]))
        return Sym(f(*[to_z3(x) for x in args]))

    # ------------------------------------------------------------------ comparison
    def compare(self, ctx, op, a, b):
        if op == 'Eq':
            return self.wrap(values_equal_ext(a, b))
        if op == 'NotEq':
            return self.neg(values_equal_ext(a, b))
        if op == 'Is':
            return self.wrap(self.is_(a, b))
        if op == 'IsNot':
            return self.neg(self.is_(a, b))
        if op == 'In':
            return self.wrap(self.contains(ctx, b, a))
        if op == 'NotIn':
            return self.neg(self.contains(ctx, b, a))
        if isinstance(a, Opaque) or isinstance(b, Opaque):
            m = self.I.models.get('compare.fallback')
            if m:
                return m(ctx, op, a, b)
        if isinstance(a, RowVal) or isinstance(b, RowVal):
            return self.elementwise(ctx, lambda x, y: self.compare(ctx, op, x, y), a, b)
        if isinstance(a, SymSeq) or isinstance(b, SymSeq):
            m = self.I.models.get('seq.compare')
            if m:
                return m(ctx, op, a, b)
            raise OutOfSubset("ordering comparison on symbolic arrays")
        if self.is_setlike(a) and self.is_setlike(b):
            if op == 'LtE':
                return self.wrap(self.subset(a, b))
            if op == 'GtE':
                return self.wrap(self.subset(b, a))
            raise OutOfSubset("set comparison %s" % op)
        return self.wrap(self.order(ctx, op, a, b))

    def subset(self, a, b):
        ca = to_condset(a)
        parts = []
        for it, c in zip(ca.items, ca.conds):
            mb = cs_member(it, b)
            if c is False or mb is True:
                continue
            if c is True and mb is False:
                return False
            parts.append(z3.Implies(zbool(c), zbool(mb)))
        if not parts:
            return True
        return z3.And(*parts) if len(parts) > 1 else parts[0]

    def wrap(self, r):
        if isinstance(r, bool) or isinstance(r, (Sym, RowVal)):
            return r
        return Sym(r)

    def neg(self, r):
        if isinstance(r, bool):
            return not r
        if isinstance(r, Sym):
            return Sym(z3.Not(r.e))
        return Sym(z3.Not(r))

    def is_(self, a, b):
        if b is None or a is None:
            return values_equal(a, b)
        if isinstance(a, Ref) and isinstance(b, Ref):
            return a.oid == b.oid
        if isinstance(a, bool) and isinstance(b, bool):
            return a == b
        raise OutOfSubset("`is` between %r and %r" % (a, b))

    def contains(self, ctx, cont, x):
        if isinstance(cont, dict):
            if is_concrete(x):
                return x in cont
            return member(x, list(cont.keys()))
        if isinstance(cont, (SymSet, CondSet)):
            return cs_member(x, cont)
        if isinstance(cont, SymSeq):
            m = self.I.models.get('seq.contains')
            if m:
                return m(ctx, cont, x)
            if cont.width is not None:
                raise OutOfSubset("membership in 2-D symbolic array")
            j = z3.Int(self.I.reg.fresh('j'))
            return z3.Exists([j], z3.And(j >= 0, j < cont.length, z3.Select(cont.cols[0], j) == to_z3(x, sort=cont.elem_sort())))
        if isinstance(cont, str):
            if isinstance(x, str):
                return x in cont
            m = self.I.models.get('str.contains')
            if m:
                return m(ctx, cont, x)
            raise OutOfSubset("substring test on symbolic string")
        if isinstance(cont, Sym) and cont.kind == 'str':
            m = self.I.models.get('str.contains')
            if m:
                return m(ctx, cont, x)
            raise OutOfSubset("substring test on symbolic string")
        m = self.I.models.get('contains.fallback')
        if m and not isinstance(cont, (list, tuple, set, frozenset, SmallSet)):
            return m(ctx, cont, x)
        return member(x, cont)

    def order(self, ctx, op, a, b):
        if is_num(a) and is_num(b):
            if isinstance(a, NUM) and isinstance(b, NUM):
                return {'Lt': a < b, 'LtE': a <= b, 'Gt': a > b, 'GtE': a >= b}[op]
            ea, eb = self.num(a), self.num(b)
            if ea.sort() != eb.sort():
                ea, eb = coerce(ea, z3.RealSort()), coerce(eb, z3.RealSort())
            return {'Lt': ea < eb, 'LtE': ea <= eb, 'Gt': ea > eb, 'GtE': ea >= eb}[op]
        if (isinstance(a, str) or (isinstance(a, Sym) and a.kind == 'str')) and \
                (isinstance(b, str) or (isinstance(b, Sym) and b.kind == 'str')):
            if isinstance(a, str) and isinstance(b, str):
                return {'Lt': a < b, 'LtE': a <= b, 'Gt': a > b, 'GtE': a >= b}[op]
            le = self.str_le()
            ea, eb = to_z3(a), to_z3(b)
            return {'LtE': le(ea, eb), 'GtE': le(eb, ea), 'Lt': z3.Not(le(eb, ea)), 'Gt': z3.Not(le(ea, eb))}[op]
        if is_seqlike(a) and is_seqlike(b):
            # lexicographic
            return self.lex(ctx, op, list(a), list(b))
        raise OutOfSubset("ordering %s between %r and %r" % (op, a, b))

    def lex(self, ctx, op, a, b):
        strict = op in ('Lt', 'Gt')
        if op in ('Gt', 'GtE'):
            a, b = b, a
        # a < b  or a <= b
        if not a:
            return (len(b) > 0) if strict else True
        if not b:
            return False
        lt = zbool(self.order(ctx, 'Lt', a[0], b[0]))
        eq = zbool(values_equal(a[0], b[0]))
        rest = zbool(self.lex(ctx, 'Lt' if strict else 'LtE', a[1:], b[1:]))
        return z3.Or(lt, z3.And(eq, rest))

    def str_le(self):
        le = self.I.reg.ufunc('str_le', StrS, StrS, z3.BoolSort())
        if not self.str_order_declared:
            self.str_order_declared = True
            x, y, w = z3.Consts('sx sy sw', StrS)
            self.I.base_axioms += [
                z3.ForAll([x, y], z3.Or(le(x, y), le(y, x)), patterns=[z3.MultiPattern(le(x, y))]),
                z3.ForAll([x, y], z3.Implies(z3.And(le(x, y), le(y, x)), x == y), patterns=[z3.MultiPattern(le(x, y), le(y, x))]),
                z3.ForAll([x, y, w], z3.Implies(z3.And(le(x, y), le(y, w)), le(x, w)), patterns=[z3.MultiPattern(le(x, y), le(y, w))]),
            ]
        return le

    # ------------------------------------------------------------------ attributes / items
    def getattr(self, ctx, obj, name, node=None, for_call=False):
        I = self.I
        if isinstance(obj, Ref):
            heap = I.state.heap[obj.oid]
            if name in heap:
                return heap[name]
            cls = heap.get('__class__', obj.cls)
            mod = heap.get('__module__') or I.module('mofun/atoms.py')
            qn = "%s.%s" % (cls, name)
            key = "%s:%s" % (mod.relpath, qn)
            if qn in mod.funcs:
                fn = mod.funcs[qn]
                decos = [ast.unparse(d) for d in fn.decorator_list]
                if 'property' in decos:
                    if key in I.models:
                        return I.models[key](ctx, [obj], {})
                    return I.call_closure(Closure(fn, [0], qn, mod), [obj], {})
                return BoundMethod(obj, name)
            raise RaiseSig(ExcVal('AttributeError', (name,)))
        if isinstance(obj, ModuleVal):
            if name in obj.attrs:
                return obj.attrs[name]
            if obj.name.startswith('class:'):
                return BoundMethod(obj, name)
            return Builtin(obj.name + '.' + name, None)
        if isinstance(obj, Builtin):
            return Builtin(obj.name + '.' + name, None)
        m = I.models.get('attr.' + name)
        if m is not None and not for_call:
            r = m(ctx, obj)
            if r is not NotImplemented:
                return r
        if isinstance(obj, Opaque) and not for_call:
            m = I.models.get('opaque.getattr')
            if m is not None:
                return m(ctx, obj, name)
        return BoundMethod(obj, name, node.value if node is not None else None)

    def setattr(self, ctx, obj, name, v):
        if isinstance(obj, Ref):
            self.I.state.heap[obj.oid][name] = v
            m = self.I.models.get('ref.setattr.hook')
            if m is not None:
                m(ctx, obj, name, v)
            return
        raise OutOfSubset("attribute assignment on %r" % (obj,))

    def index_value(self, ctx, sl):
        if isinstance(sl, ast.Slice):
            return ('slice', None if sl.lower is None else ctx.eval(sl.lower),
                    None if sl.upper is None else ctx.eval(sl.upper),
                    None if sl.step is None else ctx.eval(sl.step))
        if isinstance(sl, ast.Tuple):
            return ('tuple', [self.index_value(ctx, x) for x in sl.elts])
        return ('index', ctx.eval(sl))

    def getitem(self, ctx, cont, sl):
        I = self.I
        idx = self.index_value(ctx, sl)
        m = I.models.get('getitem:' + type(cont).__name__)
        if m is not None:
            r = m(ctx, cont, idx)
            if r is not NotImplemented:
                return r
        if isinstance(cont, dict):
            if idx[0] != 'index':
                raise OutOfSubset("dict slice")
            k = idx[1]
            if is_concrete(k):
                if k not in cont:
                    raise RaiseSig(ExcVal('KeyError'))
                return cont[k]
            # symbolic key into a concrete dict: ite-chain, KeyError if absent
            keys = list(cont.keys())
            present = member(k, keys)
            I.oblige("%s/safety/key-present" % ctx.speckey, zbool(present), 'safety')
            vals = [cont[x] for x in keys]
            r = vals[-1]
            for kk, vv in reversed(list(zip(keys, vals))[:-1]):
                r = merge(zbool(values_equal(k, kk)), vv, r)
            return r
        if isinstance(cont, (list, tuple, str)):
            if idx[0] == 'index':
                i = idx[1]
                if isinstance(i, bool):
                    i = int(i)
                if isinstance(i, int):
                    if not -len(cont) <= i < len(cont):
                        raise RaiseSig(ExcVal('IndexError'))
                    return cont[i]
                if isinstance(i, Sym) and i.kind == 'int' and not isinstance(cont, str):
                    if len(cont) == 0:
                        raise RaiseSig(ExcVal('IndexError'))
                    I.oblige("%s/safety/index-in-range" % ctx.speckey, z3.And(i.e >= 0, i.e < len(cont)), 'safety')
                    r = cont[-1]
                    for j in range(len(cont) - 2, -1, -1):
                        r = merge(i.e == j, cont[j], r)
                    return r
                if isinstance(i, SymOpt):
                    I.oblige("%s/safety/index-not-none" % ctx.speckey, z3.Not(i.is_none), 'safety')
                    return self.getitem_val(ctx, cont, i.val)
            if idx[0] == 'tuple' and len(idx[1]) == 2 and all(ix[0] == 'index' and isinstance(ix[1], int) for ix in idx[1]) \
                    and isinstance(cont, list) and cont and all(isinstance(r, (list, tuple)) for r in cont):
                i, j = idx[1][0][1], idx[1][1][1]
                return cont[i][j]
            if idx[0] == 'tuple' and len(idx[1]) == 2 and idx[1][0][0] == 'slice' and idx[1][0][1:] == (None, None, None) and idx[1][1][0] == 'index' \
                    and isinstance(idx[1][1][1], int) and isinstance(cont, list) and cont and all(isinstance(r, (list, tuple)) for r in cont):
                return RowVal([r[idx[1][1][1]] for r in cont])
            if idx[0] == 'slice':
                _, lo, hi, st = idx
                if all(x is None or isinstance(x, int) for x in (lo, hi, st)):
                    r = cont[slice(lo, hi, st)]
                    if isinstance(cont, RowVal):
                        return RowVal(r, cont.kind)
                    return r
            raise OutOfSubset("index %r into concrete sequence" % (idx,))
        if isinstance(cont, SymSeq):
            if idx[0] == 'index' and isinstance(idx[1], (int, Sym)) and not isinstance(idx[1], bool):
                i = to_z3(idx[1])
                if i.sort() != z3.IntSort():
                    raise OutOfSubset("non-integer index")
                I.oblige("%s/safety/index-in-range" % ctx.speckey, z3.And(i >= 0, i < cont.length), 'safety')
                return cont.get(i)
            if idx[0] == 'tuple' and len(idx[1]) == 2 and idx[1][0] == ('slice', None, None, None) and cont.width is not None:
                # a[:, c] and a[:, lo:hi] of a 2-D array with a fixed number of columns
                sel = idx[1][1]
                w = cont.width
                if sel[0] == 'index' and isinstance(sel[1], int) and not isinstance(sel[1], bool) and -w <= sel[1] < w:
                    return SymSeq(cont.length, [cont.cols[sel[1]]], None, cont.kind, "%s[:,%d]" % (cont.name, sel[1]))
                if sel[0] == 'slice' and sel[3] is None and all(x is None or (isinstance(x, int) and not isinstance(x, bool)) for x in sel[1:3]):
                    cols = cont.cols[slice(sel[1], sel[2])]
                    if cols:
                        return SymSeq(cont.length, list(cols), len(cols), cont.kind, "%s[:,%s:%s]" % (cont.name, sel[1], sel[2]))
            if idx[0] == 'slice' and idx[2] is None and idx[3] is None and isinstance(idx[1], (int, Sym)) and not isinstance(idx[1], bool):
                lo = to_z3(idx[1])
                if lo.sort() != z3.IntSort():
                    raise OutOfSubset("non-integer slice bound")
                if I.feasible(lo < 0):
                    raise OutOfSubset("slice with a possibly negative lower bound")
                return SeqSlice(cont, lo)
            raise OutOfSubset("index %r into symbolic sequence" % (idx,))
        if isinstance(cont, Sym) and cont.kind == 'str':
            m = I.models.get('str.getitem')
            if m:
                return m(ctx, cont, idx)
        raise OutOfSubset("subscript of %r" % (cont,))

    def getitem_val(self, ctx, cont, i):
        node = ast.Constant(0)
        saved = ctx.eval

        def fake_eval(n, _i=i, _saved=saved):
            return _i if n is node else _saved(n)
        ctx.eval = fake_eval
        try:
            return self.getitem(ctx, cont, node)
        finally:
            del ctx.eval

    def setitem(self, ctx, cont, sl, v):
        """Returns the new container value (the caller re-binds it) -- value semantics, see aliasing note."""
        idx = self.index_value(ctx, sl)
        m = self.I.models.get('setitem:' + type(cont).__name__)
        if m is not None:
            r = m(ctx, cont, idx, v)
            if r is not NotImplemented:
                return r
        if isinstance(cont, dict):
            if idx[0] == 'index' and is_concrete(idx[1]):
                d = dict(cont)
                d[idx[1]] = v
                return d
        if isinstance(cont, list):
            if idx[0] == 'index' and isinstance(idx[1], int):
                l = type(cont)(cont) if not isinstance(cont, RowVal) else RowVal(list(cont), cont.kind)
                if not -len(l) <= idx[1] < len(l):
                    raise RaiseSig(ExcVal('IndexError'))
                l[idx[1]] = v
                return l
        if isinstance(cont, SymSeq) and idx[0] == 'index' and cont.width is None:
            i = to_z3(idx[1])
            self.I.oblige("%s/safety/store-in-range" % ctx.speckey, z3.And(i >= 0, i < cont.length), 'safety')
            return SymSeq(cont.length, [z3.Store(cont.cols[0], i, to_z3(v, sort=cont.elem_sort()))], None, cont.kind, cont.name)
        raise OutOfSubset("item assignment on %r with %r" % (cont, idx))

    def delete_target(self, ctx, t):
        m = self.I.models.get('delete')
        if m:
            r = m(ctx, t)
            if r is not NotImplemented:
                return
        if isinstance(t, ast.Name):
            tab = self.I.state.frametab
            for fid in reversed(ctx.chain):
                if t.id in tab.get(fid, {}):
                    del tab[fid][t.id]
                    return
            raise RaiseSig(ExcVal('NameError'))
        if isinstance(t, ast.Tuple):
            for e in t.elts:
                self.delete_target(ctx, e)
            return
        if isinstance(t, ast.Subscript):
            cont = ctx.eval(t.value)
            idx = self.index_value(ctx, t.slice)
            if isinstance(cont, Ref):
                # del obj[indices] -> __delitem__
                return self.call(ctx, BoundMethod(cont, '__delitem__'), [idx[1]], {}, None)
            if isinstance(cont, list) and idx[0] == 'index' and isinstance(idx[1], int):
                l = list(cont)
                del l[idx[1]]
                ctx.assign(t.value, l)
                return
        raise OutOfSubset("del %s" % ast.unparse(t))

    def unpack(self, ctx, v, n, node=None):
        if isinstance(v, (list, tuple)):
            if len(v) != n:
                raise RaiseSig(ExcVal('ValueError'))
            return list(v)
        items = self.concrete_iter(ctx, v)
        if items is not None:
            if len(items) != n:
                raise RaiseSig(ExcVal('ValueError'))
            return items
        if type(v).__name__ == 'ZipStar':
            # zip(*rows): no rows -> nothing to unpack (ValueError); otherwise one item per column
            seq = v.seq
            if not self.I.branch(seq.length >= 1):
                raise RaiseSig(ExcVal('ValueError'))
            cols = v.columns()
            if len(cols) != n:
                raise RaiseSig(ExcVal('ValueError'))
            return cols
        if isinstance(v, SymSeq):
            # unpacking a symbolic-length sequence: ValueError unless the length is n
            if not self.I.branch(v.length == n):
                raise RaiseSig(ExcVal('ValueError'))
            return [v.get(z3.IntVal(i)) for i in range(n)]
        raise OutOfSubset("unpack of %r" % (v,))

    # ------------------------------------------------------------------ iteration
    def concrete_iter(self, ctx, it):
        """List of items if `it` has a concrete length, else None."""
        if isinstance(it, (list, tuple)):
            return list(it)
        if isinstance(it, str):
            return list(it)
        if isinstance(it, dict):
            return list(it.keys())
        if isinstance(it, (set, frozenset)):
            return sorted(it, key=repr)
        if isinstance(it, SmallSet):
            raise OutOfSubset("iteration over a set with symbolic members")
        if isinstance(it, LazyIter):
            return it.concrete()
        return None

    def symbolic_iter(self, ctx, it):
        """(length z3 Int, elem: k -> value) for a symbolic-length iterable."""
        if isinstance(it, SymSeq):
            return it.length, it.get
        if isinstance(it, LazyIter):
            return it.symbolic()
        raise OutOfSubset("iteration over %r" % (it,))

    def seq_from_concrete(self, ctx, items, etype, name):
        seq = self.I.fresh_seq(name, etype)
        # replace the fresh length by the concrete one
        cols = seq.cols
        for i, x in enumerate(items):
            xs = list(x) if seq.width is not None else [x]
            cols = [z3.Store(c, i, to_z3(xv, sort=c.range())) for c, xv in zip(cols, xs)]
        return SymSeq(z3.IntVal(len(items)), cols, seq.width, 'list', name)

    def comprehension(self, ctx, e, kind):
        gens = e.generators
        elt = e.elt if not isinstance(e, ast.DictComp) else None

        def rec(gi, out):
            if gi == len(gens):
                out.append(ctx.eval(elt) if elt is not None else (ctx.eval(e.key), ctx.eval(e.value)))
                return
            g = gens[gi]
            it = ctx.eval(g.iter)
            items = self.concrete_iter(ctx, it)
            if items is None:
                raise SymbolicComp(gi, it)
            for x in items:
                ctx.assign(g.target, x)
                ok = True
                for cnd in g.ifs:
                    t = truthy(ctx.eval(cnd))
                    if not isinstance(t, bool):
                        t = self.I.branch(t)
                    if not t:
                        ok = False
                        break
                if ok:
                    rec(gi + 1, out)

        # comprehension scope: a new frame chained to the current one
        fid = self.I.state.new_frame({})
        saved = ctx.chain
        ctx.chain = ctx.chain + [fid]
        try:
            out = []
            try:
                rec(0, out)
                return out
            except SymbolicComp as sc:
                m = self.I.models.get('comprehension')
                if m is None:
                    raise OutOfSubset("comprehension over a symbolic-length iterable: %s" % ast.unparse(e))
                return m(ctx, e, sc)
        finally:
            ctx.chain = saved

    def dict_comprehension(self, ctx, e):
        pairs = self.comprehension(ctx, e, 'dict')
        if isinstance(pairs, list):
            d = {}
            for k, v in pairs:
                if not is_concrete(k):
                    raise OutOfSubset("dict comprehension with symbolic keys")
                d[k] = v
            return d
        return pairs

    # ------------------------------------------------------------------ calls
    def call(self, ctx, f, args, kwargs, node):
        I = self.I
        if isinstance(f, Closure):
            key = "%s:%s" % (f.module.relpath, f.qualname)
            if key in I.models:
                return I.models[key](ctx, args, kwargs)
            return I.call_closure(f, args, dict(kwargs))
        if isinstance(f, BoundMethod):
            recv = f.recv
            if isinstance(recv, Ref):
                heap = I.state.heap[recv.oid]
                cls = heap.get('__class__', recv.cls)
                mod = heap.get('__module__') or I.module('mofun/atoms.py')
                qn = "%s.%s" % (cls, f.name)
                key = "%s:%s" % (mod.relpath, qn)
                if key in I.models:
                    return I.models[key](ctx, [recv] + args, kwargs)
                if qn in mod.funcs:
                    decos = [ast.unparse(d) for d in mod.funcs[qn].decorator_list]
                    if 'staticmethod' in decos:
                        return I.call_closure(Closure(mod.funcs[qn], [0], qn, mod), args, dict(kwargs))
                    return I.call_closure(Closure(mod.funcs[qn], [0], qn, mod), [recv] + args, dict(kwargs))
                raise RaiseSig(ExcVal('AttributeError', (f.name,)))
            if isinstance(recv, ModuleVal) and recv.name.startswith('class:'):
                cls = recv.attrs['__class__']
                mod = recv.attrs['__module__']
                qn = "%s.%s" % (cls, f.name)
                key = "%s:%s" % (mod.relpath, qn)
                if key in I.models:
                    return I.models[key](ctx, [recv] + args, kwargs)
                if qn in mod.funcs:
                    fn = mod.funcs[qn]
                    decos = [ast.unparse(d) for d in fn.decorator_list]
                    if 'classmethod' in decos:
                        return I.call_closure(Closure(fn, [0], qn, mod), [recv] + args, dict(kwargs))
                    return I.call_closure(Closure(fn, [0], qn, mod), args, dict(kwargs))
                raise RaiseSig(ExcVal('AttributeError', (f.name,)))
            m = I.models.get('method.' + f.name)
            if m is not None:
                r = m(ctx, recv, args, kwargs, f)
                if r is not NotImplemented:
                    return r
            if isinstance(recv, Opaque):
                m = I.models.get('opaque.method')
                if m is not None:
                    return m(ctx, recv, f.name, args, kwargs, f)
            meth = getattr(self, 'meth_' + f.name, None)
            if meth is not None:
                return meth(ctx, recv, args, kwargs, f)
            raise OutOfSubset("method %s on %s" % (f.name, type(recv).__name__))
        if isinstance(f, Builtin):
            if f.name in I.models:
                return I.models[f.name](ctx, args, kwargs)
            bi = getattr(self, 'bi_' + f.name.replace('.', '_'), None)
            if bi is not None:
                return bi(ctx, args, kwargs)
            fb = I.models.get('libcall.fallback')
            if fb is not None:
                r = fb(ctx, f.name, args, kwargs)
                if r is not NotImplemented:
                    return r
            raise OutOfSubset("call of unmodelled library function %s" % f.name)
        if isinstance(f, ModuleVal) and f.name.startswith('class:'):
            cls = f.attrs['__class__']
            mod = f.attrs['__module__']
            key = "%s:%s.__init__" % (mod.relpath, cls)
            if key in I.models:
                return I.models[key](ctx, args, kwargs)
            if cls + ".__init__" in mod.funcs:
                ref = I.state.alloc(cls, {'__class__': cls, '__module__': mod})
                I.call_closure(Closure(mod.funcs[cls + ".__init__"], [0], cls + ".__init__", mod), [ref] + args, dict(kwargs))
                return ref
            # exception classes declared in the repo: class X(Exception): pass
            return ExcVal(cls, tuple(args))
        raise OutOfSubset("call of %r" % (f,))

    # builtins ---------------------------------------------------------------------------------
    def bi_len(self, ctx, args, kwargs):
        (v,) = args
        if isinstance(v, (list, tuple, str, dict, set, frozenset)):
            return len(v)
        if isinstance(v, SymSeq):
            return Sym(v.length)
        if isinstance(v, (SmallSet, CondSet)):
            return cs_len(v)
        if isinstance(v, Ref):
            return self.call(ctx, BoundMethod(v, '__len__'), [], {}, None)
        m = self.I.models.get('len.fallback')
        if m:
            return m(ctx, v)
        raise OutOfSubset("len of %r" % (v,))

    def bi_range(self, ctx, args, kwargs):
        if all(isinstance(a, int) for a in args):
            return list(range(*args))
        if len(args) == 1:
            return LazyIter('range', [0, args[0]])
        if len(args) == 2:
            return LazyIter('range', list(args))
        raise OutOfSubset("range with symbolic step")

    def bi_enumerate(self, ctx, args, kwargs):
        (it,) = args
        items = self.concrete_iter(ctx, it)
        if items is not None:
            return [(i, x) for i, x in enumerate(items)]
        return LazyIter('enumerate', [it], self)

    def bi_zip(self, ctx, args, kwargs):
        from .models_py import StarArg, ZipStar
        if len(args) == 1 and isinstance(args[0], StarArg):
            return ZipStar(args[0].seq)
        lists = [self.concrete_iter(ctx, a) for a in args]
        if all(l is not None for l in lists):
            return [tuple(t) for t in zip(*lists)]
        m = self.I.models.get('zip')
        if m:
            return m(ctx, args, kwargs)
        raise OutOfSubset("zip of symbolic sequences")

    def bi_reversed(self, ctx, args, kwargs):
        items = self.concrete_iter(ctx, args[0])
        if items is not None:
            return list(reversed(items))
        raise OutOfSubset("reversed of symbolic sequence")

    def bi_list(self, ctx, args, kwargs):
        if not args:
            return []
        v = args[0]
        items = self.concrete_iter(ctx, v)
        if items is not None:
            return list(items)
        if isinstance(v, SymSeq):
            return SymSeq(v.length, v.cols, v.width, 'list', v.name)
        m = self.I.models.get('list.fallback')
        if m:
            return m(ctx, v)
        raise OutOfSubset("list(%r)" % (v,))

    def bi_tuple(self, ctx, args, kwargs):
        if not args:
            return ()
        v = args[0]
        items = self.concrete_iter(ctx, v)
        if items is not None:
            return tuple(items)
        if isinstance(v, SymSeq):
            return v
        raise OutOfSubset("tuple(%r)" % (v,))

    def bi_set(self, ctx, args, kwargs):
        if not args:
            return frozenset()
        v = args[0]
        if isinstance(v, (SmallSet, CondSet, SymSet, frozenset)):
            return v
        items = self.concrete_iter(ctx, v)
        if items is not None:
            if all(is_concrete(x) for x in items):
                return frozenset(items)
            return SmallSet(items)
        if isinstance(v, SymSeq) and v.width is None:
            seq = v
            j = z3.Int('j!set')

            def pred(x, seq=seq):
                jj = z3.Int(self.I.reg.fresh('j'))
                return z3.Exists([jj], z3.And(jj >= 0, jj < seq.length, z3.Select(seq.cols[0], jj) == x))
            return SymSet(pred, seq.elem_sort(), 'set(%s)' % seq.name)
        raise OutOfSubset("set(%r)" % (v,))

    def bi_dict(self, ctx, args, kwargs):
        if not args:
            return dict(kwargs)
        if isinstance(args[0], dict):
            d = dict(args[0])
            d.update(kwargs)
            return d
        raise OutOfSubset("dict(...)")

    def bi_abs(self, ctx, args, kwargs):
        (v,) = args
        if isinstance(v, NUM):
            return abs(v)
        if isinstance(v, Sym):
            e = self.num(v)
            return Sym(z3.If(e >= 0, e, -e))
        raise OutOfSubset("abs(%r)" % (v,))

    def bi_max(self, ctx, args, kwargs):
        return self._minmax(ctx, args, kwargs, True)

    def bi_min(self, ctx, args, kwargs):
        return self._minmax(ctx, args, kwargs, False)

    def _minmax(self, ctx, args, kwargs, ismax):
        if kwargs:
            raise OutOfSubset("min/max with key")
        items = args
        if len(args) == 1:
            items = self.concrete_iter(ctx, args[0])
            if items is None:
                m = self.I.models.get('max.seq' if ismax else 'min.seq')
                if m:
                    return m(ctx, args[0])
                raise OutOfSubset("min/max of symbolic sequence")
        if not items:
            raise RaiseSig(ExcVal('ValueError'))
        r = items[0]
        for x in items[1:]:
            if isinstance(r, NUM) and isinstance(x, NUM):
                r = (x if x > r else r) if ismax else (x if x < r else r)
            else:
                c = zbool(self.order(ctx, 'Gt' if ismax else 'Lt', x, r))
                r = merge(c, x, r)
        return r

    def bi_float(self, ctx, args, kwargs):
        (v,) = args
        if isinstance(v, (int, Fraction)) and not isinstance(v, bool):
            return Fraction(v)
        if isinstance(v, Sym) and v.kind in ('int', 'real'):
            return Sym(coerce(v.e, z3.RealSort()))
        if isinstance(v, str):
            try:
                return Fraction(v.strip())
            except Exception:
                raise RaiseSig(ExcVal('ValueError'))
        if isinstance(v, Sym) and v.kind == 'str':
            f = self.I.reg.ufunc('float_of_str', StrS, z3.RealSort())
            self.I.reg.assumptions_used.add("float(s) on a symbolic string is an uninterpreted total function (ValueError not modelled)")
            return Sym(f(v.e))
        raise OutOfSubset("float(%r)" % (v,))

    def bi_int(self, ctx, args, kwargs):
        (v,) = args
        if isinstance(v, (int, bool)):
            return int(v)
        if isinstance(v, Fraction):
            return int(v)
        if isinstance(v, Sym) and v.kind == 'int':
            return v
        if isinstance(v, Sym) and v.kind == 'real':
            # truncation toward zero
            e = v.e
            return Sym(z3.If(e >= 0, z3.ToInt(e), -z3.ToInt(-e)))
        raise OutOfSubset("int(%r)" % (v,))

    def bi_str(self, ctx, args, kwargs):
        (v,) = args
        if isinstance(v, str):
            return v
        if isinstance(v, int):
            return str(v)
        if isinstance(v, Sym) and v.kind == 'int':
            f = self.I.reg.ufunc('str_of_int', z3.IntSort(), StrS)
            return Sym(f(v.e))
        if isinstance(v, Sym) and v.kind == 'str':
            return v
        raise OutOfSubset("str(%r)" % (v,))

    def bi_bool(self, ctx, args, kwargs):
        t = truthy(args[0])
        return t if isinstance(t, bool) else Sym(t)

    def bi_round(self, ctx, args, kwargs):
        if len(args) != 1:
            raise OutOfSubset("round with ndigits")
        v = args[0]
        if isinstance(v, int):
            return v
        if isinstance(v, Fraction):
            return round(v)
        if isinstance(v, Sym) and v.kind == 'int':
            return v
        if isinstance(v, Sym) and v.kind == 'real':
            # round half to even
            e = v.e
            fl = z3.ToInt(e)
            frac = e - z3.ToReal(fl)
            half = z3.RealVal('1/2')
            r = z3.If(frac < half, fl, z3.If(frac > half, fl + 1, z3.If(fl % 2 == 0, fl, fl + 1)))
            return Sym(r)
        raise OutOfSubset("round(%r)" % (v,))

    def bi_sorted(self, ctx, args, kwargs):
        items = self.concrete_iter(ctx, args[0])
        if items is not None and all(is_concrete(x) for x in items) and 'key' not in kwargs:
            return sorted(items, reverse=bool(kwargs.get('reverse', False)))
        m = self.I.models.get('sorted')
        if m:
            return m(ctx, args, kwargs)
        raise OutOfSubset("sorted of symbolic data")

    def bi_isinstance(self, ctx, args, kwargs):
        m = self.I.models.get('isinstance')
        if m:
            return m(ctx, args, kwargs)
        raise OutOfSubset("isinstance")

    def bi_getattr(self, ctx, args, kwargs):
        if len(args) == 2 and isinstance(args[1], str) and not kwargs:
            return self.getattr(ctx, args[0], args[1])
        raise OutOfSubset("getattr with a symbolic name or a default")

    def bi_setattr(self, ctx, args, kwargs):
        if len(args) == 3 and isinstance(args[1], str) and not kwargs:
            self.setattr(ctx, args[0], args[1], args[2])
            return None
        raise OutOfSubset("setattr with a symbolic name")

    def bi_hasattr(self, ctx, args, kwargs):
        v, name = args
        if name == '__iter__':
            if isinstance(v, (list, tuple, SymSeq, dict, str)):
                return True
            if is_scalar(v):
                return False
        raise OutOfSubset("hasattr(%r, %r)" % (v, name))

    def bi_sum(self, ctx, args, kwargs):
        items = self.concrete_iter(ctx, args[0])
        if items is None:
            raise OutOfSubset("sum of symbolic sequence")
        r = args[1] if len(args) > 1 else 0
        for x in items:
            r = self.binop(ctx, 'Add', r, x)
        return r

    def bi_any(self, ctx, args, kwargs):
        items = self.concrete_iter(ctx, args[0])
        if items is None:
            raise OutOfSubset("any of symbolic sequence")
        ts = [truthy(x) for x in items]
        if any(t is True for t in ts):
            return True
        ts = [t for t in ts if t is not False]
        if not ts:
            return False
        return Sym(z3.Or(*ts) if len(ts) > 1 else ts[0])

    def bi_all(self, ctx, args, kwargs):
        items = self.concrete_iter(ctx, args[0])
        if items is None:
            raise OutOfSubset("all of symbolic sequence")
        ts = [truthy(x) for x in items]
        if any(t is False for t in ts):
            return False
        ts = [t for t in ts if t is not True]
        if not ts:
            return True
        return Sym(z3.And(*ts) if len(ts) > 1 else ts[0])

    def bi_Exception(self, ctx, args, kwargs):
        return ExcVal('Exception', tuple(args))

    def bi_ValueError(self, ctx, args, kwargs):
        return ExcVal('ValueError', tuple(args))

    def bi_print(self, ctx, args, kwargs):
        return None

    # math ------------------------------------------------------------------------------------
    def _ufun1(self, name, v, axioms=None):
        if isinstance(v, NUM):
            e = V.num_to_z3(Fraction(v))
        else:
            e = coerce(self.num(v), z3.RealSort())
        e = coerce(e, z3.RealSort())
        f = self.I.reg.ufunc(name, z3.RealSort(), z3.RealSort())
        r = f(e)
        if axioms:
            for a in axioms(e, r, f):
                self.I.assume(a)
        return Sym(r)

    def bi_math_sqrt(self, ctx, args, kwargs):
        return self.sqrt(ctx, args[0])

    def bi_math_log(self, ctx, args, kwargs):
        v = args[0]
        if isinstance(v, NUM) and v == 1:
            return Fraction(0)
        self.I.reg.assumptions_used.add("math: log uninterpreted except log(1) = 0")
        return self._ufun1('log', v, lambda e, r, f: [f(z3.RealVal(1)) == 0])

    def bi_math_cos(self, ctx, args, kwargs):
        self.I.reg.assumptions_used.add("math: cos/sin uninterpreted except sin^2 + cos^2 = 1")
        sinf = self.I.reg.ufunc('sin', z3.RealSort(), z3.RealSort())
        return self._ufun1('cos', args[0], lambda e, r, f: [r * r + sinf(e) * sinf(e) == 1])

    def bi_math_sin(self, ctx, args, kwargs):
        self.I.reg.assumptions_used.add("math: cos/sin uninterpreted except sin^2 + cos^2 = 1")
        cosf = self.I.reg.ufunc('cos', z3.RealSort(), z3.RealSort())
        return self._ufun1('sin', args[0], lambda e, r, f: [r * r + cosf(e) * cosf(e) == 1])

    # methods on python values -----------------------------------------------------------------
    def rebind(self, ctx, f, newval):
        if f.recv_node is None:
            raise OutOfSubset("in-place mutation of a temporary")
        # mutable builtin values are modelled functionally (the name is rebound): remember which value was mutated so that a contract can state
        # that an argument is NOT modified in place (the caller still holds the old value; see Interp.mutated_in_place)
        self.I.notes.setdefault('mutated_in_place', []).append(f.recv)
        ctx.assign(f.recv_node, newval)

    def meth_append(self, ctx, recv, args, kwargs, f):
        (x,) = args
        if isinstance(recv, list):
            self.rebind(ctx, f, recv + [x])
            return None
        if isinstance(recv, SymSeq):
            xs = list(x) if recv.width is not None else [x]
            if recv.width is not None and len(xs) != recv.width:
                raise OutOfSubset("append of wrong width")
            cols = [z3.Store(c, recv.length, to_z3(xv, sort=c.range())) for c, xv in zip(recv.cols, xs)]
            self.rebind(ctx, f, SymSeq(recv.length + 1, cols, recv.width, recv.kind, recv.name))
            return None
        raise OutOfSubset("append on %r" % (recv,))

    def meth_extend(self, ctx, recv, args, kwargs, f):
        items = self.concrete_iter(ctx, args[0])
        if isinstance(recv, list) and items is not None:
            self.rebind(ctx, f, recv + list(items))
            return None
        raise OutOfSubset("extend on %r" % (recv,))

    def meth_reverse(self, ctx, recv, args, kwargs, f):
        if isinstance(recv, list):
            self.rebind(ctx, f, list(reversed(recv)))
            return None
        raise OutOfSubset("reverse on %r" % (recv,))

    def meth_copy(self, ctx, recv, args, kwargs, f):
        if isinstance(recv, (list, dict, SymSeq, RowVal)):
            return recv      # value semantics
        raise OutOfSubset("copy on %r" % (recv,))

    def meth_items(self, ctx, recv, args, kwargs, f):
        if isinstance(recv, dict):
            return [(k, v) for k, v in recv.items()]
        raise OutOfSubset("items on %r" % (recv,))

    def meth_keys(self, ctx, recv, args, kwargs, f):
        if isinstance(recv, dict):
            return list(recv.keys())
        raise OutOfSubset("keys on %r" % (recv,))

    def meth_values(self, ctx, recv, args, kwargs, f):
        if isinstance(recv, dict):
            return list(recv.values())
        raise OutOfSubset("values on %r" % (recv,))

    def meth_get(self, ctx, recv, args, kwargs, f):
        if isinstance(recv, dict) and is_concrete(args[0]):
            return recv.get(args[0], args[1] if len(args) > 1 else None)
        raise OutOfSubset("get on %r" % (recv,))

    def meth_update(self, ctx, recv, args, kwargs, f):
        if isinstance(recv, dict) and isinstance(args[0], dict):
            d = dict(recv)
            d.update(args[0])
            self.rebind(ctx, f, d)
            return None
        raise OutOfSubset("update on %r" % (recv,))

    def meth_isdisjoint(self, ctx, recv, args, kwargs, f):
        other = args[0]
        if isinstance(recv, (set, frozenset)) and isinstance(other, (set, frozenset)):
            return recv.isdisjoint(other)
        m = self.I.models.get('set.isdisjoint')
        if m:
            return m(ctx, recv, other)
        if self.is_setlike(recv) and self.is_setlike(other) and not isinstance(recv, SymSet) and not isinstance(other, SymSet):
            # finitely many (conditional) items on one side: disjoint iff none of them is a member of the other side
            a, b = (recv, other) if not isinstance(recv, (set, frozenset)) else (other, recv)
            ca = to_condset(a)
            parts = []
            for it, c in zip(ca.items, ca.conds):
                mb = cs_member(it, b)
                if c is False or mb is False:
                    continue
                if c is True and mb is True:
                    return False
                parts.append(z3.Not(z3.And(zbool(c), zbool(mb))))
            return True if not parts else Sym(z3.And(*parts))
        raise OutOfSubset("isdisjoint on symbolic sets")

    def meth_index(self, ctx, recv, args, kwargs, f):
        if isinstance(recv, (list, tuple)) and all(is_concrete(x) for x in recv) and is_concrete(args[0]):
            try:
                return list(recv).index(args[0])
            except ValueError:
                raise RaiseSig(ExcVal('ValueError'))
        m = self.I.models.get('list.index')
        if m:
            return m(ctx, recv, args[0])
        raise OutOfSubset("index on symbolic data")

    def meth_count(self, ctx, recv, args, kwargs, f):
        if isinstance(recv, (list, tuple)) and is_concrete(recv) and is_concrete(args[0]):
            return list(recv).count(args[0])
        m = self.I.models.get('list.count')
        if m:
            return m(ctx, recv, args[0])
        raise OutOfSubset("count on symbolic data")

    # strings
    def _strfun(self, name, pyf, recv, rsort=StrS):
        if isinstance(recv, str):
            return conv(pyf(recv))
        f = self.I.reg.ufunc(name, StrS, rsort)
        self.I.reg.strfun_defs[name] = pyf
        return Sym(f(recv.e))

    def meth_strip(self, ctx, recv, args, kwargs, f):
        if isinstance(recv, str) or (isinstance(recv, Sym) and recv.kind == 'str'):
            if all(isinstance(a, str) for a in args):
                a = tuple(args)
                return self._strfun('str.strip%r' % (a,), lambda s: s.strip(*a), recv)
        raise OutOfSubset("strip")

    def meth_replace(self, ctx, recv, args, kwargs, f):
        if (isinstance(recv, str) or (isinstance(recv, Sym) and recv.kind == 'str')) and all(isinstance(a, str) for a in args):
            a = tuple(args)
            return self._strfun('str.replace%r' % (a,), lambda s: s.replace(*a), recv)
        raise OutOfSubset("replace")

    def meth_ljust(self, ctx, recv, args, kwargs, f):
        if (isinstance(recv, str) or (isinstance(recv, Sym) and recv.kind == 'str')) and is_concrete(list(args)):
            a = tuple(args)
            return self._strfun('str.ljust%r' % (a,), lambda s: s.ljust(*a), recv)
        raise OutOfSubset("ljust")

    def meth_startswith(self, ctx, recv, args, kwargs, f):
        if isinstance(recv, str) and isinstance(args[0], str):
            return recv.startswith(args[0])
        if isinstance(recv, Sym) and isinstance(args[0], str):
            a = args[0]
            return self._strfun('str.startswith(%r)' % a, lambda s: s.startswith(a), recv, z3.BoolSort())
        if len(args) == 1 and all(isinstance(x, str) or (isinstance(x, Sym) and x.kind == 'str') for x in (recv, args[0])):
            # both sides symbolic: an uninterpreted relation (reflexive; not equality)
            f2 = self.I.reg.ufunc('str.startswith', StrS, StrS, z3.BoolSort())
            return Sym(f2(to_z3(recv, sort=StrS), to_z3(args[0], sort=StrS)))
        raise OutOfSubset("startswith")

    def meth_split(self, ctx, recv, args, kwargs, f):
        if isinstance(recv, str) and all(isinstance(a, str) for a in args):
            return recv.split(*args)
        m = self.I.models.get('str.split')
        if m:
            return m(ctx, recv, args)
        raise OutOfSubset("split of symbolic string")

    def meth_join(self, ctx, recv, args, kwargs, f):
        items = self.concrete_iter(ctx, args[0])
        if isinstance(recv, str) and items is not None and all(isinstance(x, str) for x in items):
            return recv.join(items)
        m = self.I.models.get('str.join')
        if m:
            return m(ctx, recv, args[0])
        raise OutOfSubset("join of symbolic strings")


def conv(v):
    from .interp import conv_const
    return conv_const(v)


def values_equal_ext(a, b):
    if isinstance(a, (CondSet,)) or isinstance(b, (CondSet,)):
        raise OutOfSubset("equality of conditional sets")
    if isinstance(a, RowVal) or isinstance(b, RowVal):
        if is_seqlike(a) and is_seqlike(b) and len(a) == len(b):
            out = []
            for x, y in zip(a, b):
                r = values_equal(x, y)
                out.append(r if isinstance(r, bool) else Sym(r))
            return RowVal(out, 'ndarray')
        if is_seqlike(a) and is_scalar(b):
            return RowVal([_w(values_equal(x, b)) for x in a], 'ndarray')
        if is_seqlike(b) and is_scalar(a):
            return RowVal([_w(values_equal(a, y)) for y in b], 'ndarray')
    return values_equal(a, b)


def _w(r):
    return r if isinstance(r, bool) else Sym(r)


class SymbolicComp(Exception):
    def __init__(self, gen_index, iterable):
        self.gen_index = gen_index
        self.iterable = iterable


class LazyIter:
    """range / enumerate over symbolic data."""

    def __init__(self, kind, args, lib=None):
        self.kind = kind
        self.args = args
        self.lib = lib

    def concrete(self):
        if self.kind == 'range' and all(isinstance(a, int) for a in self.args):
            return list(range(*self.args))
        return None

    def symbolic(self):
        if self.kind == 'range':
            lo, hi = [to_z3(a) for a in self.args]
            if z3.is_int_value(lo) and lo.as_long() == 0:
                return z3.If(hi >= 0, hi, 0), (lambda k: Sym(k))
            n = z3.If(hi - lo >= 0, hi - lo, 0)
            return n, (lambda k, lo=lo: Sym(lo + k))
        if self.kind == 'enumerate':
            inner = self.args[0]
            if isinstance(inner, SymSeq):
                return inner.length, (lambda k: (Sym(k), inner.get(k)))
            if isinstance(inner, LazyIter):
                n, el = inner.symbolic()
                return n, (lambda k: (Sym(k), el(k)))
        raise OutOfSubset("symbolic iteration over %s" % self.kind)
