"""Statement / expression evaluation of pyvc (one ExecCtx per function activation)."""
import ast
import z3
from fractions import Fraction

from .values import (Sym, SymOpt, SymSeq, SymSet, SmallSet, Ref, Opaque, Closure, Builtin, ModuleVal, ExcVal,
                     RowVal, OutOfSubset, StrS, to_z3, merge, truthy, zbool, values_equal, member, set_le,
                     is_scalar, is_concrete, sort_of_value, join_sorts, as_items, coerce)
from . import values as V
from .interp import (PathAbort, ReturnSig, BreakSig, ContinueSig, RaiseSig, LoopIterEnd, MergeFail, LoopSpec,
                     assigned_names, is_simple_block, conv_const)


class BoundMethod:
    def __init__(self, recv, name, recv_node=None):
        self.recv = recv
        self.name = name
        self.recv_node = recv_node


class StateView:
    """What loop invariants / postconditions see: variables of the current frame chain and heap fields."""

    def __init__(self, ctx):
        self.ctx = ctx
        self.I = ctx.I

    def __getitem__(self, name):
        v = self.ctx.lookup(name)
        if isinstance(v, SymSeq) and not all(z3.is_const(c) for c in v.cols):
            # give merged / updated arrays a name so that they can be used in E-matching patterns
            v = self.I.name_seq(v, name)
            self.ctx.setvar_existing(name, v)
        elif hasattr(v, 'named'):
            v2 = v.named(self.I, name)
            if v2 is not v:
                self.ctx.setvar_existing(name, v2)
                v = v2
        return v

    def field(self, ref, name):
        return self.I.state.heap[ref.oid][name]

    def has(self, name):
        try:
            self.ctx.lookup(name)
            return True
        except OutOfSubset:
            return False


def z(v):
    return to_z3(v)


def num_sort(a, b):
    return join_sorts(sort_of_value(a), sort_of_value(b))


class ExecCtx:
    def __init__(self, interp, module, speckey, qualname, chain):
        self.I = interp
        self.mod = module
        self.speckey = speckey
        self.qualname = qualname
        self.chain = chain
        self.spec = interp.funcspecs.get(speckey)

    # ------------------------------------------------------------------ variables
    def lookup(self, name):
        tab = self.I.state.frametab
        for fid in reversed(self.chain):
            f = tab.get(fid)
            if f is not None and name in f:
                return f[name]
        return self.I.global_lookup(name, self.mod)

    def setvar(self, name, value):
        self.I.state.frametab[self.chain[-1]][name] = value

    # ------------------------------------------------------------------ statements
    def exec_block(self, stmts):
        for s in stmts:
            self.exec_stmt(s)

    def exec_stmt(self, s):
        m = getattr(self, 'st_' + type(s).__name__, None)
        if m is None:
            raise OutOfSubset("statement %s at %s:%d" % (type(s).__name__, self.mod.relpath, s.lineno))
        try:
            m(s)
        except OutOfSubset as e:
            if not getattr(e, 'located', False):
                e.args = ("%s [at %s:%d]" % (e.args[0] if e.args else '', self.mod.relpath, s.lineno),)
                e.located = True
            raise

    def st_Pass(self, s):
        pass

    def st_Expr(self, s):
        if isinstance(s.value, ast.Constant):
            return  # docstring
        if isinstance(s.value, ast.Call) and isinstance(s.value.func, ast.Name) and s.value.func.id == 'print':
            return  # extraction drops print statements (DESIGN 3.2)
        self.eval(s.value)

    def st_Assign(self, s):
        v = self.eval(s.value)
        for t in s.targets:
            self.assign(t, v)

    def st_AnnAssign(self, s):
        if s.value is not None:
            self.assign(s.target, self.eval(s.value))

    def st_AugAssign(self, s):
        cur = self.eval(_load(s.target))
        rhs = self.eval(s.value)
        self.assign(s.target, self.I.lib.binop(self, type(s.op).__name__, cur, rhs, inplace=True))

    def st_Return(self, s):
        raise ReturnSig(self.eval(s.value) if s.value is not None else None)

    def st_Raise(self, s):
        if s.exc is None:
            raise OutOfSubset("bare raise")
        v = self.eval(s.exc)
        if isinstance(v, ExcVal):
            raise RaiseSig(v)
        if isinstance(v, ModuleVal) and v.name.startswith('class:'):
            raise RaiseSig(ExcVal(v.name[6:]))
        if isinstance(v, Builtin):
            raise RaiseSig(ExcVal(v.name))
        if isinstance(v, str):
            # `raise("text")` raises TypeError in Python 3 (exceptions must derive from BaseException)
            raise RaiseSig(ExcVal('TypeError'))
        raise OutOfSubset("raise of %r" % (v,))

    def st_Break(self, s):
        raise BreakSig()

    def st_Continue(self, s):
        raise ContinueSig()

    def st_Assert(self, s):
        c = self.truth(self.eval(s.test))
        if not self.I.branch(c):
            raise RaiseSig(ExcVal('AssertionError'))

    def st_FunctionDef(self, s):
        self.setvar(s.name, Closure(s, list(self.chain), self.qualname + "." + s.name, self.mod))

    def st_Delete(self, s):
        for t in s.targets:
            self.I.lib.delete_target(self, t)

    def st_Import(self, s):
        raise OutOfSubset("local import")

    def st_If(self, s):
        c = self.truth(self.eval(s.test))
        if isinstance(c, bool):
            self.exec_block(s.body if c else s.orelse)
            return
        c = z3.simplify(c)
        if z3.is_true(c) or z3.is_false(c):
            self.exec_block(s.body if z3.is_true(c) else s.orelse)
            return
        if getattr(self.I, 'allow_merge', True) and is_simple_block(s.body) and is_simple_block(s.orelse):
            if self.try_merge_if(c, s):
                return
        if self.I.branch(c):
            self.exec_block(s.body)
        else:
            self.exec_block(s.orelse)

    def try_merge_if(self, c, s):
        I = self.I
        snap_state = I.state.clone()
        snap_pc = list(I.pc)
        snap_ob = (dict(I.obligations), list(I.ob_order))
        snap_counter = I.reg.counter
        I.merge_depth += 1
        try:
            I.pc.append(c)
            self.exec_block(s.body)
            st1 = I.state
            pc1_extra = I.pc[len(snap_pc) + 1:]
            I.state = snap_state.clone()
            I.pc = list(snap_pc) + [z3.Not(c)]
            self.exec_block(s.orelse)
            st2 = I.state
            pc2_extra = I.pc[len(snap_pc) + 1:]
            merged = snap_state.clone()
            merged.next_oid = max(st1.next_oid, st2.next_oid)
            merged.next_fid = max(st1.next_fid, st2.next_fid)
            for fid in set(st1.frametab) | set(st2.frametab):
                f1, f2 = st1.frametab.get(fid, {}), st2.frametab.get(fid, {})
                out = {}
                for k in set(f1) | set(f2):
                    if k in f1 and k in f2:
                        out[k] = f1[k] if f1[k] is f2[k] else merge(c, f1[k], f2[k])
                    else:
                        # bound on one side only: usable only on paths where that side ran; keep (reads on the
                        # other side would be a NameError in Python as well)
                        out[k] = f1.get(k, f2.get(k))
                merged.frametab[fid] = out
            for oid in set(st1.heap) | set(st2.heap):
                h1, h2 = st1.heap.get(oid), st2.heap.get(oid)
                if h1 is None or h2 is None:
                    raise OutOfSubset("allocation inside merged branch")
                out = {}
                for k in set(h1) | set(h2):
                    if k in h1 and k in h2:
                        out[k] = h1[k] if h1[k] is h2[k] else merge(c, h1[k], h2[k])
                    else:
                        raise OutOfSubset("field bound on one side of a merged branch")
                merged.heap[oid] = out
            I.state = merged
            I.pc = list(snap_pc) + [z3.Implies(c, x) for x in pc1_extra] + [z3.Implies(z3.Not(c), x) for x in pc2_extra]
            return True
        except (MergeFail, OutOfSubset):
            I.state = snap_state
            I.pc = snap_pc
            I.obligations, I.ob_order = snap_ob
            I.reg.counter = snap_counter
            return False
        finally:
            I.merge_depth -= 1

    def st_While(self, s):
        raise OutOfSubset("while loop")

    def st_With(self, s):
        # `with use_or_open(fd, path) as fh:` -- the handle is an opaque value
        for item in s.items:
            v = self.eval(item.context_expr)
            if item.optional_vars is not None:
                self.assign(item.optional_vars, v)
        self.exec_block(s.body)

    def st_Try(self, s):
        if s.finalbody or s.orelse:
            raise OutOfSubset("try/finally/else")
        try:
            self.exec_block(s.body)
        except RaiseSig as r:
            for h in s.handlers:
                if h.type is None or self.exc_matches(r.exc, h.type):
                    if h.name:
                        self.setvar(h.name, r.exc)
                    self.exec_block(h.body)
                    return
            raise

    def exc_matches(self, exc, tnode):
        name = ast.unparse(tnode)
        if name in ('Exception', 'BaseException'):
            return True
        return exc.cls == name

    def st_For(self, s):
        if s.orelse:
            raise OutOfSubset("for/else")
        it = self.eval(s.iter)
        items = self.I.lib.concrete_iter(self, it)
        fp = "%s in %s" % (ast.unparse(s.target), ast.unparse(s.iter))
        ls = self.spec.loops.get(fp) if self.spec else None
        if items is not None and ls is not None and ls.cut_concrete:
            if self.cut_concrete_loop(s, items, fp, ls):
                return
        if items is not None:
            for x in items:
                self.assign(s.target, x)
                try:
                    self.exec_block(s.body)
                except BreakSig:
                    break
                except ContinueSig:
                    continue
            return
        self.cut_loop(s, it, fp)

    def cut_loop(self, s, it, fp):
        I = self.I
        ls = self.spec.loops.get(fp) if self.spec else None
        if ls is None:
            raise OutOfSubset("no loop contract for `%s` in %s (contract no longer applies)" % (fp, self.speckey))
        self.spec.seen_loops.add(fp)
        length, elem = I.lib.symbolic_iter(self, it)
        view = StateView(self)
        tag = "%s/loop[%s]" % (self.speckey, fp)
        # variables the body may modify
        names, attrs = assigned_names(s.body)
        tnames, _ = assigned_names([ast.Assign(targets=[s.target], value=ast.Constant(0))])
        names = (names - tnames) | set(ls.extra_modifies)
        # 1. invariant on entry: convert growing concrete lists first so that invariants can talk about them
        for n, et in ls.havoc_types.items():
            cur = self.lookup(n)
            if isinstance(cur, (list, tuple)) and not isinstance(cur, RowVal):
                self.setvar_existing(n, I.lib.seq_from_concrete(self, cur, et, n))
        for n, conv in ls.convert.items():
            self.setvar_existing(n, conv(I, self.lookup(n)))
        self.emit_inv(ls, view, z3.IntVal(0), tag + "/inv-entry", 'loop-entry')
        choice = I.choose(2)
        kept = []
        # 2. havoc
        for n in sorted(names):
            try:
                cur = self.lookup(n)
            except OutOfSubset:
                continue    # first bound inside the loop
            if isinstance(cur, (Closure, Builtin, ModuleVal)):
                continue
            saved = {}
            if isinstance(cur, Ref) and n in ls.keep_attrs:
                saved = {a: I.state.heap[cur.oid].get(a) for a in ls.keep_attrs[n]}
            self.setvar_existing(n, I.fresh_like(cur, n + "'", None))
            if saved:
                I.state.heap[cur.oid].update(saved)
                kept.append((n, cur, saved))
        for (root, attr) in sorted(attrs):
            try:
                r = self.lookup(root)
            except OutOfSubset:
                continue
            if isinstance(r, Ref):
                cur = I.state.heap[r.oid].get(attr)
                I.state.heap[r.oid][attr] = I.fresh_like(cur, "%s.%s'" % (root, attr))
        k = I.fresh_int("k")
        if choice == 0:
            I.assume(k >= 0)
            I.assume(k < length)
            self.assume_inv(ls, view, k)
            self.assign(s.target, elem(k))
            self.loop_k = k
            I.notes['loop_k'] = k
            I.notes['loop_fp'] = fp
            try:
                self.exec_block(s.body)
            except ContinueSig:
                pass
            except BreakSig:
                # leaving the loop early: execution continues after the loop with the current state; what is known is the
                # invariant at the start of this iteration plus the effects of the partial body
                self.loop_break_k = k
                return
            for n, ref, saved in kept:
                for a, v0 in saved.items():
                    I.oblige("%s/frame/%s.%s-not-modified-by-the-body" % (tag, n, a), z3.BoolVal(I.state.heap[ref.oid].get(a) is v0), 'loop-frame')
            self.emit_inv(ls, view, k + 1, tag + "/inv-preserved", 'loop-preserve')
            raise LoopIterEnd()
        else:
            I.assume(k == length)
            self.assume_inv(ls, view, length)

    def cut_concrete_loop(self, s, items, fp, ls):
        """Loop over a constant table, cut at an invariant indexed by the concrete position: one obligation per row
        (the per-row split of DESIGN 3.3).  Returns False if the contract does not apply (caller unrolls)."""
        I = self.I
        view = StateView(self)
        tag = "%s/loop[%s]" % (self.speckey, fp)
        try:
            ls.inv(view, 0)
        except (OutOfSubset, KeyError, AttributeError, TypeError):
            self.spec.fallback_unrolled = getattr(self.spec, 'fallback_unrolled', set()) | {fp}
            return False
        self.spec.seen_loops.add(fp)
        n = len(items)
        names, attrs = assigned_names(s.body)
        tnames, _ = assigned_names([ast.Assign(targets=[s.target], value=ast.Constant(0))])
        names = (names - tnames) | set(ls.extra_modifies)
        self.emit_inv(ls, view, 0, tag + "/inv-entry", 'loop-entry')
        choice = I.choose(n + 1)
        for nm in sorted(names):
            try:
                cur = self.lookup(nm)
            except OutOfSubset:
                continue
            like = ls.havoc_like.get(nm, cur) if ls.havoc_like else cur
            self.setvar_existing(nm, I.fresh_like(like, nm + "'", None))
        if attrs:
            raise OutOfSubset("attribute mutation in a table loop")
        if choice < n:
            self.assume_inv(ls, view, choice)
            self.assign(s.target, items[choice])
            try:
                self.exec_block(s.body)
            except ContinueSig:
                pass
            except BreakSig:
                raise OutOfSubset("break in an invariant-cut loop")
            self.emit_inv(ls, view, choice + 1, tag + "/inv-preserved[%d]" % choice, 'loop-preserve')
            raise LoopIterEnd()
        self.assume_inv(ls, view, n)
        return True

    def setvar_existing(self, name, value):
        tab = self.I.state.frametab
        for fid in reversed(self.chain):
            if name in tab.get(fid, {}):
                tab[fid][name] = value
                return
        self.setvar(name, value)

    def emit_inv(self, ls, view, k, name, kind):
        inv = ls.inv(view, k) if ls.inv else []
        if not isinstance(inv, (list, tuple)):
            inv = [('inv', inv)]
        for label, f in inv:
            self.I.oblige("%s/%s" % (name, label), f, kind)

    def assume_inv(self, ls, view, k):
        inv = ls.inv(view, k) if ls.inv else []
        if not isinstance(inv, (list, tuple)):
            inv = [('inv', inv)]
        for label, f in inv:
            self.I.assume(f)

    # ------------------------------------------------------------------ assignment
    def assign(self, t, v):
        if isinstance(t, ast.Name):
            self.setvar(t.id, v)
        elif isinstance(t, (ast.Tuple, ast.List)):
            items = self.I.lib.unpack(self, v, len(t.elts), t)
            for e, x in zip(t.elts, items):
                self.assign(e, x)
        elif isinstance(t, ast.Attribute):
            obj = self.eval(t.value)
            self.I.lib.setattr(self, obj, t.attr, v)
        elif isinstance(t, ast.Subscript):
            cont = self.eval(t.value)
            newc = self.I.lib.setitem(self, cont, t.slice, v)
            if newc is not None:
                self.I.notes.setdefault('mutated_in_place', []).append(cont)
                self.assign(t.value, newc)
        else:
            raise OutOfSubset("assignment target %s" % type(t).__name__)

    # ------------------------------------------------------------------ expressions
    def truth(self, v):
        return truthy(v)

    def eval(self, e):
        m = getattr(self, 'ev_' + type(e).__name__, None)
        if m is None:
            raise OutOfSubset("expression %s" % type(e).__name__)
        return m(e)

    def ev_Constant(self, e):
        return conv_const(e.value)

    def ev_Name(self, e):
        return self.lookup(e.id)

    def ev_Tuple(self, e):
        m = self.I.models.get('tuple.opaque-star')
        if m is not None and any(isinstance(x, ast.Starred) for x in e.elts):
            parts = [('star', self.eval(x.value)) if isinstance(x, ast.Starred) else ('item', self.eval(x)) for x in e.elts]
            if any(k == 'star' and isinstance(v, Opaque) for k, v in parts):
                return m(self, parts)
            out = []
            for k, v in parts:
                if k == 'star':
                    items = self.I.lib.concrete_iter(self, v)
                    if items is None:
                        raise OutOfSubset("star-unpacking a symbolic-length value")
                    out.extend(items)
                else:
                    out.append(v)
            return tuple(out)
        return tuple(self.eval_elts(e.elts))

    def ev_List(self, e):
        return list(self.eval_elts(e.elts))

    def eval_elts(self, elts):
        out = []
        for x in elts:
            if isinstance(x, ast.Starred):
                v = self.eval(x.value)
                items = self.I.lib.concrete_iter(self, v)
                if items is None:
                    raise OutOfSubset("star-unpacking a symbolic-length value")
                out.extend(items)
            else:
                out.append(self.eval(x))
        return out

    def ev_Set(self, e):
        items = self.eval_elts(e.elts)
        if all(is_concrete(x) for x in items):
            return frozenset(items)
        return SmallSet(items)

    def ev_Dict(self, e):
        d = {}
        for k, v in zip(e.keys, e.values):
            kk = self.eval(k)
            if not is_concrete(kk):
                raise OutOfSubset("dict display with symbolic key")
            d[kk] = self.eval(v)
        return d

    def ev_IfExp(self, e):
        c = self.truth(self.eval(e.test))
        if isinstance(c, bool):
            return self.eval(e.body if c else e.orelse)
        c = z3.simplify(c)
        if z3.is_true(c):
            return self.eval(e.body)
        if z3.is_false(c):
            return self.eval(e.orelse)
        # evaluate both sides under their guards and merge
        I = self.I
        I.merge_depth += 1
        n0 = len(I.pc)
        try:
            try:
                I.pc.append(c)
                a = self.eval(e.body)
                extra_a = I.pc[n0 + 1:]
                del I.pc[n0:]
                I.pc.append(z3.Not(c))
                b = self.eval(e.orelse)
                extra_b = I.pc[n0 + 1:]
                del I.pc[n0:]
                r = merge(c, a, b)
                I.pc.extend([z3.Implies(c, x) for x in extra_a] + [z3.Implies(z3.Not(c), x) for x in extra_b])
                return r
            finally:
                I.merge_depth -= 1
        except (MergeFail, OutOfSubset):
            del I.pc[n0:]
        if I.branch(c):
            return self.eval(e.body)
        return self.eval(e.orelse)

    def ev_BoolOp(self, e):
        # a and b / a or b return operands (python semantics)
        is_and = isinstance(e.op, ast.And)
        vals = e.values
        cur = self.eval(vals[0])
        for nxt in vals[1:]:
            t = self.truth(cur)
            if isinstance(t, bool):
                if t == is_and:
                    cur = self.eval(nxt)
                else:
                    return cur
                continue
            t = z3.simplify(t)
            if z3.is_true(t) or z3.is_false(t):
                if z3.is_true(t) == is_and:
                    cur = self.eval(nxt)
                    continue
                return cur
            # symbolic: evaluate the rest under the guard, merge
            I = self.I
            guard = t if is_and else z3.Not(t)
            n0 = len(I.pc)
            I.merge_depth += 1
            try:
                try:
                    I.pc.append(guard)
                    rest = self.eval(nxt)
                    extra = I.pc[n0 + 1:]
                    del I.pc[n0:]
                    I.pc.extend([z3.Implies(guard, x) for x in extra])
                finally:
                    I.merge_depth -= 1
                # result: and -> (rest if t else cur); or -> (cur if t else rest)
                try:
                    if self._boolish(cur) and self._boolish(rest):
                        tc, tr = zbool(self.truth(cur)), zbool(self.truth(rest))
                        cur = Sym(z3.And(tc, tr) if is_and else z3.Or(tc, tr))
                    else:
                        cur = merge(t, rest, cur) if is_and else merge(t, cur, rest)
                    continue
                except OutOfSubset:
                    pass
            except MergeFail:
                del I.pc[n0:]
            if I.branch(t) == is_and:
                cur = self.eval(nxt)
            else:
                return cur
        return cur

    @staticmethod
    def _boolish(v):
        return isinstance(v, bool) or (isinstance(v, Sym) and v.kind == 'bool')

    def ev_UnaryOp(self, e):
        v = self.eval(e.operand)
        return self.I.lib.unop(self, type(e.op).__name__, v)

    def ev_BinOp(self, e):
        a = self.eval(e.left)
        b = self.eval(e.right)
        return self.I.lib.binop(self, type(e.op).__name__, a, b)

    def ev_Compare(self, e):
        left = self.eval(e.left)
        parts = []
        for op, rn in zip(e.ops, e.comparators):
            right = self.eval(rn)
            parts.append(self.I.lib.compare(self, type(op).__name__, left, right))
            left = right
        if len(parts) == 1:
            r = parts[0]
        else:
            if any(p is False for p in parts):
                return False
            ps = [zbool(p) for p in parts if p is not True]
            if not ps:
                return True
            r = z3.And(*ps)
        if isinstance(r, bool):
            return r
        if isinstance(r, Sym) or not z3.is_expr(r):
            return r
        return Sym(r)

    def ev_Attribute(self, e):
        obj = self.eval(e.value)
        return self.I.lib.getattr(self, obj, e.attr, e)

    def ev_Subscript(self, e):
        cont = self.eval(e.value)
        return self.I.lib.getitem(self, cont, e.slice)

    def ev_Lambda(self, e):
        fn = ast.FunctionDef(name='<lambda>', args=e.args, body=[ast.Return(value=e.body, lineno=e.lineno, col_offset=0)],
                             decorator_list=[], lineno=e.lineno, col_offset=0)
        return Closure(fn, list(self.chain), self.qualname + ".<lambda>", self.mod)

    def ev_Starred(self, e):
        raise OutOfSubset("starred expression outside call/display")

    def ev_JoinedStr(self, e):
        raise OutOfSubset("f-string")

    def ev_ListComp(self, e):
        return self.I.lib.comprehension(self, e, 'list')

    def ev_GeneratorExp(self, e):
        return self.I.lib.comprehension(self, e, 'list')

    def ev_SetComp(self, e):
        r = self.I.lib.comprehension(self, e, 'list')
        if isinstance(r, list):
            if all(is_concrete(x) for x in r):
                return frozenset(r)
            return SmallSet(r)
        raise OutOfSubset("set comprehension over symbolic sequence")

    def ev_DictComp(self, e):
        return self.I.lib.dict_comprehension(self, e)

    def ev_Call(self, e):
        I = self.I
        if isinstance(e.func, ast.Attribute):
            obj = self.eval(e.func.value)
            f = I.lib.getattr(self, obj, e.func.attr, e.func, for_call=True)
        else:
            f = self.eval(e.func)
        args = []
        for a in e.args:
            if isinstance(a, ast.Starred):
                v = self.eval(a.value)
                items = I.lib.concrete_iter(self, v)
                if items is None:
                    if isinstance(v, SymSeq):
                        from .models_py import StarArg
                        args.append(StarArg(v))
                        continue
                    raise OutOfSubset("star-args of symbolic length")
                args.extend(items)
            else:
                args.append(self.eval(a))
        kwargs = {}
        for kw in e.keywords:
            if kw.arg is None:
                d = self.eval(kw.value)
                if not isinstance(d, dict):
                    raise OutOfSubset("**kwargs of non-dict")
                kwargs.update(d)
            else:
                kwargs[kw.arg] = self.eval(kw.value)
        self.current_call = e
        return I.lib.call(self, f, args, kwargs, e)


def _load(t):
    import copy
    t2 = copy.deepcopy(t)
    for n in ast.walk(t2):
        if hasattr(n, 'ctx'):
            n.ctx = ast.Load()
    return t2
