"""Symbolic value model of pyvc.

Concrete Python values (int, bool, str, None, Fraction, tuple/list/dict/set of values) stay concrete and are
computed with Python's own semantics.  Python floats never appear: float literals become exact Fractions
(assumption A2: machine arithmetic treated as mathematical).  Symbolic values wrap z3 terms.
"""
import z3
from fractions import Fraction

StrS = z3.DeclareSort('Str')


class OutOfSubset(Exception):
    """The code uses something the engine does not model: the run is UNDECIDED, never a violation."""


import hashlib
import re as _re


def safe_name(s):
    return _re.sub(r'[^A-Za-z0-9_.]', '_', str(s)).replace("'", "_h")


def _h(s):
    return hashlib.md5(str(s).encode()).hexdigest()[:6]


class Registry:
    """Per-run bookkeeping of string literals / uninterpreted functions (one per verification run)."""

    def __init__(self):
        self.strlits = {}     # python str -> z3 const
        self.pyints = {}      # python int embedded in Str sort (mixed-type merges) -> z3 const
        self.ufuncs = {}      # name -> z3 FuncDecl
        self.strfun_defs = {}  # name -> python callable on concrete str (for literal facts)
        self.counter = 0
        self.assumptions_used = set()

    def fresh(self, base):
        self.counter += 1
        return "%s_%d" % (safe_name(base), self.counter)

    def strlit(self, s):
        if s not in self.strlits:
            self.strlits[s] = z3.Const('lit_%s_%s' % (safe_name(s), _h(s)), StrS)
        return self.strlits[s]

    def pyint_as_str(self, n):
        if n not in self.pyints:
            self.pyints[n] = z3.Const('pyint_%s' % str(n).replace('-', 'm'), StrS)
        return self.pyints[n]

    def ufunc(self, name, *sorts):
        if name not in self.ufuncs:
            sn = safe_name(name)
            if sn != name:
                sn = sn + "_" + _h(name)
            sn = "u_" + sn          # never clash with SMT-LIB builtins (sin, cos, sqrt, str.len, ...)
            self.ufuncs[name] = z3.Function(sn, *sorts)
        return self.ufuncs[name]

    def literal_axioms(self):
        """Distinctness of literals and the values of modelled string functions on literals."""
        ax = []
        consts = list(self.strlits.values()) + list(self.pyints.values())
        if len(consts) > 1:
            ax.append(z3.Distinct(*consts))
        for name, pyf in self.strfun_defs.items():
            f = self.ufuncs.get(name)
            if f is None:
                continue
            for s, c in list(self.strlits.items()):
                try:
                    v = pyf(s)
                except Exception:
                    continue
                ax.append(f(c) == to_z3(v, self, f.range()))
        return ax


REG = Registry()


def reset_registry():
    global REG
    REG = Registry()
    return REG


class Sym:
    """A symbolic scalar: z3 term of sort Int, Real, Bool or Str."""
    __slots__ = ('e',)

    def __init__(self, e):
        self.e = e

    def __repr__(self):
        return "Sym(%s)" % (self.e,)

    @property
    def kind(self):
        s = self.e.sort()
        if s == z3.IntSort():
            return 'int'
        if s == z3.RealSort():
            return 'real'
        if s == z3.BoolSort():
            return 'bool'
        if s == StrS:
            return 'str'
        return str(s)


class SymOpt:
    """Optional value: None when is_none holds, else val (a Sym)."""
    __slots__ = ('is_none', 'val')

    def __init__(self, is_none, val):
        self.is_none = is_none
        self.val = val

    def __repr__(self):
        return "SymOpt(%s, %s)" % (self.is_none, self.val)


class SymSeq:
    """Sequence of symbolic length.  Elements are scalars (one column) or fixed-width tuples / rows
    (several columns, struct-of-arrays).  cols: list of z3 arrays Int -> sort.  width None = scalar elements."""

    def __init__(self, length, cols, width=None, kind='list', name=None):
        self.length = length
        self.cols = cols
        self.width = width
        self.kind = kind      # 'list' | 'ndarray'
        self.name = name

    def __repr__(self):
        return "SymSeq(%s,len=%s,w=%s)" % (self.name, self.length, self.width)

    def elem_sort(self, c=0):
        return self.cols[c].range()

    shape = None     # optional structure of one element (see shape_of / unflatten): nested tuples / lists / dicts of scalars

    def get(self, i):
        """i: z3 Int term.  Returns Sym, a row (python list of Syms) or a structured value rebuilt from the columns."""
        if self.shape is not None:
            it = iter([z3.Select(c, i) for c in self.cols])
            return unflatten(self.shape, it)
        if self.width is None:
            return Sym(z3.Select(self.cols[0], i))
        return RowVal([Sym(z3.Select(c, i)) for c in self.cols], self.kind)


class SeqSlice(SymSeq):
    """seq[lo:] of a symbolic sequence for 0 <= lo (the obligation is raised where the slice is taken): element j is base[lo + j].
    Columns are lambda arrays; `get` reads the base directly so that terms keep the base arrays' names."""

    def __init__(self, base, lo):
        j = z3.Int('slice_j')
        n = z3.If(base.length - lo >= 0, base.length - lo, z3.IntVal(0))
        SymSeq.__init__(self, n, [z3.Lambda([j], z3.Select(c, j + lo)) for c in base.cols], base.width, base.kind, (base.name or 'seq') + '[lo:]')
        self.base, self.lo = base, lo
        self.shape = base.shape

    def get(self, i):
        return self.base.get(i + self.lo)


class NestedSeq(SymSeq):
    """Sequence (symbolic length) of sequences that all have the same symbolic length `inner_len`: element i is the sequence whose
    columns are the arrays Select(col, i).  cols: z3 arrays Int -> (Array Int -> T)."""

    def __init__(self, length, cols, inner_len, inner_width=None, inner_kind='tuple', name=None):
        SymSeq.__init__(self, length, cols, None, 'list', name)
        self.inner_len, self.inner_width, self.inner_kind = inner_len, inner_width, inner_kind

    def get(self, i):
        return SymSeq(self.inner_len, [z3.Select(c, i) for c in self.cols], self.inner_width, self.inner_kind, "%s[%s]" % (self.name or 'rows', i))


def shape_of(v):
    """Structure of a value made of scalars: ('s', sort) | ('o', sort) | ('t'|'l'|'r', [shapes]) | ('d', [(key, shape)])."""
    if isinstance(v, Opaque):
        return ('o', v.term.sort())
    if is_scalar(v):
        return ('s', sort_of_value(v))
    if isinstance(v, RowVal):
        return ('r', [shape_of(x) for x in v])
    if isinstance(v, tuple):
        return ('t', [shape_of(x) for x in v])
    if isinstance(v, list):
        return ('l', [shape_of(x) for x in v])
    if isinstance(v, dict):
        return ('d', [(k, shape_of(x)) for k, x in v.items()])
    raise OutOfSubset("no element shape for %r" % (v,))


def flatten(v, shape):
    k = shape[0]
    if k == 's':
        return [to_z3(v, sort=shape[1])]
    if k == 'o':
        return [v.term]
    if k in ('t', 'l', 'r'):
        out = []
        for x, sh in zip(v, shape[1]):
            out += flatten(x, sh)
        return out
    if k == 'd':
        out = []
        for key, sh in shape[1]:
            out += flatten(v[key], sh)
        return out
    raise OutOfSubset("shape %r" % (shape,))


def shape_sorts(shape):
    k = shape[0]
    if k in ('s', 'o'):
        return [shape[1]]
    if k in ('t', 'l', 'r'):
        return [s for sh in shape[1] for s in shape_sorts(sh)]
    return [s for _, sh in shape[1] for s in shape_sorts(sh)]


def unflatten(shape, it):
    k = shape[0]
    if k == 's':
        return Sym(next(it))
    if k == 'o':
        return Opaque(next(it))
    if k == 't':
        return tuple(unflatten(sh, it) for sh in shape[1])
    if k == 'l':
        return [unflatten(sh, it) for sh in shape[1]]
    if k == 'r':
        return RowVal([unflatten(sh, it) for sh in shape[1]])
    if k == 'd':
        return {key: unflatten(sh, it) for key, sh in shape[1]}
    raise OutOfSubset("shape %r" % (shape,))


class RowVal(list):
    """Fixed-width row of a 2-D array (a python list of values) remembering it came from an ndarray."""

    def __init__(self, items, kind='ndarray'):
        super().__init__(items)
        self.kind = kind


class SymSet:
    """Set given by a characteristic predicate (python callable from z3 term to z3 Bool)."""

    def __init__(self, pred, sort=None, name=None):
        self.pred = pred
        self.sort = sort if sort is not None else z3.IntSort()
        self.name = name

    def contains(self, x):
        return self.pred(x)


class SmallSet:
    """A set display / small set of known syntactic size whose members may be symbolic."""

    def __init__(self, items):
        self.items = list(items)

    def __repr__(self):
        return "SmallSet(%r)" % (self.items,)


class Ref:
    """Reference to a heap object."""
    __slots__ = ('oid', 'cls')

    def __init__(self, oid, cls='Atoms'):
        self.oid = oid
        self.cls = cls

    def __repr__(self):
        return "Ref(%s#%d)" % (self.cls, self.oid)


class Opaque:
    """An uninterpreted object value (e.g. a scipy Rotation, a file handle, a call-trace term)."""

    def __init__(self, term, tag=None):
        self.term = term
        self.tag = tag

    def __repr__(self):
        return "Opaque(%s)" % (self.term,)


class Closure:
    def __init__(self, node, env_frames, qualname, module=None):
        self.node = node
        self.frames = env_frames
        self.qualname = qualname
        self.module = module


class Builtin:
    def __init__(self, name, fn):
        self.name = name
        self.fn = fn

    def __repr__(self):
        return "Builtin(%s)" % self.name


class ModuleVal:
    def __init__(self, name, attrs=None):
        self.name = name
        self.attrs = attrs or {}

    def __repr__(self):
        return "Module(%s)" % self.name


class ExcVal:
    def __init__(self, cls, args=()):
        self.cls = cls
        self.args = args

    def __repr__(self):
        return "Exc(%s)" % self.cls


# ------------------------------------------------------------------------------------------------
# conversions

def is_sym(v):
    return isinstance(v, (Sym, SymOpt))


def num_to_z3(v):
    if isinstance(v, bool):
        return z3.IntVal(1 if v else 0)
    if isinstance(v, int):
        return z3.IntVal(v)
    if isinstance(v, Fraction):
        return z3.RealVal(str(v.numerator) + "/" + str(v.denominator)) if v.denominator != 1 \
            else z3.RealVal(v.numerator)
    raise OutOfSubset("not a number: %r" % (v,))


def to_z3(v, reg=None, sort=None):
    """Concrete or symbolic scalar -> z3 term (optionally coerced to sort)."""
    reg = reg or REG
    if isinstance(v, Sym):
        e = v.e
    elif isinstance(v, bool):
        e = z3.BoolVal(v)
    elif isinstance(v, int):
        e = z3.IntVal(v)
    elif isinstance(v, Fraction):
        e = num_to_z3(v)
    elif isinstance(v, str):
        e = reg.strlit(v)
    elif z3.is_expr(v):
        e = v
    elif isinstance(v, Opaque):
        e = v.term
    else:
        raise OutOfSubset("cannot convert %r to a z3 term" % (v,))
    if sort is not None and e.sort() != sort:
        e = coerce(e, sort, reg)
    return e


def coerce(e, sort, reg=None):
    reg = reg or REG
    s = e.sort()
    if s == sort:
        return e
    if s == z3.IntSort() and sort == z3.RealSort():
        return z3.ToReal(e)
    if s == z3.BoolSort() and sort == z3.IntSort():
        return z3.If(e, z3.IntVal(1), z3.IntVal(0))
    if s == z3.BoolSort() and sort == z3.RealSort():
        return z3.If(e, z3.RealVal(1), z3.RealVal(0))
    if s == z3.IntSort() and sort == StrS and z3.is_int_value(e):
        return reg.pyint_as_str(e.as_long())
    raise OutOfSubset("cannot coerce %s : %s to %s" % (e, s, sort))


def sort_of_value(v):
    if isinstance(v, Sym):
        return v.e.sort()
    if isinstance(v, bool):
        return z3.BoolSort()
    if isinstance(v, int):
        return z3.IntSort()
    if isinstance(v, Fraction):
        return z3.RealSort()
    if isinstance(v, str):
        return StrS
    return None


def is_scalar(v):
    return isinstance(v, (Sym, bool, int, Fraction, str))


def is_concrete(v):
    if isinstance(v, (bool, int, Fraction, str)) or v is None:
        return True
    if isinstance(v, (tuple, list)):
        return all(is_concrete(x) for x in v)
    if isinstance(v, (set, frozenset)):
        return True
    if isinstance(v, dict):
        return all(is_concrete(x) for x in v.values())
    return False


def join_sorts(a, b):
    if a == b:
        return a
    nums = (z3.IntSort(), z3.RealSort(), z3.BoolSort())
    if a in nums and b in nums:
        if z3.RealSort() in (a, b):
            return z3.RealSort()
        return z3.IntSort()
    if StrS in (a, b):
        return StrS       # ints embedded as distinguished Str constants (equality only)
    raise OutOfSubset("no common sort for %s and %s" % (a, b))


def merge(cond, a, b):
    """Value of `a if cond else b` for a z3 Bool cond."""
    if a is b:
        return a
    if is_concrete(a) and is_concrete(b) and type(a) == type(b) and a == b:
        return a
    if a is None or b is None or isinstance(a, SymOpt) or isinstance(b, SymOpt):
        def parts(v):
            if v is None:
                return z3.BoolVal(True), None
            if isinstance(v, SymOpt):
                return v.is_none, v.val
            return z3.BoolVal(False), v
        na, va = parts(a)
        nb, vb = parts(b)
        if va is None and vb is None:
            return None
        if va is None:
            va = vb
        if vb is None:
            vb = va
        if not (is_scalar(va) and is_scalar(vb)):
            raise OutOfSubset("cannot merge optional non-scalars %r / %r" % (a, b))
        isn = z3.simplify(z3.If(cond, na, nb))
        mv = merge(cond, va, vb)
        if z3.is_false(isn):
            return mv
        return SymOpt(isn, mv)
    if is_scalar(a) and is_scalar(b):
        s = join_sorts(sort_of_value(a), sort_of_value(b))
        return Sym(z3.If(cond, to_z3(a, sort=s), to_z3(b, sort=s)))
    if isinstance(a, (list, tuple)) and isinstance(b, (list, tuple)) and type(a) == type(b) and len(a) == len(b):
        items = [merge(cond, x, y) for x, y in zip(a, b)]
        if isinstance(a, RowVal):
            return RowVal(items, a.kind)
        return type(a)(items)
    if isinstance(a, SymSeq) and isinstance(b, SymSeq) and a.width == b.width and len(a.cols) == len(b.cols):
        return SymSeq(z3.If(cond, a.length, b.length),
                      [z3.If(cond, x, y) for x, y in zip(a.cols, b.cols)], a.width, a.kind, a.name)
    if type(a).__name__ == 'SymDictOfLists' and type(b).__name__ == 'SymDictOfLists':
        return type(a)(z3.If(cond, a.dom, b.dom), z3.If(cond, a.cnt, b.cnt), z3.If(cond, a.item, b.item), a.ksort, a.esort)
    if isinstance(a, Opaque) and isinstance(b, Opaque) and a.term.sort() == b.term.sort():
        return Opaque(z3.If(cond, a.term, b.term), a.tag)
    raise OutOfSubset("cannot merge %r and %r" % (a, b))


def truthy(v):
    """Python truthiness as python bool (concrete) or z3 Bool."""
    if v is None:
        return False
    if isinstance(v, Sym):
        k = v.kind
        if k == 'bool':
            return v.e
        if k == 'int':
            return v.e != 0
        if k == 'real':
            return v.e != 0
        if k == 'str':
            return v.e != REG.strlit('')          # a string is true iff it is not empty
        raise OutOfSubset("truthiness of symbolic %s" % k)
    if isinstance(v, SymOpt):
        t = truthy(v.val)
        t = z3.BoolVal(t) if isinstance(t, bool) else t
        return z3.And(z3.Not(v.is_none), t)
    if isinstance(v, SymSeq):
        return v.length > 0
    if isinstance(v, SmallSet):
        return len(v.items) > 0
    if isinstance(v, (Ref, Opaque, Closure, Builtin)):
        return True
    if isinstance(v, (bool, int, Fraction, str, tuple, list, dict, set, frozenset)):
        return bool(v)
    raise OutOfSubset("truthiness of %r" % (v,))


def zbool(b):
    return z3.BoolVal(b) if isinstance(b, bool) else b


def values_equal(a, b):
    """Python == as python bool or z3 Bool."""
    if a is None or b is None:
        if a is None and b is None:
            return True
        o = b if a is None else a
        if isinstance(o, SymOpt):
            return o.is_none
        return False
    if isinstance(a, SymOpt) or isinstance(b, SymOpt):
        if not isinstance(a, SymOpt):
            a, b = b, a
        if isinstance(b, SymOpt):
            return z3.Or(z3.And(a.is_none, b.is_none),
                         z3.And(z3.Not(a.is_none), z3.Not(b.is_none), zbool(values_equal(a.val, b.val))))
        return z3.And(z3.Not(a.is_none), zbool(values_equal(a.val, b)))
    if is_scalar(a) and is_scalar(b):
        if not isinstance(a, Sym) and not isinstance(b, Sym):
            if isinstance(a, str) != isinstance(b, str):
                return False
            return a == b
        sa, sb = sort_of_value(a), sort_of_value(b)
        if (sa == StrS) != (sb == StrS):
            if isinstance(a, Sym) and isinstance(b, Sym):
                return False
            # a concrete int compared with a symbolic Str (or vice versa): possible only through embedded ints
            s = StrS
            return to_z3(a, sort=s) == to_z3(b, sort=s)
        s = join_sorts(sa, sb)
        return to_z3(a, sort=s) == to_z3(b, sort=s)
    if isinstance(a, (list, tuple)) and isinstance(b, (list, tuple)):
        if isinstance(a, tuple) != isinstance(b, tuple) and not (isinstance(a, RowVal) or isinstance(b, RowVal)):
            return False
        if len(a) != len(b):
            return False
        parts = [values_equal(x, y) for x, y in zip(a, b)]
        if any(p is False for p in parts):
            return False
        parts = [p for p in parts if p is not True]
        if not parts:
            return True
        return z3.And(*parts) if len(parts) > 1 else parts[0]
    if isinstance(a, SmallSet) or isinstance(b, SmallSet):
        return z3.And(zbool(set_le(a, b)), zbool(set_le(b, a)))
    if isinstance(a, Opaque) and isinstance(b, Opaque):
        return a.term == b.term
    if is_concrete(a) and is_concrete(b):
        return a == b
    raise OutOfSubset("== between %r and %r" % (a, b))


def as_items(s):
    if isinstance(s, SmallSet):
        return s.items
    if isinstance(s, (set, frozenset)):
        return sorted(s, key=repr)
    if isinstance(s, (list, tuple)):
        return list(s)
    raise OutOfSubset("not a small set: %r" % (s,))


def member(x, s):
    """x in s for small sets / python containers / SymSet / SymSeq handled by the caller for SymSeq."""
    if isinstance(s, SymSet):
        return s.contains(to_z3(x))
    items = as_items(s)
    parts = [values_equal(x, y) for y in items]
    if any(p is True for p in parts):
        return True
    parts = [p for p in parts if p is not False]
    if not parts:
        return False
    return z3.Or(*parts) if len(parts) > 1 else parts[0]


def set_le(a, b):
    parts = [member(x, b) for x in as_items(a)]
    if any(p is False for p in parts):
        return False
    parts = [p for p in parts if p is not True]
    if not parts:
        return True
    return z3.And(*parts) if len(parts) > 1 else parts[0]
