"""Models needed to bring Atoms.extend under contract: identity maps (dict with symbolic content), filtering comprehensions,
fancy indexing (gather), element-wise arithmetic on symbolic arrays, np.vectorize(dict.get), the cdist/nonzero matching of existing terms,
flatten-and-reshape appends.  All are ASSUMED library contracts; each adds its sentence to the evidence."""
import ast
import z3

from .values import (Sym, SymOpt, SymSeq, RowVal, Ref, Opaque, OutOfSubset, StrS, to_z3, is_scalar, sort_of_value, zbool, truthy)
from .interp import RaiseSig, ExcVal, MergeFail
from . import models_np, models_py
from .models_np import ghosts, mem_of, seq_key, INT
from .models_py import SymMap


def fresh_like_cols(I, seq, base):
    return [z3.Array(I.reg.fresh(base + ('_c%d' % i if len(seq.cols) > 1 else '')), INT, c.range()) for i, c in enumerate(seq.cols)]


# ------------------------------------------------------------------------------------------------ identity maps
def input_map(I, keys, vals):
    """dict given by the caller: distinct keys -> distinct values (an injective partial map)."""
    m = SymMap(I, keys, vals)
    j = z3.Int(I.reg.fresh('j'))
    a = keys.cols[0]
    # distinct keys: the witness of keys[j] is j itself
    I.assume(z3.ForAll([j], z3.Implies(z3.And(j >= 0, j < keys.length), m.wit(z3.Select(a, j)) == j), patterns=[z3.Select(a, j)]))
    return m


def map_lookup(m, x):
    """Total lookup term (meaningful where the key is present)."""
    if isinstance(m, CombinedMap):
        return z3.If(m.over.mem(x), map_lookup(m.over, x), map_lookup(m.base, x))
    return z3.Select(m.vals.cols[0], m.wit(x))


def map_has(m, x):
    if isinstance(m, CombinedMap):
        return z3.Or(m.over.mem(x), m.base.mem(x)) if not isinstance(m.base, CombinedMap) else z3.Or(m.over.mem(x), map_has(m.base, x))
    return m.mem(x)


class CombinedMap:
    """d1.update(d2): entries of d2 win."""

    def __init__(self, base, over):
        self.base, self.over = base, over


class MapItems:
    def __init__(self, m):
        self.m = m


class MapKeys:
    def __init__(self, m):
        self.m = m


class VecGet:
    def __init__(self, m):
        self.m = m


class FlatPair:
    """np.append(a, b) of two 2-D arrays without axis: the flattened concatenation, waiting for .reshape((-1, w))."""

    def __init__(self, a, b):
        self.a, self.b = a, b


class CityBlock:
    def __init__(self, a, b):
        self.a, self.b = a, b


class EqMatrix:
    def __init__(self, a, b):
        self.a, self.b = a, b


def install(I):
    lib = I.lib

    # ---- dict methods on symbolic maps
    def m_items(ctx, recv, args, kwargs, f):
        if isinstance(recv, (SymMap,)):
            return MapItems(recv)
        return NotImplemented
    I.models['method.items'] = m_items

    def m_keys(ctx, recv, args, kwargs, f):
        if isinstance(recv, (SymMap, CombinedMap)):
            return MapKeys(recv)
        return NotImplemented
    I.models['method.keys'] = m_keys

    def m_values(ctx, recv, args, kwargs, f):
        if isinstance(recv, SymMap) and not args:
            # the values in key order; one per key only when the keys the map was built from are distinct (else later entries win)
            i, j = z3.Int(I.reg.fresh('vi')), z3.Int(I.reg.fresh('vj'))
            a = recv.keys.cols[0]
            I.oblige("%s/model/dict.values-of-a-map-with-distinct-keys" % ctx.speckey,
                     z3.ForAll([i, j], z3.Implies(z3.And(i >= 0, i < j, j < recv.keys.length), z3.Select(a, i) != z3.Select(a, j))), 'pre')
            return recv.vals
        return NotImplemented
    I.models['method.values'] = m_values

    def m_update(ctx, recv, args, kwargs, f):
        if isinstance(recv, (SymMap, CombinedMap)) and isinstance(args[0], (SymMap, CombinedMap)):
            lib.rebind(ctx, f, CombinedMap(recv, args[0]))
            return None
        return NotImplemented
    I.models['method.update'] = m_update
    prev_contains = I.models.get('contains.fallback')

    def contains(ctx, cont, x):
        if isinstance(cont, MapKeys):
            return map_has(cont.m, to_z3(x))
        if isinstance(cont, (SymMap, CombinedMap)):
            return map_has(cont, to_z3(x))
        if prev_contains:
            return prev_contains(ctx, cont, x)
        raise OutOfSubset("membership in %r" % (cont,))
    I.models['contains.fallback'] = contains
    orig_sym_iter = lib.symbolic_iter

    def symbolic_iter(ctx, it):
        if isinstance(it, MapItems):
            m = it.m
            return m.keys.length, (lambda k: (Sym(z3.Select(m.keys.cols[0], k)), Sym(z3.Select(m.vals.cols[0], k))))
        return orig_sym_iter(ctx, it)
    lib.symbolic_iter = symbolic_iter
    orig_getattr = lib.getattr

    def getattr_(ctx, obj, name, node=None, for_call=False):
        if isinstance(obj, (SymMap, CombinedMap)) and name == 'get' and not for_call:
            return ('dict.get', obj)
        return orig_getattr(ctx, obj, name, node, for_call)
    lib.getattr = getattr_

    def np_vectorize(ctx, args, kwargs):
        f = args[0]
        if isinstance(f, tuple) and f and f[0] == 'dict.get':
            return VecGet(f[1])
        raise OutOfSubset("np.vectorize of %r" % (f,))
    I.models['numpy.vectorize'] = np_vectorize
    orig_call = lib.call

    def call(ctx, f, args, kwargs, node):
        if isinstance(f, VecGet):
            arr = args[0]
            if not isinstance(arr, SymSeq):
                raise OutOfSubset("vectorized lookup of %r" % (arr,))
            I.reg.assumptions_used.add("numpy: np.vectorize(d.get)(a) looks every entry of a up in d (entries must be keys)")
            cols = fresh_like_cols(I, arr, 'looked_up')
            p = z3.Int(I.reg.fresh('p'))
            for cn, co in zip(cols, arr.cols):
                I.oblige("%s/safety/vectorized-lookup-keys-present" % ctx.speckey,
                         z3.ForAll([p], z3.Implies(z3.And(p >= 0, p < arr.length), map_has(f.m, z3.Select(co, p))), patterns=[z3.Select(co, p)]), 'safety')
                I.assume(z3.ForAll([p], z3.Implies(z3.And(p >= 0, p < arr.length), z3.Select(cn, p) == map_lookup(f.m, z3.Select(co, p))),
                                   patterns=[z3.Select(cn, p)]))
            return SymSeq(arr.length, cols, arr.width, arr.kind, 'looked_up')
        return orig_call(ctx, f, args, kwargs, node)
    lib.call = call

    # ---- filtering comprehension  [x for x in <iterable> if cond(x)]  with elt == target
    def comp_filter(ctx, e, sc):
        g = e.generators[0]
        same = isinstance(e.elt, ast.Name) and isinstance(g.target, ast.Name) and e.elt.id == g.target.id
        if len(e.generators) != 1:
            raise OutOfSubset("filtering comprehension of an unsupported shape: %s" % ast.unparse(e))
        n, elem = lib.symbolic_iter(ctx, sc.iterable)
        k = z3.Int(I.reg.fresh('fk'))
        pc0 = len(I.pc)
        I.merge_depth += 1
        try:
            I.pc.append(z3.And(k >= 0, k < n))
            ctx.assign(g.target, elem(k))
            conds = []
            for c in g.ifs:
                t = truthy(ctx.eval(c))
                conds.append(zbool(t))
            # the collected value: the loop variable itself, or any scalar expression of the loop variables ([i for i, t in enumerate(..) if ..])
            ek = to_z3(elem(k)) if same else to_z3(ctx.eval(e.elt))
        except MergeFail:
            raise OutOfSubset("branching filter condition: %s" % ast.unparse(e))
        finally:
            del I.pc[pc0:]
            I.merge_depth -= 1
        keep_k = z3.And(*conds) if len(conds) > 1 else conds[0]
        keep = lambda i: z3.substitute(keep_k, (k, i))
        el = lambda i: z3.substitute(ek, (k, i))
        I.reg.assumptions_used.add("python: [x for x in seq if c(x)] keeps exactly the elements satisfying c, in order (monotone bijection idx/pos)")
        m = z3.Int(I.reg.fresh('flen'))
        A = SymSeq(m, [z3.Array(I.reg.fresh('filtered'), INT, ek.sort())], None, 'list', 'filtered')
        idx = z3.Function(I.reg.fresh('fidx'), INT, INT)
        pos = z3.Function(I.reg.fresh('fpos'), INT, INT)
        p, q, i = z3.Int(I.reg.fresh('p')), z3.Int(I.reg.fresh('q')), z3.Int(I.reg.fresh('i'))
        a = A.cols[0]
        I.assume(z3.And(m >= 0, m <= n))
        I.assume(z3.ForAll([p], z3.Implies(z3.And(p >= 0, p < m), z3.And(idx(p) >= 0, idx(p) < n, keep(idx(p)), z3.Select(a, p) == el(idx(p)), pos(idx(p)) == p)),
                           patterns=[z3.Select(a, p), idx(p)]))
        # triggers: pos(i), and every uninterpreted application in the filter condition that has the element as an argument
        trig = [pos(i)]
        ki = keep(i)
        stack, seen = [ki], set()
        while stack:
            t = stack.pop()
            if t.get_id() in seen:
                continue
            seen.add(t.get_id())
            if z3.is_app(t) and t.decl().kind() == z3.Z3_OP_UNINTERPRETED and t.num_args() >= 1 and any(z3.eq(t.arg(a_), i) for a_ in range(t.num_args())):
                trig.append(t)
            stack.extend(t.children())
        I.assume(z3.ForAll([i], z3.Implies(z3.And(i >= 0, i < n, keep(i)), z3.And(pos(i) >= 0, pos(i) < m, idx(pos(i)) == i)), patterns=trig))
        I.assume(z3.ForAll([p, q], z3.Implies(z3.And(p >= 0, p < q, q < m), idx(p) < idx(q)), patterns=[z3.MultiPattern(idx(p), idx(q))]))
        ghosts(I).cache[('filter',) + seq_key(A)] = dict(idx=idx, pos=pos, keep=keep, n=n, elem=el, seq=A)
        I.notes.setdefault('filters', []).append(dict(idx=idx, pos=pos, keep=keep, n=n, elem=el, seq=A))
        return A
    I.models['comprehension.filter'] = comp_filter

    # ---- fancy indexing / row access on symbolic arrays
    def seq_getitem(ctx, cont, idx):
        def gather(ix):
            if not (isinstance(ix, SymSeq) and ix.width is None):
                return NotImplemented
            I.reg.assumptions_used.add("numpy: a[idxlist] gathers the rows a[idxlist[p]] in list order")
            cols = fresh_like_cols(I, cont, (cont.name or 'a') + '_g')
            p = z3.Int(I.reg.fresh('p'))
            ia = ix.cols[0]
            I.oblige("%s/safety/gather-indices-in-range" % ctx.speckey,
                     z3.ForAll([p], z3.Implies(z3.And(p >= 0, p < ix.length), z3.And(z3.Select(ia, p) >= 0, z3.Select(ia, p) < cont.length)), patterns=[z3.Select(ia, p)]), 'safety')
            for cn, co in zip(cols, cont.cols):
                I.assume(z3.ForAll([p], z3.Implies(z3.And(p >= 0, p < ix.length), z3.Select(cn, p) == z3.Select(co, z3.Select(ia, p))), patterns=[z3.Select(cn, p)]))
            out = SymSeq(ix.length, cols, cont.width, cont.kind, (cont.name or 'a') + '_g')
            out.gathered = (cont, ix)
            return out
        if idx[0] == 'index' and isinstance(idx[1], SymSeq):
            return gather(idx[1])
        if idx[0] == 'tuple' and len(idx[1]) == 2 and idx[1][1] == ('slice', None, None, None):
            first = idx[1][0]
            if first[0] == 'index' and isinstance(first[1], SymSeq):
                return gather(first[1])
            if first[0] == 'index' and isinstance(first[1], (Sym, int)) and not isinstance(first[1], bool):
                i = to_z3(first[1])
                I.oblige("%s/safety/index-in-range" % ctx.speckey, z3.And(i >= 0, i < cont.length), 'safety')
                return cont.get(i)
        return NotImplemented
    I.models['getitem:SymSeq'] = seq_getitem

    def seq_setitem(ctx, cont, idx, v):
        if idx[0] == 'tuple' and len(idx[1]) == 2 and idx[1][1] == ('slice', None, None, None) and idx[1][0][0] == 'index':
            i = to_z3(idx[1][0][1])
            I.oblige("%s/safety/store-in-range" % ctx.speckey, z3.And(i >= 0, i < cont.length), 'safety')
            vals = list(v) if cont.width is not None else [v]
            cols = [z3.Store(c, i, to_z3(x, sort=c.range())) for c, x in zip(cont.cols, vals)]
            return SymSeq(cont.length, cols, cont.width, cont.kind, cont.name)
        return NotImplemented
    I.models['setitem:SymSeq'] = seq_setitem

    def attr_size(ctx, obj):
        if isinstance(obj, SymSeq):
            # number of cells = rows x columns; the column count of the extra-field arrays is one unknown non-negative integer
            w = z3.Int('extra_row_width')
            I.assume(w >= 0)
            return Sym(obj.length * w)
        return NotImplemented
    I.models['attr.size'] = attr_size

    # ---- element-wise arithmetic / list concatenation
    def seq_binop(ctx, op, a, b):
        if isinstance(a, SymSeq) and isinstance(b, SymSeq) and op == 'Add' and a.kind == 'list' and b.kind == 'list' and a.width is None and b.width is None:
            I.reg.assumptions_used.add("python: list + list is the concatenation")
            n = a.length + b.length
            c = z3.Array(I.reg.fresh('concat'), INT, a.elem_sort())
            p = z3.Int(I.reg.fresh('p'))
            I.assume(z3.ForAll([p], z3.Implies(z3.And(p >= 0, p < n), z3.Select(c, p) == z3.If(p < a.length, z3.Select(a.cols[0], p), z3.Select(b.cols[0], p - a.length))),
                               patterns=[z3.Select(c, p)]))
            out = SymSeq(n, [c], None, 'list', 'concat')
            ma, mb = mem_of(I, a), mem_of(I, b)
            # members of the concatenation: members of either part
            comb = z3.Function(I.reg.fresh('mem_concat'), a.elem_sort(), z3.BoolSort())
            x = z3.Const(I.reg.fresh('x'), a.elem_sort())
            I.assume(z3.ForAll([x], comb(x) == z3.Or(ma(x), mb(x)), patterns=[comb(x)]))
            ghosts(I).cache[('mem',) + seq_key(out)] = comb
            ghosts(I).cache[('concat',) + seq_key(out)] = (a, b)
            return out
        if isinstance(a, SymSeq) and is_scalar(b) and op in ('Add', 'Sub'):
            I.reg.assumptions_used.add("numpy: array +/- scalar is element-wise")
            cols = fresh_like_cols(I, a, (a.name or 'a') + '_plus')
            p = z3.Int(I.reg.fresh('p'))
            bz = to_z3(b)
            for cn, co in zip(cols, a.cols):
                rhs = z3.Select(co, p) + bz if op == 'Add' else z3.Select(co, p) - bz
                I.assume(z3.ForAll([p], z3.Implies(z3.And(p >= 0, p < a.length), z3.Select(cn, p) == rhs), patterns=[z3.Select(cn, p)]))
            out = SymSeq(a.length, cols, a.width, a.kind, (a.name or 'a') + '_plus')
            out.shifted_from = (a, op, b)
            return out
        raise OutOfSubset("arithmetic %s on symbolic arrays" % op)
    I.models['seq.binop'] = seq_binop

    # ---- np.append of two 2-D arrays without axis, then .reshape((-1, w))
    prev_append = I.models['numpy.append']

    def np_append(ctx, args, kwargs):
        a, b = args[0], args[1]
        axis = kwargs.get('axis', args[2] if len(args) > 2 else None)
        if isinstance(a, SymSeq) and isinstance(b, SymSeq) and a.width is not None and a.width == b.width and axis is None:
            return FlatPair(a, b)
        return prev_append(ctx, args, kwargs)
    I.models['numpy.append'] = np_append

    def m_reshape(ctx, recv, args, kwargs, f):
        if isinstance(recv, FlatPair):
            shape = args[0] if len(args) == 1 else tuple(args)
            if isinstance(shape, tuple) and len(shape) == 2 and shape[0] == -1 and shape[1] == recv.a.width:
                I.reg.assumptions_used.add("numpy: np.append(a, b).reshape((-1, w)) of two (k, w) arrays is the row concatenation")
                return prev_append(ctx, [recv.a, recv.b], {'axis': 0})
            raise OutOfSubset("reshape%r of a flattened pair of width %d" % (shape, recv.a.width))
        return NotImplemented
    I.models['method.reshape'] = m_reshape

    # ---- matching of existing terms: cdist(topo, new, 'cityblock') == 0, np.flip, np.nonzero(...)[0]
    def cdist(ctx, args, kwargs):
        a, b = args[0], args[1]
        metric = args[2] if len(args) > 2 else kwargs.get('metric')
        if isinstance(a, SymSeq) and isinstance(b, SymSeq) and a.width == b.width and a.width is not None and metric == 'cityblock':
            return CityBlock(a, b)
        raise OutOfSubset("cdist in an unmodelled form")
    I.models['scipy.spatial.distance.cdist'] = cdist
    orig_compare = lib.compare

    def compare(ctx, op, x, y):
        if isinstance(x, CityBlock) and op == 'Eq' and isinstance(y, int) and y == 0:
            I.reg.assumptions_used.add("scipy: the cityblock distance of two integer rows is 0 iff the rows are equal")
            return EqMatrix(x.a, x.b)
        return orig_compare(ctx, op, x, y)
    lib.compare = compare

    def np_flip(ctx, args, kwargs):
        a = args[0]
        if isinstance(a, SymSeq) and a.width is not None and kwargs.get('axis', args[1] if len(args) > 1 else None) == 1:
            return SymSeq(a.length, list(reversed(a.cols)), a.width, a.kind, (a.name or 'a') + '_flipped')
        raise OutOfSubset("np.flip in an unmodelled form")
    I.models['numpy.flip'] = np_flip

    def np_nonzero(ctx, args, kwargs):
        M = args[0]
        if not isinstance(M, EqMatrix):
            raise OutOfSubset("np.nonzero of %r" % (M,))
        I.reg.assumptions_used.add("numpy: np.nonzero(M)[0] lists the row index of every true cell (rows with a true cell, possibly repeated)")
        a, b = M.a, M.b
        z = z3.Int(I.reg.fresh('nz_len'))
        Z = SymSeq(z, [z3.Array(I.reg.fresh('nz_rows'), INT, INT)], None, 'ndarray', 'nz_rows')
        hit = z3.Function(I.reg.fresh('row_hit'), INT, z3.BoolSort())
        qw = z3.Function(I.reg.fresh('row_hit_partner'), INT, INT)
        r, q, j = z3.Int(I.reg.fresh('r')), z3.Int(I.reg.fresh('q')), z3.Int(I.reg.fresh('j'))
        roweq = lambda rr, qq: z3.And(*[z3.Select(ca, rr) == z3.Select(cb, qq) for ca, cb in zip(a.cols, b.cols)])
        I.assume(z >= 0)
        I.assume(z3.ForAll([r], z3.Implies(z3.And(r >= 0, r < a.length, hit(r)), z3.And(qw(r) >= 0, qw(r) < b.length, roweq(r, qw(r)))), patterns=[hit(r)]))
        I.assume(z3.ForAll([r, q], z3.Implies(z3.And(r >= 0, r < a.length, q >= 0, q < b.length, roweq(r, q)), hit(r)),
                           patterns=[z3.MultiPattern(z3.Select(a.cols[0], r), z3.Select(b.cols[0], q))]))
        memZ = mem_of(I, Z)
        I.assume(z3.ForAll([j], z3.Implies(z3.And(j >= 0, j < z), z3.And(z3.Select(Z.cols[0], j) >= 0, z3.Select(Z.cols[0], j) < a.length, hit(z3.Select(Z.cols[0], j)))),
                           patterns=[z3.Select(Z.cols[0], j)]))
        I.assume(z3.ForAll([r], z3.Implies(z3.And(r >= 0, r < a.length, hit(r)), memZ(r)), patterns=[hit(r)]))
        ghosts(I).cache[('hit',) + seq_key(Z)] = (hit, qw, a, b)
        return (Z, Opaque(z3.Const(I.reg.fresh('nz_cols'), models_py.ObjS)))
    I.models['numpy.nonzero'] = np_nonzero
