"""Generic models for Python constructs over symbolic-length data (maps by comprehension, ...)."""
import ast
import z3

from .values import (Sym, SymOpt, SymSeq, SymSet, SmallSet, RowVal, OutOfSubset, StrS, to_z3, is_scalar,
                     sort_of_value)
from .interp import MergeFail


def seq_of_values(I, base, val, n, kind='list'):
    """Fresh sequence of length n whose element shape follows `val`."""
    from .values import shape_of, shape_sorts
    if is_scalar(val):
        cols = [z3.Array(I.reg.fresh(base), z3.IntSort(), sort_of_value(val))]
        return SymSeq(n, cols, None, kind, base)
    if isinstance(val, RowVal) and all(is_scalar(x) for x in val):
        cols = [z3.Array(I.reg.fresh(base + ".c%d" % i), z3.IntSort(), sort_of_value(x)) for i, x in enumerate(val)]
        return SymSeq(n, cols, len(val), 'ndarray', base)
    shape = shape_of(val)
    sorts = shape_sorts(shape)
    cols = [z3.Array(I.reg.fresh(base + ".c%d" % i), z3.IntSort(), s_) for i, s_ in enumerate(sorts)]
    out = SymSeq(n, cols, len(cols), kind, base)
    if not (shape[0] == 't' and all(sh[0] == 's' for sh in shape[1])):
        out.shape = shape
    else:
        out.shape = shape          # tuples are rebuilt as tuples
    return out


class StarArg:
    def __init__(self, seq):
        self.seq = seq


class ZipStar:
    """zip(*rows) for a symbolic list of fixed-shape rows: the transposition (one sequence per column)."""

    def __init__(self, seq):
        self.seq = seq

    def columns(self):
        from .values import shape_sorts
        seq = self.seq
        shape = seq.shape
        if shape is None:
            return [SymSeq(seq.length, [c], None, 'tuple', (seq.name or 'col') + '_%d' % i) for i, c in enumerate(seq.cols)]
        if shape[0] not in ('t', 'l', 'r'):
            raise OutOfSubset("zip(*rows) of non-tuple rows")
        out, k = [], 0
        for i, sh in enumerate(shape[1]):
            w = len(shape_sorts(sh))
            sub = SymSeq(seq.length, seq.cols[k:k + w], None if sh[0] in ('s', 'o') else w, 'tuple', (seq.name or 'col') + '_%d' % i)
            if sh[0] not in ('s', 'o'):
                sub.shape = sh
            out.append(sub)
            k += w
        return out


class SymMap:
    """dict built by a comprehension over a symbolic sequence: keys[k] -> vals[k], last occurrence wins."""

    def __init__(self, I, keys, vals):
        self.keys, self.vals = keys, vals
        srt = keys.elem_sort()
        self.mem = z3.Function(I.reg.fresh('map_has'), srt, z3.BoolSort())
        self.wit = z3.Function(I.reg.fresh('map_pos'), srt, z3.IntSort())
        j, j2 = z3.Int(I.reg.fresh('j')), z3.Int(I.reg.fresh('j'))
        x = z3.Const(I.reg.fresh('x'), srt)
        a = keys.cols[0]
        I.assume(z3.ForAll([j], z3.Implies(z3.And(j >= 0, j < keys.length), z3.And(self.mem(z3.Select(a, j)), self.wit(z3.Select(a, j)) >= j)),
                           patterns=[z3.Select(a, j)]))
        I.assume(z3.ForAll([x], z3.Implies(self.mem(x), z3.And(self.wit(x) >= 0, self.wit(x) < keys.length, z3.Select(a, self.wit(x)) == x)),
                           patterns=[self.mem(x)]))


def dict_comprehension(ctx, e, sc):
    I = ctx.I
    if len(e.generators) != 1 or sc.gen_index != 0 or e.generators[0].ifs:
        raise OutOfSubset("dict comprehension over symbolic data: %s" % ast.unparse(e))
    g = e.generators[0]
    n, elem = I.lib.symbolic_iter(ctx, sc.iterable)
    k = z3.Int(I.reg.fresh('ck'))
    guard = z3.And(k >= 0, k < n)
    pc0 = len(I.pc)
    I.merge_depth += 1
    try:
        I.pc.append(guard)
        ctx.assign(g.target, elem(k))
        key, val = ctx.eval(e.key), ctx.eval(e.value)
    finally:
        del I.pc[pc0:]
        I.merge_depth -= 1
    if not (is_scalar(key) and is_scalar(val)):
        raise OutOfSubset("dict comprehension with non-scalar key / value")
    keys = SymSeq(n, [z3.Array(I.reg.fresh('mapkeys'), z3.IntSort(), sort_of_value(key))], None, 'list', 'mapkeys')
    vals = SymSeq(n, [z3.Array(I.reg.fresh('mapvals'), z3.IntSort(), sort_of_value(val))], None, 'list', 'mapvals')
    def selects_at(expr):
        out, stack, seen = [], [expr], set()
        while stack:
            t = stack.pop()
            if t.get_id() in seen:
                continue
            seen.add(t.get_id())
            if z3.is_select(t) and z3.eq(t.arg(1), k) and z3.is_const(t.arg(0)):
                out.append(t)
            stack.extend(t.children())
        return out
    for seq, v in ((keys, key), (vals, val)):
        vz = to_z3(v, sort=seq.elem_sort())
        trig = [z3.Select(seq.cols[0], k)] + selects_at(to_z3(key))
        I.assume(z3.ForAll([k], z3.Implies(guard, z3.Select(seq.cols[0], k) == vz), patterns=trig))
    return SymMap(I, keys, vals)


def symmap_getitem(ctx, m, idx):
    I = ctx.I
    if idx[0] != 'index':
        raise OutOfSubset("dict slice")
    x = to_z3(idx[1], sort=m.keys.elem_sort())
    I.oblige("%s/safety/key-present" % ctx.speckey, m.mem(x), 'safety')
    return Sym(z3.Select(m.vals.cols[0], m.wit(x)))


def comprehension(ctx, e, sc):
    """[elt for target in <symbolic iterable>]  ->  fresh sequence with a pointwise axiom."""
    I = ctx.I
    if isinstance(e, ast.DictComp):
        return dict_comprehension(ctx, e, sc)
    if len(e.generators) != 1 or sc.gen_index != 0:
        raise OutOfSubset("nested / dict comprehension over symbolic data: %s" % ast.unparse(e))
    g = e.generators[0]
    if g.ifs:
        m = I.models.get('comprehension.filter')
        if m is None:
            raise OutOfSubset("filtering comprehension over symbolic data: %s" % ast.unparse(e))
        return m(ctx, e, sc)
    n, elem = I.lib.symbolic_iter(ctx, sc.iterable)
    k = z3.Int(I.reg.fresh('ck'))
    guard = z3.And(k >= 0, k < n)
    pc0 = len(I.pc)
    I.merge_depth += 1
    try:
        I.pc.append(guard)
        ctx.assign(g.target, elem(k))
        try:
            val = ctx.eval(e.elt)
        except MergeFail:
            raise OutOfSubset("branching element expression in comprehension: %s" % ast.unparse(e))
        extra = I.pc[pc0 + 1:]
    finally:
        del I.pc[pc0:]
        I.merge_depth -= 1
    out = seq_of_values(I, 'comp', val, n)
    if out.shape is not None:
        from .values import flatten
        flat = flatten(val, out.shape)
    else:
        vals = list(val) if out.width is not None else [val]
        flat = [(v.term if isinstance(v, Opaque) else to_z3(v, sort=c.range())) for c, v in zip(out.cols, vals)]
    body = z3.And(*[z3.Select(c, k) == x for c, x in zip(out.cols, flat)])
    I.assume(z3.ForAll([k], z3.Implies(guard, body), patterns=[z3.Select(out.cols[0], k)]))
    for x in extra:
        I.assume(z3.ForAll([k], z3.Implies(guard, x), patterns=[z3.Select(out.cols[0], k)]))
    I.assume(n >= 0)
    return out


def list_of_lazy(ctx, v):
    """list(range(n)) for symbolic n: the identity sequence."""
    I = ctx.I
    from .lib import LazyIter
    if isinstance(v, LazyIter) and v.kind == 'range':
        n, el = v.symbolic()
        a = z3.Array(I.reg.fresh('range'), z3.IntSort(), z3.IntSort())
        k = z3.Int(I.reg.fresh('rk'))
        I.assume(z3.ForAll([k], z3.Implies(z3.And(k >= 0, k < n), z3.Select(a, k) == to_z3(el(k))), patterns=[z3.Select(a, k)]))
        return SymSeq(n, [a], None, 'list', 'range')
    raise OutOfSubset("list(%r)" % (v,))


def install(I):
    I.models.setdefault('getitem:SymMap', symmap_getitem)
    I.models.setdefault('comprehension', comprehension)
    I.models.setdefault('list.fallback', list_of_lazy)
    # itertools over concrete (small) iterables: computed, as python does
    import itertools as _it

    def concrete_itertool(fn):
        def model(ctx, args, kwargs):
            conc = []
            for a in args:
                if isinstance(a, int) and not isinstance(a, bool):
                    conc.append(a)
                    continue
                items = I.lib.concrete_iter(ctx, a)
                if items is None:
                    raise OutOfSubset("itertools.%s over a symbolic iterable" % fn.__name__)
                conc.append(list(items))
            kw = {k: v for k, v in kwargs.items() if isinstance(v, int)}
            if len(kw) != len(kwargs):
                raise OutOfSubset("itertools.%s with symbolic keyword" % fn.__name__)
            return [tuple(x) for x in fn(*conc, **kw)]
        return model
    for nm in ('combinations', 'permutations', 'product', 'combinations_with_replacement'):
        I.models.setdefault('itertools.' + nm, concrete_itertool(getattr(_it, nm)))


# ------------------------------------------------------------------------------------------------
# symbolic strings: character / slice / length as uninterpreted functions with facts on all literals

def str_len(ctx, v):
    I = ctx.I
    if isinstance(v, Sym) and v.kind == 'str':
        f = I.reg.ufunc('str.len', StrS, z3.IntSort())
        I.reg.strfun_defs['str.len'] = len
        I.assume(f(v.e) >= 0)
        return Sym(f(v.e))
    raise OutOfSubset("len of %r" % (v,))


def str_getitem(ctx, s, idx):
    I = ctx.I
    if idx[0] == 'index' and isinstance(idx[1], int):
        i = idx[1]
        name = 'str.char[%d]' % i
        f = I.reg.ufunc(name, StrS, StrS)
        I.reg.strfun_defs[name] = lambda x, i=i: x[i]
        # IndexError when the string is too short
        ln = str_len(ctx, s)
        I.oblige("%s/safety/str-index-in-range" % ctx.speckey, ln.e > i if i >= 0 else ln.e >= -i, 'safety')
        return Sym(f(s.e))
    if idx[0] == 'slice' and all(x is None or isinstance(x, int) for x in idx[1:]):
        sl = slice(idx[1], idx[2], idx[3])
        name = 'str.slice[%s:%s:%s]' % (idx[1], idx[2], idx[3])
        f = I.reg.ufunc(name, StrS, StrS)
        I.reg.strfun_defs[name] = lambda x, sl=sl: x[sl]
        return Sym(f(s.e))
    raise OutOfSubset("string subscript %r" % (idx,))


def install_strings(I):
    I.models['len.fallback'] = str_len
    I.models['str.getitem'] = str_getitem


# ------------------------------------------------------------------------------------------------
# opaque calls: library / callee functions as uninterpreted, effect-recording functions (call-trace contracts)
from .values import Opaque, Ref, SymOpt as _SymOpt, Closure, Builtin, ModuleVal
from fractions import Fraction
import z3 as _z3

ObjS = _z3.DeclareSort('Obj')


def to_obj(I, v):
    """Any engine value as a term of the universal sort Obj (injections are uninterpreted functions)."""
    reg = I.reg
    if isinstance(v, Opaque):
        if v.term.sort() == ObjS:
            return v.term
        return reg.ufunc('inj_' + str(v.term.sort()), v.term.sort(), ObjS)(v.term)
    if v is None:
        return _z3.Const('py_None', ObjS)
    if isinstance(v, bool):
        return _z3.Const('py_%s' % v, ObjS)
    if isinstance(v, (int, Fraction, str, Sym)):
        e = to_z3(v)
        return reg.ufunc('inj_' + str(e.sort()), e.sort(), ObjS)(e)
    if isinstance(v, _SymOpt):
        return _z3.If(v.is_none, _z3.Const('py_None', ObjS), to_obj(I, v.val))
    if isinstance(v, (tuple, list)):
        if len(v) == 0:
            return _z3.Const('py_empty_%s' % type(v).__name__, ObjS)
        f = reg.ufunc('mk_%s_%d' % ('tuple' if isinstance(v, tuple) else 'list', len(v)), *([ObjS] * len(v) + [ObjS]))
        return f(*[to_obj(I, x) for x in v])
    if isinstance(v, Ref):
        ver = I.state.heap[v.oid].get('__version__')
        if ver is not None:
            return ver
        return _z3.Const('ref_%d' % v.oid, ObjS)
    if isinstance(v, dict):
        items = sorted(v.items(), key=lambda kv: repr(kv[0]))
        f = reg.ufunc('mk_dict_' + '_'.join(str(k) for k, _ in items), *([ObjS] * len(items) + [ObjS]))
        return f(*[to_obj(I, x) for _, x in items]) if items else _z3.Const('py_empty_dict', ObjS)
    if isinstance(v, SymSeq):
        f = reg.ufunc('seq_obj_%d' % len(v.cols), *([_z3.IntSort()] + [c.sort() for c in v.cols] + [ObjS]))
        return f(v.length, *v.cols)
    if isinstance(v, (Closure, Builtin, ModuleVal)):
        return _z3.Const('fn_' + getattr(v, 'qualname', getattr(v, 'name', 'x')), ObjS)
    raise OutOfSubset("cannot pass %r to an opaque call" % (v,))


def opaque_call(I, name, args, kwargs, record=True):
    targs = [to_obj(I, a) for a in args]
    kws = sorted(kwargs.items())
    fname = 'call_' + name + (('__' + '_'.join(k for k, _ in kws)) if kws else '') + '_%d' % len(targs)
    f = I.reg.ufunc(fname, *([ObjS] * (len(targs) + len(kws)) + [ObjS]))
    term = f(*(targs + [to_obj(I, v) for _, v in kws]))
    if record:
        I.effects.append((name, tuple(targs), tuple((k, to_obj(I, v)) for k, v in kws), term))
    return Opaque(term, name)


def install_opaque(I, names, record=True):
    """Each dotted library name / repo qualname in `names` becomes an uninterpreted, effect-recording function."""
    for n in names:
        I.models[n] = (lambda ctx, args, kwargs, n=n: opaque_call(I, n, args, kwargs, record))


def install_opaque_algebra(I):
    """Arithmetic, subscripts, len, attributes and method calls on Opaque values as uninterpreted functions."""
    def binop(ctx, op, a, b):
        if isinstance(a, Opaque) or isinstance(b, Opaque):
            f = I.reg.ufunc('op_' + op, ObjS, ObjS, ObjS)
            return Opaque(f(to_obj(I, a), to_obj(I, b)), 'op_' + op)
        raise OutOfSubset("binary %s on %r and %r" % (op, type(a).__name__, type(b).__name__))

    def getitem(ctx, cont, idx):
        def conv(ix):
            if ix[0] == 'index':
                return to_obj(I, ix[1])
            if ix[0] == 'slice':
                f = I.reg.ufunc('mk_slice', ObjS, ObjS, ObjS, ObjS)
                return f(*[to_obj(I, x) for x in ix[1:]])
            f = I.reg.ufunc('mk_index_tuple_%d' % len(ix[1]), *([ObjS] * len(ix[1]) + [ObjS]))
            return f(*[conv(x) for x in ix[1]])
        f = I.reg.ufunc('getitem', ObjS, ObjS, ObjS)
        return Opaque(f(cont.term if cont.term.sort() == ObjS else to_obj(I, cont), conv(idx)), 'getitem')

    def length(ctx, v):
        if isinstance(v, Opaque):
            f = I.reg.ufunc('len_obj', ObjS, _z3.IntSort())
            I.assume(f(to_obj(I, v)) >= 0)
            return Sym(f(to_obj(I, v)))
        return str_len(ctx, v)

    def getattr_(ctx, obj, name):
        f = I.reg.ufunc('attr_' + name, ObjS, ObjS)
        return Opaque(f(to_obj(I, obj)), 'attr_' + name)

    def method(ctx, recv, name, args, kwargs, f):
        return opaque_call(I, 'm_' + name, [recv] + list(args), kwargs, record=False)

    I.models['opaque.method'] = method
    I.models['binop.fallback'] = binop
    I.models['getitem:Opaque'] = getitem
    I.models['len.fallback'] = length
    I.models['opaque.getattr'] = getattr_


# ------------------------------------------------------------------------------------------------
# symbolic dict whose values are lists:  dom[k], cnt[k], item[k][j]
class SymDictOfLists:
    def __init__(self, dom, cnt, item, ksort, esort):
        self.dom, self.cnt, self.item, self.ksort, self.esort = dom, cnt, item, ksort, esort

    def named(self, I, base):
        """Fresh array constants for If/Store terms so that they can occur in patterns."""
        if all(_z3.is_const(x) for x in (self.dom, self.cnt, self.item)):
            return self
        out = SymDictOfLists.fresh(I, self.ksort, self.esort, base)
        I.assume(out.dom == self.dom)
        I.assume(out.cnt == self.cnt)
        I.assume(out.item == self.item)
        return out

    @staticmethod
    def empty(ksort, esort, name='d'):
        IntS = _z3.IntSort()
        return SymDictOfLists(_z3.K(ksort, _z3.BoolVal(False)), _z3.K(ksort, _z3.IntVal(0)),
                              _z3.K(ksort, _z3.K(IntS, _z3.Const(name + '_nil', esort))), ksort, esort)

    @staticmethod
    def fresh(I, ksort, esort, name='d'):
        IntS = _z3.IntSort()
        return SymDictOfLists(_z3.Array(I.reg.fresh(name + '_dom'), ksort, _z3.BoolSort()), _z3.Array(I.reg.fresh(name + '_cnt'), ksort, IntS),
                              _z3.Array(I.reg.fresh(name + '_item'), ksort, _z3.ArraySort(IntS, esort)), ksort, esort)


def install_dict_of_lists(I):
    def contains(ctx, cont, x):
        if isinstance(cont, SymDictOfLists):
            return _z3.Select(cont.dom, to_z3(x, sort=cont.ksort))
        raise OutOfSubset("membership in %r" % (cont,))

    def getitem(ctx, cont, idx):
        if idx[0] != 'index':
            raise OutOfSubset("dict slice")
        k = to_z3(idx[1], sort=cont.ksort)
        I.oblige("%s/safety/dict-key-present" % ctx.speckey, _z3.Select(cont.dom, k), 'safety')
        return SymSeq(_z3.Select(cont.cnt, k), [_z3.Select(cont.item, k)], None, 'list', 'dictlist')

    def setitem(ctx, cont, idx, v):
        if idx[0] != 'index':
            raise OutOfSubset("dict slice assignment")
        k = to_z3(idx[1], sort=cont.ksort)
        if isinstance(v, list):
            arr = _z3.Select(cont.item, k)
            for j, x in enumerate(v):
                arr = _z3.Store(arr, j, to_z3(x, sort=cont.esort))
            n = _z3.IntVal(len(v))
        elif isinstance(v, SymSeq) and v.width is None:
            arr, n = v.cols[0], v.length
        else:
            raise OutOfSubset("dict value %r" % (v,))
        return SymDictOfLists(_z3.Store(cont.dom, k, _z3.BoolVal(True)), _z3.Store(cont.cnt, k, n), _z3.Store(cont.item, k, arr),
                              cont.ksort, cont.esort)
    I.models['contains.fallback'] = contains
    I.models['getitem:SymDictOfLists'] = getitem
    I.models['setitem:SymDictOfLists'] = setitem


# ------------------------------------------------------------------------------------------------
# zip of symbolic sequences of scalars: a sequence of tuples, as long as the shortest argument

def zip_symbolic(ctx, args, kwargs):
    I = ctx.I
    if len(args) == 1 and isinstance(args[0], StarArg):
        return ZipStar(args[0].seq)
    lists = [I.lib.concrete_iter(ctx, a) for a in args]
    if all(l is not None for l in lists):
        return [tuple(t) for t in zip(*lists)]
    if not args or kwargs or not all(isinstance(a, SymSeq) and a.width is None and a.shape is None for a in args):
        raise OutOfSubset("zip of %r" % (args,))
    n = args[0].length
    for a in args[1:]:
        n = _z3.If(a.length < n, a.length, n)
    out = SymSeq(n, [a.cols[0] for a in args], len(args), 'list', 'zipped')
    out.shape = ('t', [('s', a.cols[0].range()) for a in args])
    return out


def install_zip(I):
    I.models['zip'] = zip_symbolic
