"""Generic models for Python constructs over symbolic-length data (maps by comprehension, ...)."""
import ast
import z3

from .values import (Sym, SymOpt, SymSeq, SymSet, SmallSet, RowVal, OutOfSubset, StrS, to_z3, is_scalar,
                     sort_of_value)
from .interp import MergeFail


def seq_of_values(I, base, val, n, kind='list'):
    """Fresh sequence of length n whose element shape follows `val` (scalar or fixed tuple of scalars)."""
    if is_scalar(val):
        cols = [z3.Array(I.reg.fresh(base), z3.IntSort(), sort_of_value(val))]
        return SymSeq(n, cols, None, kind, base)
    if isinstance(val, (tuple, list)) and all(is_scalar(x) for x in val):
        cols = [z3.Array(I.reg.fresh(base + ".c%d" % i), z3.IntSort(), sort_of_value(x)) for i, x in enumerate(val)]
        return SymSeq(n, cols, len(val), 'ndarray' if isinstance(val, RowVal) else kind, base)
    raise OutOfSubset("sequence of %r" % (val,))


def comprehension(ctx, e, sc):
    """[elt for target in <symbolic iterable>]  ->  fresh sequence with a pointwise axiom."""
    I = ctx.I
    if isinstance(e, ast.DictComp) or len(e.generators) != 1 or sc.gen_index != 0:
        raise OutOfSubset("nested / dict comprehension over symbolic data: %s" % ast.unparse(e))
    g = e.generators[0]
    if g.ifs:
        m = I.models.get('comprehension.filter')
        if m is None:
            raise OutOfSubset("filtering comprehension over symbolic data: %s" % ast.unparse(e))
        return m(ctx, e, sc)
    n, elem = I.lib.symbolic_iter(ctx, sc.iterable)
    k = z3.Int(I.reg.fresh('ck'))
    guard = z3.And(k >= 0, k < n)
    pc0 = len(I.pc)
    I.merge_depth += 1
    try:
        I.pc.append(guard)
        ctx.assign(g.target, elem(k))
        try:
            val = ctx.eval(e.elt)
        except MergeFail:
            raise OutOfSubset("branching element expression in comprehension: %s" % ast.unparse(e))
        extra = I.pc[pc0 + 1:]
    finally:
        del I.pc[pc0:]
        I.merge_depth -= 1
    out = seq_of_values(I, 'comp', val, n)
    vals = list(val) if out.width is not None else [val]
    body = z3.And(*[z3.Select(c, k) == to_z3(v, sort=c.range()) for c, v in zip(out.cols, vals)])
    I.assume(z3.ForAll([k], z3.Implies(guard, body), patterns=[z3.Select(out.cols[0], k)]))
    for x in extra:
        I.assume(z3.ForAll([k], z3.Implies(guard, x), patterns=[z3.Select(out.cols[0], k)]))
    I.assume(n >= 0)
    return out


def install(I):
    I.models.setdefault('comprehension', comprehension)


# ------------------------------------------------------------------------------------------------
# symbolic strings: character / slice / length as uninterpreted functions with facts on all literals

def str_len(ctx, v):
    I = ctx.I
    if isinstance(v, Sym) and v.kind == 'str':
        f = I.reg.ufunc('str.len', StrS, z3.IntSort())
        I.reg.strfun_defs['str.len'] = len
        I.assume(f(v.e) >= 0)
        return Sym(f(v.e))
    raise OutOfSubset("len of %r" % (v,))


def str_getitem(ctx, s, idx):
    I = ctx.I
    if idx[0] == 'index' and isinstance(idx[1], int):
        i = idx[1]
        name = 'str.char[%d]' % i
        f = I.reg.ufunc(name, StrS, StrS)
        I.reg.strfun_defs[name] = lambda x, i=i: x[i]
        # IndexError when the string is too short
        ln = str_len(ctx, s)
        I.oblige("%s/safety/str-index-in-range" % ctx.speckey, ln.e > i if i >= 0 else ln.e >= -i, 'safety')
        return Sym(f(s.e))
    if idx[0] == 'slice' and all(x is None or isinstance(x, int) for x in idx[1:]):
        sl = slice(idx[1], idx[2], idx[3])
        name = 'str.slice[%s:%s:%s]' % (idx[1], idx[2], idx[3])
        f = I.reg.ufunc(name, StrS, StrS)
        I.reg.strfun_defs[name] = lambda x, sl=sl: x[sl]
        return Sym(f(s.e))
    raise OutOfSubset("string subscript %r" % (idx,))


def install_strings(I):
    I.models['len.fallback'] = str_len
    I.models['str.getitem'] = str_getitem
