"""Discharge of verification conditions: z3 first, cvc5 (CLI) takes z3's unknowns.  Each obligation is
serialised to SMT-LIB and solved in a worker process (16-process pool)."""
import concurrent.futures as cf
import multiprocessing as mp
import os
import subprocess
import tempfile
import time

import z3


RLIMIT_PER_MS = 1700


def to_smt2(hyps, goal, axioms):
    s = z3.Solver()
    for a in axioms:
        s.add(a)
    for h in hyps:
        s.add(h)
    s.add(z3.Not(goal))
    return s.to_smt2()


def _model_to_dict(m):
    out = {}
    for d in m.decls():
        try:
            if d.arity() == 0:
                out[d.name()] = str(m[d])
            else:
                out[d.name()] = str(m[d])[:2000]
        except Exception:
            pass
    return out


# ---------------------------------------------------------------------------------------------------------------
# premise selection (SInE-style): a proof rarely needs more than a few of the ~150 quantified hypotheses a path carries, and E-matching
# is chaotic in their number.  Dropping hypotheses is always sound for `unsat`; a `sat` on a sliced problem means nothing and is ignored.
def _symbols(e, memo):
    out, stack, seen = set(), [e], set()
    while stack:
        x = stack.pop()
        i = x.get_id()
        if i in seen:
            continue
        seen.add(i)
        if z3.is_quantifier(x):
            stack.append(x.body())
            continue
        if z3.is_app(x):
            d = x.decl()
            if d.kind() == z3.Z3_OP_UNINTERPRETED:
                out.add(d.name())
            stack.extend(x.children())
    return out


def _has_quantifier(e):
    stack, seen = [e], set()
    while stack:
        x = stack.pop()
        i = x.get_id()
        if i in seen:
            continue
        seen.add(i)
        if z3.is_quantifier(x):
            return True
        stack.extend(x.children())
    return False


def select_premises(asserts, tol, depth):
    """asserts: hypotheses followed by the negated goal (last).  Keeps every quantifier-free hypothesis and the quantified ones reachable
    from the goal's symbols in `depth` rounds, a hypothesis being triggered only by its rarest symbols (within factor `tol`)."""
    import collections
    goal, hyps = asserts[-1], asserts[:-1]
    S = [_symbols(h, None) for h in hyps]
    Q = [_has_quantifier(h) for h in hyps]
    occ = collections.Counter(s_ for ss in S for s_ in ss)
    trig = []
    for ss in S:
        if not ss:
            trig.append(set())
            continue
        m = min(occ[s_] for s_ in ss)
        trig.append({s_ for s_ in ss if occ[s_] <= tol * m})
    R = set(_symbols(goal, None))
    keep = {i for i in range(len(hyps)) if not Q[i]}
    for _ in range(depth):
        new = [i for i in range(len(hyps)) if i not in keep and trig[i] & R]
        if not new:
            break
        for i in new:
            keep.add(i)
            R |= S[i]
    return [hyps[i] for i in sorted(keep)] + [goal], sum(Q), sum(1 for i in keep if Q[i])


def solve_one(job):
    """job = (name, smt2 text, timeout_ms, use_cvc5).  Returns dict."""
    name, smt2, timeout_ms, use_cvc5 = job
    t0 = time.time()
    res = {'name': name, 'backend': 'z3-%s' % z3.get_version_string(), 'verdict': 'unknown', 'model': None, 'reason': ''}
    # small portfolio: E-matching is sensitive to relevancy filtering (see DESIGN 3.4); stop at the first definite answer
    quantified = '(forall' in smt2 or '(exists' in smt2
    if quantified:
        # E-matching is unstable across configurations (DESIGN 3.4): with relevancy filtering off some VCs are found in milliseconds and
        # others diverge, and vice versa.  Iterative deepening over the configurations: short slices first, so a VC that any configuration
        # proves quickly never waits for another configuration to time out.
        base = [{'smt.relevancy': 0}, {}, {'smt.mbqi': True}, {'smt.relevancy': 0, 'smt.random_seed': 11}]
        configs, budget = [], []
        for frac in (0.03, 0.08, 0.14):
            for c in base:
                configs.append(c)
                budget.append(frac)
    else:
        configs = [{}]
        budget = [1.0]
    if quantified and smt2.count('(forall') >= 40:
        try:
            ctx0 = z3.Context()
            s0 = z3.Solver(ctx=ctx0)
            s0.from_string(smt2)
            A = list(s0.assertions())
            for (tol, depth) in ((1.0, 2), (2.0, 4)):
                B, nq, nk = select_premises(A, tol, depth)
                done = False
                for cfg in ({'smt.mbqi': True}, {'smt.relevancy': 0}, {}):
                    s1 = z3.Solver(ctx=ctx0)
                    slice_ms = max(300, timeout_ms * 0.02)
                    s1.set('rlimit', int(slice_ms * RLIMIT_PER_MS))
                    s1.set('timeout', int(slice_ms * 8 + 2000))
                    s1.set('auto_config', False)
                    s1.set('smt.mbqi', False)
                    for k, v in cfg.items():
                        s1.set(k, v)
                    s1.add(B)
                    if s1.check() == z3.unsat:
                        res['verdict'] = 'unsat'
                        res['config'] = dict(cfg, premises='%d of %d quantified hypotheses (SInE tol %.1f depth %d)' % (nk, nq, tol, depth))
                        res['slice'] = -1
                        done = True
                        break
                if done:
                    break
        except Exception as e:  # pragma: no cover
            res['reason'] = 'premise selection failed: %r' % (e,)
    for ci, cfg in enumerate(configs):
        if res['verdict'] == 'unsat':
            break
        try:
            ctx = z3.Context()
            s = z3.Solver(ctx=ctx)
            # the budget is a deterministic resource limit (z3 'rlimit', about 1 700 units per millisecond on this machine when idle), so a
            # verdict does not depend on how busy the machine is; the wall-clock timeout is only a safety net (8 x the nominal slice)
            slice_ms = max(400, timeout_ms * budget[ci])
            s.set('rlimit', int(slice_ms * RLIMIT_PER_MS))
            s.set('timeout', int(slice_ms * 8 + 2000) if quantified else int(slice_ms * 2 + 500))   # nlsat checks the rlimit rarely
            s.set('auto_config', False)
            s.set('smt.mbqi', False)
            for k, v in cfg.items():
                s.set(k, v)
            s.from_string(smt2)
            r = s.check()
            if r == z3.unsat:
                res['verdict'] = 'unsat'
                res['config'] = cfg
                res['slice'] = ci
                break
            elif r == z3.sat:
                res['verdict'] = 'sat'
                res['model'] = _model_to_dict(s.model())
                break
            else:
                res['reason'] = s.reason_unknown()
                # incomplete quantifier instantiation: z3 says unknown although it found a candidate model
                if 'incomplete' in res['reason'] and res.get('model') is None:
                    try:
                        res['model'] = _model_to_dict(s.model())
                        res['candidate_model'] = True
                    except Exception:
                        pass
        except Exception as e:  # pragma: no cover
            res['reason'] = 'z3 error: %r' % (e,)
            break
    res['ms'] = int((time.time() - t0) * 1000)
    if res['verdict'] == 'unknown' and use_cvc5:
        t1 = time.time()
        try:
            with tempfile.NamedTemporaryFile('w', suffix='.smt2', delete=False) as f:
                f.write("(set-logic ALL)\n" + smt2)
                path = f.name
            p = subprocess.run(['/usr/bin/cvc5', '--tlimit=%d' % int(timeout_ms), path], capture_output=True, text=True,
                               timeout=timeout_ms / 1000.0 + 5)
            out = p.stdout.strip().splitlines()
            if out and out[0] == 'unsat':
                res['verdict'] = 'unsat'
                res['backend'] = 'cvc5-1.0.3'
            elif out and out[0] == 'sat':
                res['verdict'] = 'sat'
                res['backend'] = 'cvc5-1.0.3'
            else:
                res['reason'] += ' | cvc5: %s' % (' '.join(out[:2]) or p.stderr.strip()[:200])
        except Exception as e:
            res['reason'] += ' | cvc5 error: %r' % (e,)
        finally:
            try:
                os.unlink(path)
            except Exception:
                pass
        res['ms'] += int((time.time() - t1) * 1000)
    return res


_POOL = None


def pool(jobs=None):
    global _POOL
    if _POOL is None:
        n = jobs or int(os.environ.get('PYVC_JOBS', '0')) or min(16, os.cpu_count() or 4)
        _POOL = cf.ProcessPoolExecutor(max_workers=n, mp_context=mp.get_context('spawn'))
    return _POOL


def discharge(obligations, axioms, timeout_ms=10000, use_cvc5=True, parallel=True):
    """obligations: list of Obligation.  Returns list of result dicts in the same order."""
    jobs = []
    for ob in obligations:
        jobs.append((ob.name, to_smt2(ob.hyps, ob.goal, axioms), timeout_ms, use_cvc5))
    if not jobs:
        return []
    if not parallel or len(jobs) == 1:
        return [solve_one(j) for j in jobs]
    return list(pool().map(solve_one, jobs, chunksize=max(1, len(jobs) // 64)))


def shutdown():
    global _POOL
    if _POOL is not None:
        _POOL.shutdown(wait=False, cancel_futures=True)
        _POOL = None
