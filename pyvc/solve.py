"""Discharge of verification conditions: z3 first, cvc5 (CLI) takes z3's unknowns.  Each obligation is
serialised to SMT-LIB and solved in a worker process (16-process pool)."""
import concurrent.futures as cf
import multiprocessing as mp
import os
import subprocess
import tempfile
import time

import z3


def to_smt2(hyps, goal, axioms):
    s = z3.Solver()
    for a in axioms:
        s.add(a)
    for h in hyps:
        s.add(h)
    s.add(z3.Not(goal))
    return s.to_smt2()


def _model_to_dict(m):
    out = {}
    for d in m.decls():
        try:
            if d.arity() == 0:
                out[d.name()] = str(m[d])
            else:
                out[d.name()] = str(m[d])[:2000]
        except Exception:
            pass
    return out


def solve_one(job):
    """job = (name, smt2 text, timeout_ms, use_cvc5).  Returns dict."""
    name, smt2, timeout_ms, use_cvc5 = job
    t0 = time.time()
    res = {'name': name, 'backend': 'z3-%s' % z3.get_version_string(), 'verdict': 'unknown', 'model': None, 'reason': ''}
    # small portfolio: E-matching is sensitive to relevancy filtering (see DESIGN 3.4); stop at the first definite answer
    quantified = '(forall' in smt2 or '(exists' in smt2
    if quantified:
        configs = [{'smt.relevancy': 0}, {}, {'smt.mbqi': True}, {'smt.relevancy': 0, 'smt.random_seed': 11}]
        budget = [0.5, 0.15, 0.2, 0.15]
    else:
        configs = [{}]
        budget = [1.0]
    for ci, cfg in enumerate(configs):
        try:
            ctx = z3.Context()
            s = z3.Solver(ctx=ctx)
            s.set('timeout', int(max(1000, timeout_ms * budget[ci])))
            s.set('auto_config', False)
            s.set('smt.mbqi', False)
            for k, v in cfg.items():
                s.set(k, v)
            s.from_string(smt2)
            r = s.check()
            if r == z3.unsat:
                res['verdict'] = 'unsat'
                res['config'] = cfg
                break
            elif r == z3.sat:
                res['verdict'] = 'sat'
                res['model'] = _model_to_dict(s.model())
                break
            else:
                res['reason'] = s.reason_unknown()
                # incomplete quantifier instantiation: z3 says unknown although it found a candidate model
                if 'incomplete' in res['reason'] and res.get('model') is None:
                    try:
                        res['model'] = _model_to_dict(s.model())
                        res['candidate_model'] = True
                    except Exception:
                        pass
        except Exception as e:  # pragma: no cover
            res['reason'] = 'z3 error: %r' % (e,)
            break
    res['ms'] = int((time.time() - t0) * 1000)
    if res['verdict'] == 'unknown' and use_cvc5:
        t1 = time.time()
        try:
            with tempfile.NamedTemporaryFile('w', suffix='.smt2', delete=False) as f:
                f.write("(set-logic ALL)\n" + smt2)
                path = f.name
            p = subprocess.run(['/usr/bin/cvc5', '--tlimit=%d' % int(timeout_ms), path], capture_output=True, text=True,
                               timeout=timeout_ms / 1000.0 + 5)
            out = p.stdout.strip().splitlines()
            if out and out[0] == 'unsat':
                res['verdict'] = 'unsat'
                res['backend'] = 'cvc5-1.0.3'
            elif out and out[0] == 'sat':
                res['verdict'] = 'sat'
                res['backend'] = 'cvc5-1.0.3'
            else:
                res['reason'] += ' | cvc5: %s' % (' '.join(out[:2]) or p.stderr.strip()[:200])
        except Exception as e:
            res['reason'] += ' | cvc5 error: %r' % (e,)
        finally:
            try:
                os.unlink(path)
            except Exception:
                pass
        res['ms'] += int((time.time() - t1) * 1000)
    return res


_POOL = None


def pool(jobs=None):
    global _POOL
    if _POOL is None:
        n = jobs or int(os.environ.get('PYVC_JOBS', '0')) or min(16, os.cpu_count() or 4)
        _POOL = cf.ProcessPoolExecutor(max_workers=n, mp_context=mp.get_context('spawn'))
    return _POOL


def discharge(obligations, axioms, timeout_ms=10000, use_cvc5=True, parallel=True):
    """obligations: list of Obligation.  Returns list of result dicts in the same order."""
    jobs = []
    for ob in obligations:
        jobs.append((ob.name, to_smt2(ob.hyps, ob.goal, axioms), timeout_ms, use_cvc5))
    if not jobs:
        return []
    if not parallel or len(jobs) == 1:
        return [solve_one(j) for j in jobs]
    return list(pool().map(solve_one, jobs, chunksize=max(1, len(jobs) // 64)))


def shutdown():
    global _POOL
    if _POOL is not None:
        _POOL.shutdown(wait=False, cancel_futures=True)
        _POOL = None
