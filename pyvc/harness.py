"""Suite: collects the functions under contract, the obligations generated from /repo's current source,
assumptions, and the instructions to turn a counter-model into a native replay."""
import ast
import hashlib
import json
import os
import time
import traceback

import z3

from . import values as V
from .values import OutOfSubset, Sym
from .interp import Interp, Obligation, FuncSpec, LoopSpec
from .lib import Lib
from . import solve


class BuildBudgetExceeded(BaseException):
    pass


class Goal:
    def __init__(self, ob, axioms, replay=None, expect='unsat', clause=None):
        self.ob = ob
        self.axioms = axioms
        self.replay = replay      # callable(model dict) -> replay-input dict (or None)
        self.expect = expect      # 'unsat' (proof obligation) | 'sat' (vacuity canary: must NOT be discharged)
        self.clause = clause
        self.result = None
        self.timeout_ms = None    # None = the tier's budget


class Suite:
    def __init__(self, prop, repo, tier='quick', seed=0):
        self.prop = prop
        self.repo = repo
        self.tier = tier
        self.seed = seed
        self.functions = []
        self.goals = []
        self.assumptions = []
        self.undecided = []     # (where, reason)
        self.clauses = {}       # clause label -> status text
        self.interps = []
        self.t0 = time.time()

    # -------------------------------------------------------------- setup
    def interp(self, models=None):
        reg = V.reset_registry()
        I = Interp(self.repo, reg, models=models)
        Lib(I)
        self.interps.append(I)
        return I

    def function(self, relpath, qualname):
        path = os.path.join(self.repo, relpath)
        src = open(path).read()
        tree = ast.parse(src)
        from .interp import Module
        m = Module(self.repo, relpath)
        node = m.find(qualname)
        seg = ast.get_source_segment(src, node) or ''
        h = hashlib.sha256(ast.dump(node).encode()).hexdigest()[:16]
        ent = {'file': relpath, 'function': qualname, 'ast_sha256_16': h, 'lines': [node.lineno, node.end_lineno]}
        if ent not in self.functions:
            self.functions.append(ent)
        return node

    def assume(self, text):
        if text not in self.assumptions:
            self.assumptions.append(text)

    def clause(self, label, status):
        self.clauses[label] = status

    # -------------------------------------------------------------- goals
    def axioms_of(self, I):
        return list(I.base_axioms) + I.reg.literal_axioms()

    def add(self, I, name, hyps, goal, replay=None, kind='post', clause=None, extra_axioms=()):
        if isinstance(goal, bool):
            goal = z3.BoolVal(goal)
        ob = Obligation("%s/%s" % (self.prop, name), list(hyps), goal, kind)
        g = Goal(ob, self.axioms_of(I) + list(extra_axioms), replay, 'unsat', clause)
        self.goals.append(g)
        return g

    def add_canary(self, I, name, hyps):
        ob = Obligation("%s/%s" % (self.prop, name), list(hyps), z3.BoolVal(False), 'canary')
        g = Goal(ob, self.axioms_of(I), None, 'sat')
        g.timeout_ms = 3000      # a canary only has to be "not refuted": a contradictory path condition is refuted in milliseconds
        self.goals.append(g)
        return g

    def add_probe(self, I, name, hyps, timeout_ms=4000):
        """Vacuity probe over the *whole* path condition including quantified hypotheses (invariants, assumed contracts, ghost
        definitions): `false` must not be derivable.  A short budget suffices: real obligations of the same path discharge in
        milliseconds when the hypotheses are contradictory."""
        ob = Obligation("%s/%s" % (self.prop, name), list(hyps), z3.BoolVal(False), 'canary')
        g = Goal(ob, self.axioms_of(I), None, 'sat')
        g.timeout_ms = timeout_ms
        self.goals.append(g)
        return g

    def add_interp_obligations(self, I, replay=None, clause=None, only=None):
        n = 0
        for key in I.ob_order:
            ob = I.obligations[key]
            if only and not only(ob):
                continue
            o2 = Obligation("%s/%s" % (self.prop, ob.name), ob.hyps, ob.goal, ob.kind, ob.info)
            self.goals.append(Goal(o2, self.axioms_of(I), replay, 'unsat', clause))
            n += 1
        for a in sorted(I.reg.assumptions_used):
            self.assume(a)
        return n

    def guarded(self, where, fn):
        """Run a contract-building step; leaving the subset makes the property UNDECIDED, never a violation.  The step runs under a wall-clock
        budget (PYVC_BUILD_BUDGET_S, default 300 s): symbolic execution of code the contract was not written for can blow up (a filter over a
        117-row table explored path by path); when the budget is spent the step is UNDECIDED and the check goes on."""
        import signal
        budget = int(os.environ.get('PYVC_BUILD_BUDGET_S', '300'))
        nested = getattr(self, '_in_guarded', False)

        def on_alarm(signum, frame):
            raise BuildBudgetExceeded("symbolic execution did not finish within %d s" % budget)
        if not nested and budget > 0:
            old_handler = signal.signal(signal.SIGALRM, on_alarm)
            signal.alarm(budget)
        self._in_guarded = True
        try:
            return self._guarded(where, fn)
        except BuildBudgetExceeded as e:
            self.undecided.append((where, "out of subset: %s" % (e,)))
            return None
        finally:
            self._in_guarded = nested
            if not nested and budget > 0:
                signal.alarm(0)
                signal.signal(signal.SIGALRM, old_handler)

    def _guarded(self, where, fn):
        try:
            return fn()
        except BuildBudgetExceeded:
            raise
        except OutOfSubset as e:
            self.undecided.append((where, "out of subset: %s" % (e,)))
        except RecursionError as e:
            self.undecided.append((where, "recursion limit"))
        except (AttributeError, TypeError, KeyError, IndexError, ValueError) as e:
            # a contract model met a value of a shape it was not written for (the code under contract changed its calling pattern):
            # the contract no longer applies -- UNDECIDED, never a pass, never a violation
            tb = traceback.extract_tb(e.__traceback__)
            loc = "%s:%d" % (os.path.basename(tb[-1].filename), tb[-1].lineno) if tb else '?'
            self.undecided.append((where, "contract does not apply to this code (%s: %s at %s)" % (type(e).__name__, e, loc)))
        return None

    # -------------------------------------------------------------- discharge
    def discharge(self, timeout_ms):
        obs = [g.ob for g in self.goals]
        # all goals may have different axioms: group by identity of axiom list
        jobs = []
        for g in self.goals:
            jobs.append((g.ob.name, solve.to_smt2(g.ob.hyps, g.ob.goal, g.axioms), g.timeout_ms or timeout_ms, g.expect == 'unsat'))
        if len(jobs) <= 2:
            results = [solve.solve_one(j) for j in jobs]
        else:
            results = list(solve.pool().map(solve.solve_one, jobs, chunksize=max(1, len(jobs) // 64)))
        dump = os.environ.get('PYVC_DUMP')
        for g, r, j in zip(self.goals, results, jobs):
            g.result = r
            dm = os.environ.get('PYVC_DUMP_MATCH')
            if dump and g.expect == 'unsat' and (r['verdict'] != 'unsat' or (dm and dm in g.ob.name)):
                os.makedirs(dump, exist_ok=True)
                import re
                with open(os.path.join(dump, re.sub(r'[^A-Za-z0-9_.@-]+', '_', g.ob.name)[:120] + '.smt2'), 'w') as f:
                    f.write(j[1])
        return results
