"""pyvc symbolic interpreter: executes the *real* AST of functions in /repo path by path and emits
verification conditions.  See DESIGN.md section 3.

Exploration is by re-execution under a decision log: every symbolic branch asks `branch()`, which follows
the prescribed prefix and otherwise takes the first feasible alternative and queues the other.
"""
import ast
import os
import z3
from fractions import Fraction

from .values import (Sym, SymOpt, SymSeq, SymSet, SmallSet, Ref, Opaque, Closure, Builtin, ModuleVal, ExcVal,
                     RowVal, OutOfSubset, StrS, to_z3, merge, truthy, zbool, values_equal, member, set_le,
                     is_scalar, is_concrete, sort_of_value, join_sorts, as_items, coerce)
from . import values as V


class PathAbort(Exception):
    pass


class ReturnSig(Exception):
    def __init__(self, value):
        self.value = value


class BreakSig(Exception):
    pass


class ContinueSig(Exception):
    pass


class RaiseSig(Exception):
    def __init__(self, exc):
        self.exc = exc


class LoopIterEnd(Exception):
    pass


class MergeFail(Exception):
    pass


class Obligation:
    def __init__(self, name, hyps, goal, kind='post', info=None):
        self.name = name
        self.hyps = hyps
        self.goal = goal
        self.kind = kind
        self.info = info or {}

    def __repr__(self):
        return "Obligation(%s)" % self.name


class PathResult:
    def __init__(self, outcome, value, pc, state, trace):
        self.outcome = outcome   # 'return' | 'raise' | 'loopend'
        self.value = value
        self.pc = pc
        self.state = state
        self.trace = trace


class State:
    def __init__(self):
        self.frametab = {0: {}}
        self.next_fid = 1
        self.heap = {}
        self.next_oid = 1

    def clone(self):
        s = State()
        s.frametab = {k: dict(f) for k, f in self.frametab.items()}
        s.next_fid = self.next_fid
        s.heap = {k: dict(v) for k, v in self.heap.items()}
        s.next_oid = self.next_oid
        return s

    def new_frame(self, d=None):
        fid = self.next_fid
        self.next_fid += 1
        self.frametab[fid] = dict(d or {})
        return fid

    def alloc(self, cls, fields):
        oid = self.next_oid
        self.next_oid += 1
        self.heap[oid] = dict(fields)
        return Ref(oid, cls)


class LoopSpec:
    """Contract of one loop.  inv(view, k) -> z3 Bool or list of (label, z3 Bool).
    havoc_types: {var: element-type} for variables that are concrete lists before the loop but grow in it.
    """

    def __init__(self, fingerprint, inv=None, havoc_types=None, unroll=False, extra_modifies=(), cut_concrete=False,
                 havoc_like=None, convert=None, keep_attrs=None):
        self.fingerprint = fingerprint
        self.inv = inv
        self.havoc_types = havoc_types or {}
        self.unroll = unroll
        self.extra_modifies = tuple(extra_modifies)
        self.cut_concrete = cut_concrete
        self.havoc_like = havoc_like or {}
        self.convert = convert or {}
        # {object variable: [attributes]} of objects listed in extra_modifies that the loop must NOT modify: they are not havoc'd and an
        # identity obligation (`same object after the body`) is raised for each -- the frame is proved, not assumed
        self.keep_attrs = keep_attrs or {}


class FuncSpec:
    def __init__(self, loops=None, inline=True, ghost_locals=None):
        self.loops = {l.fingerprint: l for l in (loops or [])}
        self.seen_loops = set()
        self.ghost_locals = ghost_locals or {}


class Module:
    """Parsed repo module: function index, literal constants, import table."""

    def __init__(self, repo, relpath):
        self.repo = repo
        self.relpath = relpath
        self.path = os.path.join(repo, relpath)
        with open(self.path) as f:
            self.src = f.read()
        self.tree = ast.parse(self.src)
        self.funcs = {}
        self.consts = {}
        self.imports = {}
        self.classes = {}
        self._index(self.tree.body, "")

    def _index(self, body, prefix):
        for node in body:
            if isinstance(node, ast.FunctionDef):
                self.funcs[prefix + node.name] = node
            elif isinstance(node, ast.ClassDef):
                self.classes[node.name] = node
                self._index(node.body, prefix + node.name + ".")
            elif isinstance(node, ast.Assign) and prefix == "" and len(node.targets) == 1 \
                    and isinstance(node.targets[0], ast.Name):
                try:
                    self.consts[node.targets[0].id] = ast.literal_eval(node.value)
                except Exception:
                    pass
            elif isinstance(node, ast.Import) and prefix == "":
                for a in node.names:
                    self.imports[a.asname or a.name.split('.')[0]] = ('module', a.name if a.asname else a.name.split('.')[0])
            elif isinstance(node, ast.ImportFrom) and prefix == "":
                for a in node.names:
                    self.imports[a.asname or a.name] = ('from', node.module, a.name)

    def find(self, qualname):
        """Top-level, method (Class.f) or nested (f.g / Class.f.g) function node."""
        parts = qualname.split('.')
        for n in range(len(parts), 0, -1):
            head = '.'.join(parts[:n])
            if head in self.funcs:
                node = self.funcs[head]
                for p in parts[n:]:
                    node = next((c for c in ast.walk(node) if isinstance(c, ast.FunctionDef) and c.name == p
                                 and c is not node), None)
                    if node is None:
                        raise OutOfSubset("no nested function %s in %s" % (p, qualname))
                return node
        raise OutOfSubset("function %s not found in %s" % (qualname, self.relpath))


def conv_const(v):
    """Python literal -> engine value (floats become exact Fractions of their repr)."""
    if isinstance(v, bool) or v is None or isinstance(v, (int, str)):
        return v
    if isinstance(v, float):
        return Fraction(repr(v))
    if isinstance(v, tuple):
        return tuple(conv_const(x) for x in v)
    if isinstance(v, list):
        return [conv_const(x) for x in v]
    if isinstance(v, dict):
        return {conv_const(k): conv_const(x) for k, x in v.items()}
    if isinstance(v, (set, frozenset)):
        return frozenset(conv_const(x) for x in v)
    raise OutOfSubset("constant %r" % (v,))


def assigned_names(nodes):
    """Names (and attribute / subscript roots) possibly modified by a block: returns (names, attrs)
    attrs = set of (root_name, attr)."""
    names, attrs = set(), set()

    def target(t):
        if isinstance(t, ast.Name):
            names.add(t.id)
        elif isinstance(t, (ast.Tuple, ast.List)):
            for e in t.elts:
                target(e)
        elif isinstance(t, ast.Starred):
            target(t.value)
        elif isinstance(t, ast.Attribute):
            if isinstance(t.value, ast.Name):
                attrs.add((t.value.id, t.attr))
        elif isinstance(t, ast.Subscript):
            target(t.value)

    for n in nodes:
        for node in ast.walk(n):
            if isinstance(node, ast.Assign):
                for t in node.targets:
                    target(t)
            elif isinstance(node, (ast.AugAssign, ast.AnnAssign)):
                target(node.target)
            elif isinstance(node, ast.For):
                target(node.target)
            elif isinstance(node, ast.Delete):
                for t in node.targets:
                    target(t)
            elif isinstance(node, ast.Call):
                f = node.func
                # in-place mutators: x.append(..), x.remove(..), x.update(..), x.sort(..), x.reverse(), np.subtract(out=x)
                if isinstance(f, ast.Attribute) and f.attr in ('append', 'remove', 'update', 'sort', 'reverse',
                                                               'extend', 'add', 'translate', 'pop'):
                    target(f.value)
                for kw in node.keywords:
                    if kw.arg == 'out':
                        target(kw.value)
            elif isinstance(node, ast.comprehension):
                pass
    return names, attrs


SIMPLE_FORBIDDEN = (ast.Return, ast.Raise, ast.Break, ast.Continue, ast.For, ast.While, ast.Try, ast.With,
                    ast.FunctionDef, ast.Delete, ast.Assert)


def is_simple_block(stmts):
    for s in stmts:
        for n in ast.walk(s):
            if isinstance(n, SIMPLE_FORBIDDEN):
                return False
    return True


class Interp:
    def __init__(self, repo, reg=None, models=None, feasibility_timeout_ms=2000):
        self.repo = repo
        self.reg = reg or V.REG
        self.modules = {}
        self.models = dict(models or {})       # dotted library name / repo qualname -> model callable
        self.method_models = {}                # (value-type-name, method) handled in libmodels
        self.global_overrides = {}             # (relpath, name) -> value
        self.funcspecs = {}                    # 'relpath:qualname' -> FuncSpec
        self.obligations = {}
        self.ob_order = []
        self.feas_timeout = feasibility_timeout_ms
        self.no_inline = set()
        self.printed = []
        self.reset_path([])
        self.stats = {'paths': 0, 'branches': 0, 'feas_checks': 0}
        self.base_axioms = []                  # background axioms (total orders etc.)

    # ------------------------------------------------------------------ path management
    def reset_path(self, prefix):
        self.prefix = list(prefix)
        self.trace = []
        self.pc = []
        self.state = State()
        self.merge_depth = 0
        self.new_alts = []
        self.reg.counter = 0
        self.call_depth = 0
        self.effects = []        # recorded effects (C20 call traces)
        self.notes = {}          # per-path notes of models / loop cutting (attached to the PathResult)

    def mutated_in_place(self, value):
        """Was this (functionally modelled) list / dict / array value the receiver of an in-place mutation on the current path?"""
        return any(v is value for v in self.notes.get('mutated_in_place', []))

    def module(self, relpath):
        if relpath not in self.modules:
            self.modules[relpath] = Module(self.repo, relpath)
        return self.modules[relpath]

    def assume(self, cond):
        if isinstance(cond, bool):
            if not cond:
                raise PathAbort()
            return
        self.pc.append(cond)

    def oblige(self, name, goal, kind='safety', info=None):
        if isinstance(goal, bool):
            goal = z3.BoolVal(goal)
        key = (name, tuple(self.trace))
        if key in self.obligations:
            return
        full = name if not self.trace else name + "@" + ''.join(str(int(d)) for d in self.trace)
        hyps = list(self.pc)
        if z3.is_false(goal):
            # a structural obligation ("this path must not do X", and it did): what is left to decide is whether the path is reachable, and that is
            # decided the way the explorer decides it at every branch -- on the quantifier-free part of the path condition
            hyps = [h for h in hyps if not _has_quant(h)]
        ob = Obligation(full, hyps, goal, kind, info)
        ob.base = name
        self.obligations[key] = ob
        self.ob_order.append(key)

    def feasible(self, extra):
        self.stats['feas_checks'] += 1
        s = z3.Solver()
        s.set('timeout', self.feas_timeout)
        for c in self.pc:
            if not _has_quant(c):
                s.add(c)
        for a in self.reg.literal_axioms():
            s.add(a)
        for a in self.base_axioms:
            if not _has_quant(a):
                s.add(a)
        s.add(extra)
        return s.check() != z3.unsat

    def branch(self, cond):
        """Decide a symbolic condition.  Returns python bool and extends the path condition."""
        if isinstance(cond, bool):
            return cond
        cond = z3.simplify(cond)
        if z3.is_true(cond):
            return True
        if z3.is_false(cond):
            return False
        if self.merge_depth > 0:
            raise MergeFail()
        self.stats['branches'] += 1
        idx = len(self.trace)
        if idx < len(self.prefix):
            choice = self.prefix[idx]
        else:
            ft = self.feasible(cond)
            ff = self.feasible(z3.Not(cond))
            if ft and ff:
                choice = True
                self.new_alts.append(self.trace + [False])
            elif ft:
                choice = True
            elif ff:
                choice = False
            else:
                raise PathAbort()
        self.trace.append(choice)
        self.pc.append(cond if choice else z3.Not(cond))
        return choice

    def choose(self, n):
        """n-way non-deterministic choice (used by loop cutting)."""
        if self.merge_depth > 0:
            raise MergeFail()
        idx = len(self.trace)
        if idx < len(self.prefix):
            choice = self.prefix[idx]
        else:
            choice = 0
            for alt in range(n - 1, 0, -1):
                self.new_alts.append(self.trace + [alt])
        self.trace.append(choice)
        return choice

    def explore(self, thunk, max_paths=5000):
        """Run thunk() on every path.  Returns list of PathResult."""
        results = []
        pending = [[]]
        while pending:
            prefix = pending.pop()
            self.reset_path(prefix)
            self.stats['paths'] += 1
            if self.stats['paths'] > max_paths:
                raise OutOfSubset("more than %d paths" % max_paths)
            try:
                v = thunk()
                res = PathResult('return', v, list(self.pc), self.state, list(self.trace))
            except RaiseSig as r:
                res = PathResult('raise', r.exc, list(self.pc), self.state, list(self.trace))
            except LoopIterEnd:
                res = PathResult('loopend', None, list(self.pc), self.state, list(self.trace))
            except PathAbort:
                pending.extend(self.new_alts)
                continue
            res.effects = list(self.effects)
            res.notes = dict(self.notes)
            results.append(res)
            pending.extend(self.new_alts)
        return results

    # ------------------------------------------------------------------ environment
    def global_lookup(self, name, modctx):
        key = (modctx.relpath, name)
        if key in self.global_overrides:
            return self.global_overrides[key]
        if name in modctx.funcs:
            return Closure(modctx.funcs[name], [0], name, modctx)
        if name in modctx.consts:
            return conv_const(modctx.consts[name])
        if name in modctx.classes:
            return ModuleVal('class:' + name, {'__class__': name, '__module__': modctx})
        if name in modctx.imports:
            imp = modctx.imports[name]
            if imp[0] == 'module':
                return ModuleVal(imp[1])
            _, mod, attr = imp
            if mod and mod.startswith('mofun'):
                rel = mod.replace('.', '/') + '.py'
                if not os.path.exists(os.path.join(self.repo, rel)):
                    rel = mod.replace('.', '/') + '/__init__.py'
                if mod == 'mofun':
                    # package re-exports: from mofun.mofun import *, Atoms, ATOMIC_MASSES
                    for cand in ('mofun/mofun.py', 'mofun/atoms.py', 'mofun/atomic_masses.py'):
                        m = self.module(cand)
                        if attr in m.funcs or attr in m.consts or attr in m.classes:
                            return self.global_lookup(attr, m)
                    raise OutOfSubset("cannot resolve mofun.%s" % attr)
                m = self.module(rel)
                return self.global_lookup(attr, m)
            if (mod, attr) == ('math', 'pi'):
                pi = z3.Real('math.pi')
                self.base_axioms_once('pi', [pi > z3.RealVal('3.14159'), pi < z3.RealVal('3.1416')])
                return Sym(pi)
            return Builtin(mod + '.' + attr, None)
        if name in PY_BUILTINS:
            return Builtin(name, None)
        raise OutOfSubset("unbound name %s in %s" % (name, modctx.relpath))

    # ------------------------------------------------------------------ function calls
    def call_closure(self, clo, args, kwargs):
        """Inline a repo function."""
        node = clo.node
        key = "%s:%s" % (clo.module.relpath, clo.qualname)
        self.call_depth += 1
        if self.call_depth > 12:
            raise OutOfSubset("call depth")
        frame = {}
        a = node.args
        params = [p.arg for p in a.posonlyargs + a.args]
        defaults = a.defaults
        ndef = len(defaults)
        if len(args) > len(params) and not a.vararg:
            raise OutOfSubset("too many positional args for %s" % clo.qualname)
        for i, p in enumerate(params):
            if i < len(args):
                frame[p] = args[i]
            elif p in kwargs:
                frame[p] = kwargs.pop(p)
            else:
                di = i - (len(params) - ndef)
                if di < 0:
                    raise OutOfSubset("missing argument %s of %s" % (p, clo.qualname))
                frame[p] = self.eval_in(defaults[di], clo)
        if a.vararg:
            frame[a.vararg.arg] = tuple(args[len(params):])
        for i, p in enumerate(a.kwonlyargs):
            if p.arg in kwargs:
                frame[p.arg] = kwargs.pop(p.arg)
            else:
                frame[p.arg] = self.eval_in(a.kw_defaults[i], clo)
        if a.kwarg:
            frame[a.kwarg.arg] = dict(kwargs)
            kwargs = {}
        if kwargs:
            raise OutOfSubset("unexpected kwargs %s for %s" % (list(kwargs), clo.qualname))
        spec = self.funcspecs.get(key)
        for gname, make in (getattr(spec, 'ghost_locals', None) or {}).items():
            frame[gname] = make()          # ghost variables of the contract (never read or written by the real code; updated by models only)
        fid = self.state.new_frame(frame)
        ctx = ExecCtx(self, clo.module, key, clo.qualname, list(clo.frames) + [fid])
        try:
            try:
                ctx.exec_block(node.body)
                result = None
            except ReturnSig as r:
                result = r.value
        finally:
            self.call_depth -= 1
        return result

    def eval_in(self, expr, clo):
        return ExecCtx(self, clo.module, "", clo.qualname, list(clo.frames)).eval(expr)

    def block_ctx(self, relpath, qualname, env):
        """Context for executing a block (list of statements) of a real function with a given environment."""
        m = self.module(relpath)
        fid = self.state.new_frame(dict(env))
        return ExecCtx(self, m, "%s:%s" % (relpath, qualname), qualname, [0, fid])

    def closure_for(self, relpath, qualname):
        m = self.module(relpath)
        return Closure(m.find(qualname), [0], qualname, m)

    def base_axioms_once(self, key, axioms):
        done = self.__dict__.setdefault('_axiom_keys', set())
        if key not in done:
            done.add(key)
            self.base_axioms.extend(axioms)

    def fresh_int(self, base):
        return z3.Int(self.reg.fresh(base))

    def fresh_real(self, base):
        return z3.Real(self.reg.fresh(base))

    def fresh_like(self, v, base, havoc_type=None):
        if havoc_type is not None:
            return self.fresh_seq(base, havoc_type)
        if isinstance(v, Sym):
            return Sym(z3.Const(self.reg.fresh(base), v.e.sort()))
        if isinstance(v, bool):
            return Sym(z3.Bool(self.reg.fresh(base)))
        if isinstance(v, int):
            return Sym(z3.Int(self.reg.fresh(base)))
        if isinstance(v, Fraction):
            return Sym(z3.Real(self.reg.fresh(base)))
        if isinstance(v, str):
            return Sym(z3.Const(self.reg.fresh(base), StrS))
        if isinstance(v, SymSeq):
            n = z3.Int(self.reg.fresh(base + ".len"))
            self.assume(n >= 0)
            cols = [z3.Array(self.reg.fresh(base + ".c%d" % i), z3.IntSort(), c.range()) for i, c in enumerate(v.cols)]
            return SymSeq(n, cols, v.width, v.kind, base)
        if isinstance(v, SymOpt):
            return SymOpt(z3.Bool(self.reg.fresh(base + ".none")), self.fresh_like(v.val, base))
        if isinstance(v, SymSet):
            f = z3.Function(self.reg.fresh(base + ".in"), v.sort, z3.BoolSort())
            return SymSet(lambda x, f=f: f(x), v.sort, base)
        if isinstance(v, Opaque):
            return Opaque(z3.Const(self.reg.fresh(base), v.term.sort()), v.tag)
        if v is None:
            return None
        if isinstance(v, Ref):
            # the object stays the same object; its (non-dunder) fields become arbitrary
            heap = self.state.heap[v.oid]
            for k in list(heap):
                if k.startswith('__'):
                    continue
                try:
                    heap[k] = self.fresh_like(heap[k], "%s.%s" % (base, k))
                except OutOfSubset:
                    raise
            return v
        if type(v).__name__ == 'SymDictOfLists':
            return type(v).fresh(self, v.ksort, v.esort, base)
        if isinstance(v, RowVal):
            return RowVal([self.fresh_like(x, base + "[%d]" % i) for i, x in enumerate(v)], v.kind)
        if isinstance(v, (list, tuple)) and all(is_scalar(x) or isinstance(x, (list, tuple)) for x in v):
            # fixed-length container keeps its length (only valid if the loop does not resize it; checked by caller)
            items = [self.fresh_like(x, base + "[%d]" % i) for i, x in enumerate(v)]
            try:
                return type(v)(items)
            except TypeError:
                return items
        raise OutOfSubset("cannot havoc %r (give havoc_types)" % (v,))

    def name_seq(self, seq, base):
        """Fresh array constants equal to the (If / Store) terms of seq; the equalities are assumed."""
        cols = []
        for i, c in enumerate(seq.cols):
            if z3.is_const(c):
                cols.append(c)
                continue
            a = z3.Array(self.reg.fresh("%s_n%d" % (base, i)), z3.IntSort(), c.range())
            self.assume(a == c)
            cols.append(a)
        n = seq.length
        if not (z3.is_const(n) or z3.is_int_value(n)):
            n2 = z3.Int(self.reg.fresh(base + "_len"))
            self.assume(n2 == n)
            n = n2
        out = SymSeq(n, cols, seq.width, seq.kind, seq.name or base)
        for attr in ('distinct', 'sorted_from', 'deleted_from'):
            if hasattr(seq, attr):
                setattr(out, attr, getattr(seq, attr))
        return out

    def fresh_seq(self, base, etype, kind='list'):
        """etype: 'int' | 'real' | 'str' | 'bool' | ('tuple', [etypes]) | ('row', n, etype)"""
        n = z3.Int(self.reg.fresh(base + ".len"))
        self.assume(n >= 0)
        return SymSeq(n, *self._cols(base, etype), kind=kind, name=base)

    def _cols(self, base, etype):
        srt = {'int': z3.IntSort(), 'real': z3.RealSort(), 'str': StrS, 'bool': z3.BoolSort()}
        if isinstance(etype, str):
            return [z3.Array(self.reg.fresh(base), z3.IntSort(), srt[etype])], None
        if etype[0] == 'row':
            _, w, et = etype
            return [z3.Array(self.reg.fresh(base + ".c%d" % i), z3.IntSort(), srt[et]) for i in range(w)], w
        if etype[0] == 'tuple':
            return [z3.Array(self.reg.fresh(base + ".c%d" % i), z3.IntSort(), srt[et]) for i, et in enumerate(etype[1])], len(etype[1])
        raise OutOfSubset("element type %r" % (etype,))


def _has_quant(e):
    seen = set()
    stack = [e]
    while stack:
        x = stack.pop()
        if z3.is_quantifier(x):
            return True
        i = x.get_id()
        if i in seen:
            continue
        seen.add(i)
        stack.extend(x.children())
    return False


PY_BUILTINS = {'len', 'range', 'enumerate', 'zip', 'sorted', 'list', 'tuple', 'set', 'dict', 'max', 'min', 'abs',
               'round', 'float', 'int', 'str', 'isinstance', 'print', 'Exception', 'ValueError', 'reversed',
               'sum', 'any', 'all', 'hasattr', 'bool', 'IndexError', 'KeyError', 'AttributeError', 'open',
               'AssertionError', 'TypeError', 'getattr', 'setattr'}


from .execctx import ExecCtx  # noqa: E402  (circular by design)
