"""Small real linear algebra for block contracts about coordinates: one arbitrary row of an (N x 3) position array,
3 x 3 cell matrices, rotations as linear maps.  Array operations used by the verified statements are row-wise, so a
statement verified for an arbitrary single row holds for every row (stated in the evidence as an assumption on numpy
broadcasting)."""
import z3

from .values import Sym, RowVal, Ref, OutOfSubset, to_z3, is_scalar
from .interp import RaiseSig, ExcVal

R = z3.RealSort()


class MatVal(list):
    """2-D array: list of RowVal rows."""
    kind = 'ndarray'


class RotVal:
    """A scipy Rotation, modelled as a linear map given by a symbolic 3x3 matrix (properness is not needed for the
    identities proved here and is not assumed)."""

    def __init__(self, name):
        self.Q = [[z3.Real('%s_%d%d' % (name, i, j)) for j in range(3)] for i in range(3)]

    def apply_row(self, row):
        v = [to_z3(x, sort=R) for x in row]
        return RowVal([Sym(sum(self.Q[i][j] * v[j] for j in range(3))) for i in range(3)])


def sym_row(name):
    return RowVal([Sym(z3.Real('%s_%s' % (name, c))) for c in 'xyz'])


def sym_mat3(name):
    return MatVal([RowVal([Sym(z3.Real('%s_%d%d' % (name, i, j))) for j in range(3)]) for i in range(3)])


def matmul_rows(rows, M):
    """rows: list of 3-vectors; M: 3x3 -> row-vector times matrix."""
    out = []
    for r in rows:
        v = [to_z3(x, sort=R) for x in r]
        out.append(RowVal([Sym(sum(v[i] * to_z3(M[i][k], sort=R) for i in range(3))) for k in range(3)]))
    return out


def install(I):
    lib = I.lib

    def is_mat(v):
        return isinstance(v, MatVal) or (isinstance(v, list) and v and all(isinstance(r, RowVal) for r in v))

    def binop(ctx, op, a, b):
        if is_mat(a) and is_mat(b) and len(a) == len(b) and all(len(r) == 1 for r in b) and not all(len(r) == 1 for r in a):
            # (n, m) op (n, 1): each row of a combined with the single entry of the matching row of b
            return MatVal([RowVal([lib.binop(ctx, op, x, rb[0]) for x in ra]) for ra, rb in zip(a, b)])
        if is_mat(a) and isinstance(b, RowVal):
            return MatVal([lib.binop(ctx, op, r, b) for r in a])
        if isinstance(a, RowVal) and is_mat(b):
            return MatVal([lib.binop(ctx, op, a, r) for r in b])
        if is_mat(a) and is_mat(b) and len(a) == len(b):
            return MatVal([lib.binop(ctx, op, r, s) for r, s in zip(a, b)])
        if is_mat(a) and (is_scalar(b) or isinstance(b, (tuple, list))):
            return MatVal([lib.binop(ctx, op, r, b) for r in a])
        if is_mat(b) and is_scalar(a):
            return MatVal([lib.binop(ctx, op, a, r) for r in b])
        raise OutOfSubset("binary %s on %r and %r" % (op, type(a).__name__, type(b).__name__))
    I.models['matval.binop'] = binop

    def np_matmul(ctx, args, kwargs):
        a, b = args
        inv_of = getattr(b, 'inverse_of', None)
        if inv_of is not None and (is_mat(a) or isinstance(a, RowVal)):
            # ASSUMED contract of np.linalg.inv + np.matmul: x @ inv(C) are the fractional coordinates f of x:  f @ C == x
            rows = a if is_mat(a) else [a]
            out = []
            for r in rows:
                f = RowVal([Sym(z3.Real(I.reg.fresh('frac'))) for _ in range(3)])
                back = matmul_rows([f], inv_of)[0]
                for u, v in zip(back, r):
                    I.assume(to_z3(u, sort=R) == to_z3(v, sort=R))
                f.frac_of = (r, inv_of)
                out.append(f)
            I.reg.assumptions_used.add("numpy: x @ np.linalg.inv(C) is the vector f with f @ C == x (exact inverse, reals)")
            I._last_frac = out
            return MatVal(out) if is_mat(a) else out[0]
        if is_mat(a) and is_mat(b) and len(b) == 3:
            return MatVal(matmul_rows(a, b))
        if isinstance(a, RowVal) and is_mat(b) and len(b) == 3:
            return matmul_rows([a], b)[0]
        if is_mat(a) and len(a) == 3 and isinstance(b, (RowVal, tuple, list)) and len(b) == 3 and not is_mat(b):
            # matrix times column vector
            v = [to_z3(x, sort=R) if not isinstance(x, bool) else None for x in b]
            return RowVal([Sym(sum(to_z3(a[i][j], sort=R) * v[j] for j in range(3))) for i in range(3)])
        raise OutOfSubset("np.matmul of %r and %r" % (type(a).__name__, type(b).__name__))
    I.models['numpy.matmul'] = np_matmul

    def np_inv(ctx, args, kwargs):
        (C,) = args
        if not (is_mat(C) and len(C) == 3):
            raise OutOfSubset("np.linalg.inv of a non 3x3 value")
        name = I.reg.fresh('inv')
        Ci = sym_mat3(name)
        Ci.inverse_of = C
        ctx.I._last_inv = (C, Ci)
        return Ci
    I.models['numpy.linalg.inv'] = np_inv

    def np_reshape(ctx, args, kwargs):
        v, shape = args[0], args[1]
        if isinstance(v, (tuple, list)) and len(v) == 3 and tuple(shape) == (3, 1):
            return MatVal([RowVal([x]) for x in v])
        raise OutOfSubset("np.reshape(%r, %r)" % (v, shape))
    I.models['numpy.reshape'] = np_reshape

    def attr_T(ctx, obj):
        if is_mat(obj) and len(obj) == 3 and all(len(r) == 3 for r in obj):
            return MatVal([RowVal([obj[j][i] for j in range(3)]) for i in range(3)])
        return NotImplemented
    I.models['attr.T'] = attr_T

    def np_diag(ctx, args, kwargs):
        (C,) = args
        if is_mat(C) and len(C) == 3:
            return RowVal([C[i][i] for i in range(3)])
        raise OutOfSubset("np.diag of %r" % (C,))
    I.models['numpy.diag'] = np_diag

    def real_mod(ctx, a, b):
        """Python float modulo: a % b = a - b*floor(a/b) (sign of the divisor); requires b != 0."""
        ea, eb = to_z3(a, sort=R), to_z3(b, sort=R)
        if z3.is_rational_value(eb) and eb.numerator_as_long() == eb.denominator_as_long():
            return Sym(ea - z3.ToReal(z3.ToInt(ea)))
        q = z3.Int(I.reg.fresh('fl'))
        # q = floor(a / b) for b > 0:  q*b <= a < (q+1)*b ;  for b < 0: q*b >= a > (q+1)*b
        I.assume(z3.Implies(eb > 0, z3.And(z3.ToReal(q) * eb <= ea, ea < (z3.ToReal(q) + 1) * eb)))
        I.assume(z3.Implies(eb < 0, z3.And(z3.ToReal(q) * eb >= ea, ea > (z3.ToReal(q) + 1) * eb)))
        I.oblige("%s/safety/modulo-by-nonzero" % ctx.speckey, eb != 0, 'safety')
        return Sym(ea - z3.ToReal(q) * eb)
    I.models['real.Mod'] = real_mod

    def method_apply(ctx, recv, args, kwargs, f):
        if isinstance(recv, RotVal):
            x = args[0]
            if isinstance(x, RowVal):
                return recv.apply_row(x)
            if is_mat(x):
                return MatVal([recv.apply_row(r) for r in x])
            raise OutOfSubset("Rotation.apply of %r" % (x,))
        return NotImplemented
    I.models['method.apply'] = method_apply

    def deepcopy(ctx, args, kwargs):
        (ref,) = args
        if not isinstance(ref, Ref):
            raise OutOfSubset("deepcopy of %r" % (ref,))
        I.reg.assumptions_used.add("A4: copy.deepcopy returns a structurally equal object sharing nothing mutable with its source")
        return I.state.alloc(ref.cls, dict(I.state.heap[ref.oid]))
    I.models['copy.deepcopy'] = deepcopy
    # route MatVal arithmetic
    prev = I.models.get('binop.fallback')

    def fallback(ctx, op, a, b):
        if is_mat(a) or is_mat(b):
            return binop(ctx, op, a, b)
        if prev:
            return prev(ctx, op, a, b)
        raise OutOfSubset("binary %s on %r and %r" % (op, type(a).__name__, type(b).__name__))
    I.models['binop.fallback'] = fallback
