"""Assumed first-order contracts of the numpy / builtin primitives used by the Atoms algebra (DESIGN section 4).
Every axiom added here is an ASSUMPTION on the library; each is cross-checked natively against the installed
numpy by bounded/libaxioms.py.

Ghost functions attached to an integer sequence X (cached per sequence identity):
  mem_X(x)      membership, with witness wit_X:   mem_X(x) <=> 0 <= wit_X(x) < len X  and  X[wit_X(x)] == x
  cless_X(k, v) number of j < k with X[j] < v   (recursive in k)
"""
import ast
import z3

from .values import (Sym, SymOpt, SymSeq, SymSet, SmallSet, RowVal, Ref, Opaque, OutOfSubset, StrS, to_z3, is_scalar,
                     sort_of_value, truthy, zbool)
from .interp import RaiseSig, ExcVal

INT = z3.IntSort()


def seq_key(seq):
    return tuple(c.get_id() for c in seq.cols) + (seq.length.get_id(),)


class Ghosts:
    """Per-interpreter cache of ghost functions; reset at every path start (names are deterministic)."""

    def __init__(self, I):
        self.I = I
        self.cache = {}

    def get(self, kind, seq, build):
        key = (kind,) + seq_key(seq)
        if key not in self.cache:
            self.cache[key] = build()
        return self.cache[key]


def ghosts(I):
    g = getattr(I, '_ghosts', None)
    if g is None or g.path_id != I.stats['paths']:
        g = Ghosts(I)
        g.path_id = I.stats['paths']
        I._ghosts = g
    return g


def mem_of(I, seq):
    """Membership predicate of an integer (or Str) sequence with witness function; axioms assumed once per path."""
    if seq.width is not None:
        raise OutOfSubset("membership in a 2-D array")

    def build():
        srt = seq.elem_sort()
        mem = z3.Function(I.reg.fresh('mem_' + (seq.name or 'seq')), srt, z3.BoolSort())
        wit = z3.Function(I.reg.fresh('wit_' + (seq.name or 'seq')), srt, INT)
        j = z3.Int(I.reg.fresh('j'))
        x = z3.Const(I.reg.fresh('x'), srt)
        a = seq.cols[0]
        I.assume(z3.ForAll([j], z3.Implies(z3.And(j >= 0, j < seq.length), mem(z3.Select(a, j))), patterns=[z3.Select(a, j)]))
        I.assume(z3.ForAll([x], z3.Implies(mem(x), z3.And(wit(x) >= 0, wit(x) < seq.length, z3.Select(a, wit(x)) == x)),
                           patterns=[mem(x)]))
        return mem
    return ghosts(I).get('mem', seq, build)


def share_mem(I, src, dst):
    """dst has the same members as src (sorted / list copies)."""
    m = mem_of(I, src)
    ghosts(I).cache[('mem',) + seq_key(dst)] = m
    # the witness axioms for dst: every element of dst is a member, every member occurs in dst
    j = z3.Int(I.reg.fresh('j'))
    x = z3.Const(I.reg.fresh('x'), dst.elem_sort())
    wit = z3.Function(I.reg.fresh('wit_' + (dst.name or 'seq')), dst.elem_sort(), INT)
    a = dst.cols[0]
    I.assume(z3.ForAll([j], z3.Implies(z3.And(j >= 0, j < dst.length), m(z3.Select(a, j))), patterns=[z3.Select(a, j)]))
    I.assume(z3.ForAll([x], z3.Implies(m(x), z3.And(wit(x) >= 0, wit(x) < dst.length, z3.Select(a, wit(x)) == x)), patterns=[m(x)]))
    return m


def cless_of(I, seq):
    def build():
        f = z3.Function(I.reg.fresh('cless_' + (seq.name or 'seq')), INT, INT, INT)
        k, v = z3.Int(I.reg.fresh('k')), z3.Int(I.reg.fresh('v'))
        a = seq.cols[0]
        I.assume(z3.ForAll([v], f(0, v) == 0, patterns=[f(0, v)]))
        I.assume(z3.ForAll([k, v], z3.Implies(z3.And(k >= 0, k < seq.length),
                                               f(k + 1, v) == f(k, v) + z3.If(z3.Select(a, k) < v, 1, 0)),
                           patterns=[f(k + 1, v)]))
        I.assume(z3.ForAll([k, v], z3.Implies(z3.And(k >= 0, k <= seq.length), z3.And(f(k, v) >= 0, f(k, v) <= k)), patterns=[f(k, v)]))
        return f
    return ghosts(I).get('cless', seq, build)


class Mask:
    """Lazy element-wise boolean array: fn(p) -> list of z3 Bool per column (or single)."""

    def __init__(self, like, fn):
        self.like = like
        self.fn = fn


def seq_contains(ctx, cont, x):
    return mem_of(ctx.I, cont)(to_z3(x, sort=cont.elem_sort()))


def seq_compare(ctx, op, a, b):
    I = ctx.I
    if isinstance(a, SymSeq) and is_scalar(b):
        from .lib import Lib
        bz = b

        def fn(p, a=a):
            vals = a.get(p)
            vals = list(vals) if a.width is not None else [vals]
            out = []
            for v in vals:
                r = I.lib.order(ctx, op, v, bz) if op not in ('Eq', 'NotEq') else None
                out.append(zbool(r))
            return out
        return Mask(a, fn)
    raise OutOfSubset("comparison of symbolic arrays")


def np_any(ctx, args, kwargs):
    v = args[0]
    if kwargs:
        raise OutOfSubset("np.any with axis")
    if isinstance(v, (list, tuple)):
        ts = [truthy(x) for x in v]
        if any(t is True for t in ts):
            return True
        ts = [t for t in ts if t is not False]
        if not ts:
            return False
        return Sym(z3.Or(*ts) if len(ts) > 1 else ts[0])
    raise OutOfSubset("np.any of %r" % (v,))


def np_delete(ctx, args, kwargs):
    """np.delete(a, idx, axis=0): order-preserving removal of the rows whose index occurs in idx.
    Contract (monotone bijection src/dst between surviving rows and result positions), for idx entries in [0, len a)."""
    I = ctx.I
    a, idx = args[0], args[1]
    axis = kwargs.get('axis', args[2] if len(args) > 2 else None)
    if isinstance(idx, list):
        if len(idx) == 0:
            return a
        idx = I.lib.seq_from_concrete(ctx, idx, 'int', 'idx')
    if not isinstance(a, SymSeq) or not isinstance(idx, SymSeq):
        raise OutOfSubset("np.delete(%r, %r)" % (a, idx))
    if a.width is not None and axis != 0:
        raise OutOfSubset("np.delete on a 2-D array without axis=0")
    I.reg.assumptions_used.add("numpy: np.delete(a, idx, axis=0) removes exactly the rows whose index occurs in idx and keeps the others in order (monotone bijection src/dst); for distinct idx the survivor r moves to r - #{j: idx[j] < r}")
    mem = mem_of(I, idx)
    j = z3.Int(I.reg.fresh('j'))
    # precondition: indices valid (numpy raises IndexError otherwise) -- negative indices excluded
    I.oblige("%s/pre/np.delete-indices-in-range" % ctx.speckey,
             z3.ForAll([j], z3.Implies(z3.And(j >= 0, j < idx.length), z3.And(z3.Select(idx.cols[0], j) >= 0, z3.Select(idx.cols[0], j) < a.length)),
                       patterns=[z3.Select(idx.cols[0], j)]), 'pre')
    n = a.length

    # the position maps depend on the index list only (a surviving row r moves to r minus the number of distinct deleted indices below it,
    # whatever the length of the array), so arrays deleted with the same list share src / dst; the result length belongs to (n, idx)
    g = ghosts(I)
    kmaps = ('delete-maps',) + seq_key(idx)
    if kmaps not in g.cache:
        g.cache[kmaps] = (z3.Function(I.reg.fresh('src_' + (idx.name or 'idx')), INT, INT), z3.Function(I.reg.fresh('dst_' + (idx.name or 'idx')), INT, INT), cless_of(I, idx))
    src, dst, cl = g.cache[kmaps]

    def build():
        m = z3.Int(I.reg.fresh('dlen'))
        r, p, q = z3.Int(I.reg.fresh('r')), z3.Int(I.reg.fresh('p')), z3.Int(I.reg.fresh('q'))
        I.assume(m >= 0)
        I.assume(m <= n)
        I.assume(z3.ForAll([r], z3.Implies(z3.And(r >= 0, r < n, z3.Not(mem(r))),
                                            z3.And(dst(r) >= 0, dst(r) < m, src(dst(r)) == r)), patterns=[dst(r)]))
        I.assume(z3.ForAll([p], z3.Implies(z3.And(p >= 0, p < m),
                                            z3.And(src(p) >= 0, src(p) < n, z3.Not(mem(src(p))), dst(src(p)) == p)), patterns=[src(p)]))
        I.assume(z3.ForAll([p, q], z3.Implies(z3.And(p >= 0, p < q, q < m), src(p) < src(q)), patterns=[z3.MultiPattern(src(p), src(q))]))
        return (m, src, dst, cl)
    key = ('delete', n.get_id()) + seq_key(idx)
    if key not in g.cache:
        g.cache[key] = build()
    m, src, dst, cl = g.cache[key]
    cols = [z3.Array(I.reg.fresh((a.name or 'a') + '_del'), INT, c.range()) for c in a.cols]
    p = z3.Int(I.reg.fresh('p'))
    for c_new, c_old in zip(cols, a.cols):
        I.assume(z3.ForAll([p], z3.Implies(z3.And(p >= 0, p < m), z3.Select(c_new, p) == z3.Select(c_old, src(p))),
                           patterns=[z3.Select(c_new, p)]))
    res = SymSeq(m, cols, a.width, a.kind, (a.name or 'a') + '_del')
    res.deleted_from = (a, idx, src, dst)
    return res


def delete_maps(I, n, idx):
    """(m, src, dst, cless) of np.delete on an array of length n with index list idx (must have been called)."""
    key = ('delete', n.get_id()) + seq_key(idx)
    return ghosts(I).cache.get(key)


def assume_rank_form(I, n, idx):
    """ASSUMED numpy contract, rank form, valid for pairwise distinct idx: dst(r) = r - #{j: idx[j] < r}; m = n - len idx."""
    m, src, dst, cl = delete_maps(I, n, idx)
    mem = mem_of(I, idx)
    r = z3.Int(I.reg.fresh('r'))
    I.assume(z3.ForAll([r], z3.Implies(z3.And(r >= 0, r < n, z3.Not(mem(r))), dst(r) == r - cl(idx.length, r)), patterns=[dst(r)]))
    I.assume(m == n - idx.length)


def np_subtract(ctx, args, kwargs):
    """np.subtract(x, c, out=x, where=mask): in-place x[mask] -= c."""
    I = ctx.I
    x, c = args[0], args[1]
    out = kwargs.get('out')
    where = kwargs.get('where')
    if not (isinstance(x, SymSeq) and out is x and isinstance(where, Mask) and where.like is x and is_scalar(c)):
        raise OutOfSubset("np.subtract in an unmodelled form")
    I.reg.assumptions_used.add("numpy: np.subtract(x, c, out=x, where=m) subtracts c from exactly the entries where m holds")
    cols = [z3.Array(I.reg.fresh((x.name or 'x') + '_sub'), INT, col.range()) for col in x.cols]
    p = z3.Int(I.reg.fresh('p'))
    conds = where.fn(p)
    cz = to_z3(c)
    for cn, co, cond in zip(cols, x.cols, conds):
        I.assume(z3.ForAll([p], z3.Implies(z3.And(p >= 0, p < x.length),
                                            z3.Select(cn, p) == z3.If(cond, z3.Select(co, p) - cz, z3.Select(co, p))),
                           patterns=[z3.Select(cn, p)]))
    res = SymSeq(x.length, cols, x.width, x.kind, x.name)
    node = ctx.current_call
    for kw in node.keywords:
        if kw.arg == 'out':
            ctx.assign(kw.value, res)
    return res


def py_sorted(ctx, args, kwargs):
    """sorted(X, reverse=True/False): a permutation of X in order.  Exported: same length, same members,
    ordered, and the count of elements below any v is preserved (a consequence of being a permutation)."""
    I = ctx.I
    x = args[0]
    if isinstance(x, list):
        if len(x) == 0:
            return []
        x = I.lib.seq_from_concrete(ctx, x, 'int', 'lst')
    if not isinstance(x, SymSeq) or x.width is not None or 'key' in kwargs:
        raise OutOfSubset("sorted(%r)" % (x,))
    rev = kwargs.get('reverse', False)
    if not isinstance(rev, bool):
        raise OutOfSubset("sorted with symbolic reverse")
    I.reg.assumptions_used.add("python: sorted(X, reverse=r) is a permutation of X in (weakly) descending/ascending order: same length, same members, for every v the number of elements < v is unchanged; distinct inputs give a strictly ordered result")
    y = SymSeq(x.length, [z3.Array(I.reg.fresh('sorted'), INT, x.elem_sort())], None, 'list', 'sorted_' + (x.name or 'x'))
    share_mem(I, x, y)
    j = z3.Int(I.reg.fresh('j'))
    i2 = z3.Int(I.reg.fresh('i'))
    a = y.cols[0]
    strict = getattr(x, 'distinct', False)
    if rev:
        ordr = (z3.Select(a, j) > z3.Select(a, i2)) if strict else (z3.Select(a, j) >= z3.Select(a, i2))
    else:
        ordr = (z3.Select(a, j) < z3.Select(a, i2)) if strict else (z3.Select(a, j) <= z3.Select(a, i2))
    I.assume(z3.ForAll([j, i2], z3.Implies(z3.And(j >= 0, j < i2, i2 < y.length), ordr),
                       patterns=[z3.MultiPattern(z3.Select(a, j), z3.Select(a, i2))]))
    cx, cy = cless_of(I, x), cless_of(I, y)
    v = z3.Int(I.reg.fresh('v'))
    I.assume(z3.ForAll([v], cy(y.length, v) == cx(x.length, v), patterns=[cy(y.length, v)]))
    y.distinct = strict
    y.sorted_from = x
    return y


def install(I):
    I.models['seq.contains'] = seq_contains
    I.models['seq.compare'] = seq_compare
    I.models['numpy.any'] = np_any
    I.models['numpy.delete'] = np_delete
    I.models['numpy.subtract'] = np_subtract
    I.models['sorted'] = py_sorted


def np_append(ctx, args, kwargs):
    """np.append(a, b) for 1-D sequences (or axis=0 for rows): concatenation."""
    I = ctx.I
    a, b = args[0], args[1]
    axis = kwargs.get('axis', args[2] if len(args) > 2 else None)
    if isinstance(a, list) and not a:
        a = None
    if not (isinstance(a, SymSeq) and isinstance(b, SymSeq) and len(a.cols) == len(b.cols)):
        raise OutOfSubset("np.append(%r, %r)" % (a, b))
    if a.width is not None and axis != 0:
        raise OutOfSubset("np.append of 2-D arrays without axis=0 (flattening)")
    I.reg.assumptions_used.add("numpy: np.append(a, b[, axis=0]) is the concatenation a ++ b")
    n = a.length + b.length
    cols = [z3.Array(I.reg.fresh((a.name or 'a') + '_app'), INT, c.range()) for c in a.cols]
    p = z3.Int(I.reg.fresh('p'))
    for cn, ca, cb in zip(cols, a.cols, b.cols):
        I.assume(z3.ForAll([p], z3.Implies(z3.And(p >= 0, p < n), z3.Select(cn, p) == z3.If(p < a.length, z3.Select(ca, p), z3.Select(cb, p - a.length))),
                           patterns=[z3.Select(cn, p)]))
    res = SymSeq(n, cols, a.width, 'ndarray', (a.name or 'a') + '_app')
    res.appended = (a, b)
    return res


def py_max_seq(ctx, seq):
    """max(seq) for a non-empty integer sequence."""
    I = ctx.I
    if not isinstance(seq, SymSeq) or seq.width is not None:
        raise OutOfSubset("max of %r" % (seq,))
    I.oblige("%s/safety/max-of-non-empty" % ctx.speckey, seq.length > 0, 'safety')
    m = z3.Int(I.reg.fresh('max'))
    j = z3.Int(I.reg.fresh('j'))
    w = z3.Int(I.reg.fresh('argmax'))
    I.assume(z3.ForAll([j], z3.Implies(z3.And(j >= 0, j < seq.length), z3.Select(seq.cols[0], j) <= m), patterns=[z3.Select(seq.cols[0], j)]))
    I.assume(z3.And(w >= 0, w < seq.length, z3.Select(seq.cols[0], w) == m))
    return Sym(m)


_install_prev = install


def install(I):
    _install_prev(I)
    I.models['numpy.append'] = np_append
    I.models['max.seq'] = py_max_seq
