"""Text as an abstract data type: str methods as uninterpreted functions over the sort Str (values.StrS).

Used by the contract of the line reader of Atoms.load_lmpdat (C13).  What is interpreted: equality of strings, distinctness of literals,
the value of str.strip on literals.  Everything else (substring test, split, join, %-formatting, concatenation, float()) is an uninterpreted
FUNCTION of its arguments: a contract over these models can state which text a value is computed from and how (data flow, dispatch, frames),
not what the characters are.  Recorded as an assumption whenever a model is used.

Values:
  Tokens(s)        the list s.split() of a symbolic string s           (tup)
  TokSlice(s, lo)  tup[lo:]
A list of token lists (atoms.append(tup)) is represented by the list of the strings they are the tokens of (split is a function).
"""
import z3
from .values import Sym, SymSeq, StrS, to_z3, OutOfSubset

INT = z3.IntSort()


class Tokens:
    def __init__(self, s):
        self.s = s          # z3 term of sort Str

    def __repr__(self):
        return "Tokens(%s)" % (self.s,)


class TokSlice:
    def __init__(self, s, lo):
        self.s, self.lo = s, lo

    def __repr__(self):
        return "TokSlice(%s, %d)" % (self.s, self.lo)


def tok(reg, s, i):
    return reg.ufunc('token', StrS, INT, StrS)(s, z3.IntVal(i))


def has_sub(reg, needle, s):
    return reg.ufunc('has_substring', StrS, StrS, z3.BoolSort())(to_z3(needle, reg, StrS), s)


def before(reg, sep, s):
    return reg.ufunc('text_before', StrS, StrS, StrS)(to_z3(sep, reg, StrS), s)


def after(reg, sep, s):
    return reg.ufunc('text_after', StrS, StrS, StrS)(to_z3(sep, reg, StrS), s)


def joined(reg, sep, s, lo):
    return reg.ufunc('join_tokens_from', StrS, StrS, INT, StrS)(to_z3(sep, reg, StrS), s, z3.IntVal(lo))


def concat(reg, a, b):
    return reg.ufunc('concat', StrS, StrS, StrS)(to_z3(a, reg, StrS), to_z3(b, reg, StrS))


def is_str(v):
    return isinstance(v, str) or (isinstance(v, Sym) and v.e.sort() == StrS)


def install(I):
    reg = I.reg
    used = I.reg.assumptions_used
    NOTE = ("text theory: substring test, split, join, %-formatting, concatenation and float() of symbolic strings are uninterpreted total functions "
            "of their arguments (what is proved is which text a value is computed from and how, not its characters); IndexError / ValueError of "
            "lines with too few tokens or more than one '#' are not modelled (precondition: a LAMMPS data file)")

    def str_contains(ctx, cont, x):
        # x in cont, cont symbolic
        if not is_str(x):
            raise OutOfSubset("substring test with %r" % (x,))
        used.add(NOTE)
        return has_sub(reg, x, to_z3(cont, reg, StrS))
    I.models['str.contains'] = str_contains

    def str_split(ctx, recv, args):
        used.add(NOTE)
        s = to_z3(recv, reg, StrS)
        if len(args) == 0:
            return Tokens(s)
        if len(args) == 1 and isinstance(args[0], str):
            # at most one separator in the line (else the two-name unpacking of the reader raises ValueError: not modelled)
            return [Sym(before(reg, args[0], s)), Sym(after(reg, args[0], s))]
        raise OutOfSubset("split%r" % (tuple(args),))
    I.models['str.split'] = str_split

    def get_tokens(ctx, cont, idx):
        if idx[0] == 'index' and isinstance(idx[1], int) and idx[1] >= 0:
            return Sym(tok(reg, cont.s, idx[1]))
        if idx[0] == 'slice':
            _, lo, hi, st = idx
            if st is None and isinstance(lo, int) and lo >= 0 and hi is None:
                return TokSlice(cont.s, lo)
            if st is None and isinstance(lo, int) and isinstance(hi, int) and 0 <= lo <= hi:
                return [Sym(tok(reg, cont.s, i)) for i in range(lo, hi)]
        raise OutOfSubset("index %r into a token list" % (idx,))
    I.models['getitem:Tokens'] = get_tokens
    prev_join = I.models.get('method.join')

    def m_join(ctx, recv, args, kwargs, f):
        if isinstance(recv, str) and len(args) == 1 and isinstance(args[0], (TokSlice, Tokens)):
            used.add(NOTE)
            x = args[0]
            return Sym(joined(reg, recv, x.s, x.lo if isinstance(x, TokSlice) else 0))
        if prev_join:
            return prev_join(ctx, recv, args, kwargs, f)
        return NotImplemented
    I.models['method.join'] = m_join
    prev_append = I.models.get('method.append')

    def m_append(ctx, recv, args, kwargs, f):
        if isinstance(recv, SymSeq) and recv.width is None and recv.cols[0].range() == StrS and len(args) == 1:
            x = args[0]
            if isinstance(x, Tokens):
                e = x.s                       # a list of token lists is represented by the strings they are the tokens of
            elif x is None:
                e = none_text(reg)
            elif is_str(x):
                e = to_z3(x, reg, StrS)
            else:
                raise OutOfSubset("append of %r to a list of texts" % (x,))
            I.lib.rebind(ctx, f, SymSeq(recv.length + 1, [z3.Store(recv.cols[0], recv.length, e)], None, recv.kind, recv.name))
            return None
        if prev_append:
            return prev_append(ctx, recv, args, kwargs, f)
        return NotImplemented
    I.models['method.append'] = m_append
    prev_binop = I.models.get('binop.fallback')

    def binop(ctx, op, a, b):
        if op == 'Add' and is_str(a) and is_str(b):
            used.add(NOTE)
            return Sym(concat(reg, a, b))
        if prev_binop:
            return prev_binop(ctx, op, a, b)
        raise OutOfSubset("binary %s on %r and %r" % (op, type(a).__name__, type(b).__name__))
    I.models['binop.fallback'] = binop


def none_text(reg):
    """The value None where a text is expected (a reserved literal, distinct from every literal of the program)."""
    return reg.strlit('\x00None')
