"""Check driver:  python3-vt bin/check <Cxx> [quick|thorough]

exit 0 held / 1 violation (VIOLATION line) / 2 undecided / 3 checker error.   See DESIGN.md section 5.
"""
import importlib
import json
import os
import re
import subprocess
import sys
import time
import traceback

ROOT = os.path.dirname(os.path.dirname(os.path.abspath(__file__)))
REPO = os.environ.get('MOFUN_REPO', '/repo')
VENV_PY = os.environ.get('MOFUN_PY', '/venv/bin/python')


def load_known():
    known, fixed = [], []
    p = os.path.join(ROOT, 'known_findings.txt')
    if os.path.exists(p):
        for line in open(p):
            line = line.strip()
            if not line or line.startswith('#'):
                continue
            m = re.match(r'known:\s+property=(\S+)\s+key=(\S+)\s+(.*)', line)
            if m:
                known.append({'property': m.group(1), 'key': m.group(2), 'text': m.group(3)})
            elif line.startswith('fixed:'):
                fixed.append(line)
    return known, fixed


def write_replay(prop, name, payload):
    d = os.path.join(os.environ.get('PYVC_OUT_DIR', ROOT), 'replays', prop)
    os.makedirs(d, exist_ok=True)
    fn = re.sub(r'[^A-Za-z0-9_.@-]+', '_', name)[:150] + '.json'
    path = os.path.join(d, fn)
    with open(path, 'w') as f:
        json.dump(payload, f, indent=1, default=str)
    return path


def run_replay(path):
    """Replays on the real code (same tree).  Returns (reproduced: bool|None, output)."""
    try:
        p = subprocess.run([VENV_PY, os.path.join(ROOT, 'bin', 'replay'), path], capture_output=True, text=True,
                           timeout=600, env=dict(os.environ, MOFUN_REPO=REPO))
    except subprocess.TimeoutExpired:
        return None, 'replay timed out'
    out = (p.stdout + p.stderr)[-3000:]
    if p.returncode == 1:
        return True, out
    if p.returncode == 0:
        return False, out
    return None, out


def run_bounded(prop, tier, seed):
    """Bounded stand-in / exhaustive stage on the real code under /venv/bin/python."""
    script = os.path.join(ROOT, 'bounded', prop + '.py')
    if not os.path.exists(script):
        return None
    t0 = time.time()
    try:
        p = subprocess.run([VENV_PY, os.path.join(ROOT, 'bounded', 'run.py'), prop, tier, str(seed)], capture_output=True,
                           text=True, timeout=3000 if tier == 'thorough' else 900,
                           env=dict(os.environ, MOFUN_REPO=REPO, PYTHONPATH=REPO))
    except subprocess.TimeoutExpired:
        # not finishing is not a verdict about the code and not a defect of the checker: UNDECIDED (e.g. a changed replication factor that makes
        # the structures thousands of times larger)
        return {'timeout': 'bounded stage did not finish within %d s' % (3000 if tier == 'thorough' else 900), 'wall_s': time.time() - t0}
    lines = [l for l in p.stdout.splitlines() if l.startswith('BOUNDED-JSON ')]
    if not lines:
        return {'error': 'bounded stage produced no result (exit %d): %s' % (p.returncode, (p.stdout + p.stderr)[-2000:]),
                'wall_s': time.time() - t0}
    r = json.loads(lines[-1][len('BOUNDED-JSON '):])
    r['wall_s'] = round(time.time() - t0, 2)
    return r


def main(argv):
    if len(argv) < 2:
        print(__doc__)
        return 3
    prop = argv[1]
    tier = argv[2] if len(argv) > 2 else os.environ.get('VERIF_TIER', 'quick')
    if tier not in ('quick', 'thorough'):
        tier = 'quick'
    seed = int(os.environ.get('VERIF_SEED', '0') or 0)
    t0 = time.time()
    sys.path.insert(0, ROOT)
    from pyvc.harness import Suite
    from pyvc import solve
    from pyvc.values import OutOfSubset

    evidence_path = os.path.join(os.environ.get('PYVC_OUT_DIR', ROOT), 'evidence', prop + '.json')
    os.makedirs(os.path.dirname(evidence_path), exist_ok=True)
    known, fixed = load_known()
    known = [k for k in known if k['property'] == prop]

    violations = []      # dicts: key, text, replay
    undecided = []
    checker_errors = []
    known_hits = []

    meta = None
    S = Suite(prop, REPO, tier, seed)
    try:
        mod = importlib.import_module('contracts.' + prop)
        meta = getattr(mod, 'META', {})
        if not os.environ.get('PYVC_SKIP_DEDUCTIVE'):      # self-tests only (seed fuzzing of the bounded stage); registered commands never set it
            mod.build(S)
    except OutOfSubset as e:
        S.undecided.append(('build', 'out of subset: %s' % e))
    except Exception:
        checker_errors.append('contract build crashed:\n' + traceback.format_exc())
    meta = meta or {}

    timeout_ms = int(os.environ.get('PYVC_TIMEOUT_MS', '0')) or (60000 if tier == 'thorough' else 15000)
    results = []
    solver_ms = 0
    try:
        results = S.discharge(timeout_ms)
    except Exception:
        checker_errors.append('solver stage crashed:\n' + traceback.format_exc())
    finally:
        solve.shutdown()

    reproduced_keys = set()
    duplicates = {}
    n_proof = n_discharged = n_canary = 0
    per_ob = []
    by_fn = {}
    for g in S.goals:
        r = g.result or {'verdict': 'unknown', 'reason': 'not run', 'ms': 0, 'backend': '-'}
        solver_ms += r.get('ms', 0)
        per_ob.append({'name': g.ob.name, 'kind': g.ob.kind, 'verdict': r['verdict'], 'backend': r.get('backend'),
                       'ms': r.get('ms', 0), **({'z3_config': r['config'], 'slice': r.get('slice')} if r.get('config') is not None else {})})
        if g.expect == 'sat':
            n_canary += 1
            if r['verdict'] == 'unsat':
                checker_errors.append('vacuity: path condition of %s is unsatisfiable (canary discharged)' % g.ob.name)
            continue
        n_proof += 1
        if r['verdict'] == 'unsat':
            n_discharged += 1
            continue
        base_key = re.sub(r'(#\d+|@\d+|\[\d+\])', '', g.ob.name)
        if (r['verdict'] == 'sat' or r.get('candidate_model')) and base_key in reproduced_keys:
            duplicates[base_key] = duplicates.get(base_key, 0) + 1
            continue
        if r['verdict'] == 'sat' or r.get('candidate_model'):
            payload = {'property': prop, 'obligation': g.ob.name, 'solver': r.get('backend'),
                       'solver_verdict': r['verdict'], 'model': r.get('model'), 'goal': str(g.ob.goal)[:4000],
                       'tree': REPO}
            rin = None
            if g.replay is not None and r.get('model') is not None:
                try:
                    rin = g.replay(r['model'])
                except Exception:
                    rin = None
                    payload['replay_build_error'] = traceback.format_exc()
            if rin is not None:
                payload.update(rin)
                path = write_replay(prop, g.ob.name, payload)
                rep, out = run_replay(path)
                payload['replay_output'] = out
                json.dump(payload, open(path, 'w'), indent=1, default=str)
                if rep is True:
                    reproduced_keys.add(base_key)
                    violations.append({'deductive': True, 'base_key': base_key, 'key': rin.get('key', base_key), 'text': '%s fails: %s' % (g.ob.name, rin.get('what', '')),
                                       'replay': path, 'suffix': ''})
                    continue
                if rep is False and r['verdict'] == 'sat' and not rin.get('generic'):
                    # the counter-model does not reproduce: it exploited an under-constrained assumption
                    undecided.append((g.ob.name, 'counter-model did not reproduce on the real code'))
                    continue
                # (a replay marked 'generic' is a fixed scenario for the commonest way the obligation fails, not the solver's model: when it does
                # not fail, the refuted obligation is still reported -- below -- as a violation without a failing input)
            if r['verdict'] == 'sat':
                path = write_replay(prop, g.ob.name, payload)
                reproduced_keys.add(base_key)
                violations.append({'key': base_key, 'text': 'obligation %s refuted by %s' % (g.ob.name, r.get('backend')),
                                   'replay': path, 'suffix': ' no-failing-input-found', 'pending_bounded': True})
            else:
                undecided.append((g.ob.name, r.get('reason', 'unknown')))
        else:
            undecided.append((g.ob.name, r.get('reason', 'unknown') or 'unknown'))

    for w, why in S.undecided:
        undecided.append((w, why))

    # vacuity: at least one obligation per function under contract
    if not checker_errors and not S.undecided and n_proof == 0 and not meta.get('deductive_optional') and not os.environ.get('PYVC_SKIP_DEDUCTIVE'):
        checker_errors.append('zero proof obligations generated')

    # ---------------------------------------------------------------- bounded / exhaustive stage
    # PYVC_SKIP_BOUNDED=1 is for the self-tests only (shows what the deductive stage alone decides); registered commands never set it
    bounded = None if os.environ.get('PYVC_SKIP_BOUNDED') else run_bounded(prop, tier, seed)
    if bounded is not None:
        if bounded.get('timeout'):
            undecided.append(('bounded stage', bounded['timeout']))
        if bounded.get('error'):
            checker_errors.append('bounded stage: ' + bounded['error'])
        for f in bounded.get('failures', []):
            payload = {'property': prop, 'obligation': f.get('contract', 'bounded'), 'kind': f['kind'], 'input': f['input'],
                       'what': f.get('what', ''), 'stage': 'bounded', 'tree': REPO,
                       'undischarged_obligations_of_this_run': [u[0] for u in undecided][:25]}
            path = write_replay(prop, 'bounded_' + f.get('key', f['kind']), payload)
            violations.append({'key': f.get('key', f['kind']), 'text': f.get('what', ''), 'replay': path, 'suffix': ''})
        # a failing input found by the bounded stage supersedes "no-failing-input-found"
        if any(not v.get('pending_bounded') for v in violations):
            pass

    # ---------------------------------------------------------------- known findings
    final_viol = []
    n_known_obligations = 0
    for v in violations:
        hit = next((k for k in known if k['key'] == v['key']), None)
        if hit:
            known_hits.append(hit)
            if v.get('deductive'):
                n_known_obligations += 1 + duplicates.get(v.get('base_key'), 0)
        else:
            final_viol.append(v)
    # obligations that fail exactly as a listed known finding are reported separately, not as undischarged proof obligations
    n_proof -= n_known_obligations
    seen = set()
    for k in known_hits:
        if k['key'] in seen:
            continue
        seen.add(k['key'])
        print("KNOWN-FINDING: property=%s %s" % (prop, k['text']))
    for k in known:
        if k['key'] not in seen:
            print("NOTE: known finding %s of %s was not observed in this run (%s)" % (k['key'], prop, k['text']))

    # ---------------------------------------------------------------- evidence
    wall = time.time() - t0
    level = meta.get('level', 'proof')
    cov = {
        'obligations': n_proof,
        'discharged': n_discharged,
        'checker_cmd': 'python3-vt bin/check %s %s  (VCs generated from %s by pyvc, discharged by z3 %s / cvc5 1.0.3)' % (
            prop, tier, REPO, __import__('z3').get_version_string()),
        'trusted_base': sorted(set(S.assumptions + meta.get('trusted_base', []))),
        'functions_under_contract': S.functions,
        'vacuity_canaries': n_canary,
        'obligations_failing_as_known_findings': n_known_obligations,
        'solver_ms_total': solver_ms,
        'per_obligation': per_ob if len(per_ob) <= 400 else per_ob[:400] + [{'truncated': len(per_ob) - 400}],
        'slowest_obligations': [{'name': o['name'], 'ms': o['ms'], 'verdict': o['verdict'], 'z3_config': o.get('z3_config'), 'slice': o.get('slice')}
                                for o in sorted(per_ob, key=lambda o: -o.get('ms', 0))[:12]],
        'solver_budget_ms': timeout_ms,
        'clauses': S.clauses or meta.get('clauses', {}),
        'undecided': [list(u) for u in undecided],
        'known_findings_observed': [k['key'] for k in known_hits],
        'fixed_findings': [f for f in fixed if ('property=%s ' % prop) in f],
        'explanation': meta.get('explanation', ''),
        'samples': [{'obligation': g.ob.name, 'goal': str(g.ob.goal)[:600], 'hyps': len(g.ob.hyps),
                     'verdict': (g.result or {}).get('verdict')} for g in S.goals[:3]],
    }
    # mechanical scan: every place where a hypothesis enters without proof (preconditions, assumed library / callee contracts, ghost definitions)
    scan = {}
    used = sorted({os.path.relpath(getattr(m, '__file__', '') or '', ROOT) for n_, m in list(sys.modules.items())
                   if (n_.startswith('pyvc.models_') or n_.startswith('contracts.')) and getattr(m, '__file__', None)})
    for rel in used:
        try:
            src = open(os.path.join(ROOT, rel)).read()
        except OSError:
            continue
        n = len(re.findall(r'\.assume\(|base_axioms\.append\(|base_axioms_once\(', src))
        if n:
            scan[rel] = n
    cov['assume_call_sites'] = scan
    if bounded is not None:
        cov['bounded'] = {k: v for k, v in bounded.items() if k not in ('failures',)}
        cov['evaluations'] = int(bounded.get('evaluations', 0))
        cov['distinct_nontrivial'] = int(bounded.get('distinct_nontrivial', 0))
        cov['rule'] = bounded.get('rule', '')
        if bounded.get('samples'):
            cov['samples'] = cov['samples'] + bounded['samples'][:3]
        if bounded.get('exhaustive') is not None:
            cov['exhaustive'] = bool(bounded.get('exhaustive'))
    ev = {
        'property_id': prop, 'tier': tier, 'seed': seed, 'level': level, 'coverage': cov,
        'assumptions': sorted(set(S.assumptions + meta.get('assumptions', []))),
        'wall_s': round(wall, 2), 'violations': len(final_viol),
    }
    with open(evidence_path, 'w') as f:
        json.dump(ev, f, indent=1, default=str)

    # ---------------------------------------------------------------- verdict
    n_refuted = sum(1 for g in S.goals if g.expect == 'unsat' and (g.result or {}).get('verdict') == 'sat')
    print("%s %s: %d/%d obligations discharged, %d canaries, bounded evaluations=%s, %.1fs" % (
        prop, tier, n_discharged, n_proof, n_canary, (bounded or {}).get('evaluations', '-'), wall))
    if n_refuted or undecided:
        print("deductive stage: %d obligations refuted by the solver, %d undecided; bounded stage: %d failing inputs" % (
            n_refuted, len(undecided), len((bounded or {}).get('failures', []))))
    if checker_errors:
        for c in checker_errors:
            print("CHECKER-ERROR property=%s %s" % (prop, c))
    if final_viol:
        shown = set()
        for v in final_viol:
            if v['key'] in shown:
                continue
            shown.add(v['key'])
            extra = duplicates.get(v['key'], 0)
            print("# %s%s" % (v['text'][:400], (" (+%d more failing obligations of the same kind)" % extra) if extra else ""))
            print("VIOLATION property=%s replay=%s%s" % (prop, v['replay'], v['suffix']))
        return 1
    if checker_errors:
        return 3
    if undecided:
        for w, why in undecided[:40]:
            print("UNDECIDED property=%s obligation=%s reason=%s" % (prop, w, str(why)[:300]))
        return 2
    return 0


if __name__ == '__main__':
    sys.exit(main(sys.argv))
