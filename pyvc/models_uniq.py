"""Assumed contracts of Python's first-seen de-duplication idiom over symbolic sequences:

    unique = list(dict.fromkeys(xs).keys())         distinct elements of xs in first-occurrence order
    unique.index(x)                                 the position of x in that list (ValueError if absent)

Elements are scalars or fixed-shape tuples of scalars (hashable values compared with ==)."""
import z3

from .values import Sym, SymSeq, RowVal, OutOfSubset, to_z3, flatten

INT = z3.IntSort()


class FirstSeen:
    def __init__(self, I, X):
        self.X = X
        n = X.length
        sorts = [c.range() for c in X.cols]
        m = z3.Int(I.reg.fresh('n_unique'))
        U = SymSeq(m, [z3.Array(I.reg.fresh('unique.c%d' % i), INT, s) for i, s in enumerate(sorts)], X.width, 'list', 'unique')
        U.shape = X.shape
        mem = z3.Function(I.reg.fresh('is_key'), *(sorts + [z3.BoolSort()]))
        idx = z3.Function(I.reg.fresh('key_index'), *(sorts + [INT]))
        src = z3.Function(I.reg.fresh('first_at'), INT, INT)
        self.U, self.mem, self.idx, self.src, self.m = U, mem, idx, src, m
        U.uniq = self
        i, u, v = z3.Int(I.reg.fresh('fi')), z3.Int(I.reg.fresh('fu')), z3.Int(I.reg.fresh('fv'))
        xs = [z3.Const(I.reg.fresh('fx'), s) for s in sorts]
        Xi = [z3.Select(c, i) for c in X.cols]
        Uu = [z3.Select(c, u) for c in U.cols]
        eq = lambda a, b: z3.And(*[p == q for p, q in zip(a, b)])
        I.reg.assumptions_used.add("list(dict.fromkeys(xs).keys()) = the distinct elements of xs in first-occurrence order; list.index(x) = position of x (ValueError if absent)")
        I.assume(z3.And(m >= 0, m <= n, z3.Implies(n > 0, m > 0)))
        I.assume(z3.ForAll([i], z3.Implies(z3.And(i >= 0, i < n), mem(*Xi)), patterns=[Xi[0]]))
        I.assume(z3.ForAll(xs, z3.Implies(mem(*xs), z3.And(idx(*xs) >= 0, idx(*xs) < m, eq([z3.Select(c, idx(*xs)) for c in U.cols], xs))), patterns=[mem(*xs)]))
        I.assume(z3.ForAll(xs, z3.Implies(mem(*xs), z3.And(idx(*xs) >= 0, idx(*xs) < m, eq([z3.Select(c, idx(*xs)) for c in U.cols], xs))), patterns=[idx(*xs)]))
        I.assume(z3.ForAll([u], z3.Implies(z3.And(u >= 0, u < m), z3.And(mem(*Uu), idx(*Uu) == u, src(u) >= 0, src(u) < n,
                                                                         eq([z3.Select(c, src(u)) for c in X.cols], Uu))), patterns=[Uu[0]]))
        I.assume(z3.ForAll([u], z3.Implies(z3.And(u >= 0, u < m), z3.And(mem(*Uu), idx(*Uu) == u, src(u) >= 0, src(u) < n,
                                                                         eq([z3.Select(c, src(u)) for c in X.cols], Uu))), patterns=[src(u)]))
        I.assume(z3.ForAll([u, v], z3.Implies(z3.And(u >= 0, u < v, v < m), src(u) < src(v)), patterns=[z3.MultiPattern(src(u), src(v))]))
        I.assume(z3.ForAll([u, i], z3.Implies(z3.And(u >= 0, u < m, i >= 0, i < src(u)), z3.Not(eq(Xi, Uu))), patterns=[z3.MultiPattern(src(u), Xi[0])]))

    def cols_of(self, x):
        if self.X.shape is not None:
            return flatten(x, self.X.shape)
        if self.X.width is None:
            return [to_z3(x, sort=self.X.cols[0].range())]
        return [to_z3(v, sort=c.range()) for v, c in zip(x, self.X.cols)]


def install(I):
    def fromkeys(ctx, args, kwargs):
        if len(args) == 1 and isinstance(args[0], SymSeq) and not kwargs:
            return FirstSeen(I, args[0])
        raise OutOfSubset("dict.fromkeys of %r" % (args,))

    prev_keys = I.models.get('method.keys')

    def keys(ctx, recv, args, kwargs, f):
        if isinstance(recv, FirstSeen) and not args:
            return recv
        if prev_keys is not None:
            return prev_keys(ctx, recv, args, kwargs, f)
        return NotImplemented

    prev_list = I.models.get('list.fallback')

    def list_(ctx, v):
        if isinstance(v, FirstSeen):
            return v.U
        if prev_list is not None:
            return prev_list(ctx, v)
        raise OutOfSubset("list(%r)" % (v,))

    def index(ctx, recv, args, kwargs, f):
        fs = getattr(recv, 'uniq', None)
        if not isinstance(recv, SymSeq) or fs is None or len(args) != 1 or kwargs:
            return NotImplemented
        xs = fs.cols_of(args[0])
        I.oblige("%s/safety/list.index-value-present" % ctx.speckey, fs.mem(*xs), 'safety')
        return Sym(fs.idx(*xs))

    I.models['dict.fromkeys'] = fromkeys
    I.models['method.keys'] = keys
    I.models['list.fallback'] = list_
    I.models['method.index'] = index
