"""C17 bounded stage: detect_bonds on the real code against the minimum-image covalent-radius rule computed independently."""
import itertools, random
import numpy as np
from bounded.common import quiet
from bounded import geo


def spec_cutoff(e1, e2):
    from specs.bond_tables import COVALENT_RADII, NON_METALS
    return COVALENT_RADII[e1] + COVALENT_RADII[e2] + (0.45 if (e1 in NON_METALS or e2 in NON_METALS) else 0.0)


def min_image(cell, a, b):
    if cell is None:
        return float(np.linalg.norm(np.asarray(a) - np.asarray(b)))
    d = geo.frac(cell, np.asarray(a) - np.asarray(b))
    d -= np.round(d)
    best = 1e9
    for s in itertools.product([-2, -1, 0, 1, 2], repeat=3):          # independent: 125 images
        best = min(best, float(np.linalg.norm((d + s).dot(cell))))
    return best


def expected_bonds(els, pos, cell):
    out = []
    for i in range(len(els)):
        for j in range(i + 1, len(els)):
            if min_image(cell, pos[i], pos[j]) < spec_cutoff(els[i], els[j]):
                out.append((i, j))
    return out


SKEW = {'skew1': np.array([[20., 0, 0], [12., 6., 0], [0, 0, 20.]]), 'skew2': np.array([[20., 0, 0], [17., 6., 0], [3., 2., 18.]])}


def build_special(spec):
    """Targeted placements: (a) strongly skewed cells with fractional separations near +-0.5 on two axes; (b) an all-non-metal structure with
    a through-face bond split unevenly (lower-indexed atom 1.5-1.95 A inside, partner almost on the opposite face)."""
    from mofun import Atoms
    rnd = random.Random(spec['seed'])
    if spec['special'] == 'skew':
        cell = SKEW[spec['cell']]
        els, pos = [], []
        for e1, e2 in (('Cs', 'Cs'), ('Cs', 'I'), ('Ba', 'Rb'), ('Cs', 'Ba')):
            cut = spec_cutoff(e1, e2)
            f1 = np.array([rnd.random(), rnd.random(), rnd.random()])
            for sgn in ((0.5, -0.5, 0.0), (-0.5, 0.5, 0.0), (0.5, 0.5, 0.0), (0.5, -0.5, 0.5)):
                d = np.array(sgn) + np.array([rnd.uniform(-0.04, 0.04) for _ in range(3)])
                p1 = f1.dot(cell)
                p2 = (f1 + d).dot(cell)
                els += [e1, e2]
                pos += [geo.wrap(cell, p1 + np.array([7.0 * len(pos), 0, 0])), geo.wrap(cell, p2 + np.array([7.0 * len(pos), 0, 0]))]
        with quiet():
            return Atoms(elements=els, positions=np.array(pos), cell=cell), els, np.array(pos), cell
    if spec['special'] == 'molecule-ends':
        # no cell: heavy atoms (cutoffs above 3 A) at the two ends of an elongated molecule -- far apart, nothing to do with each other
        e1, e2 = spec['elements']
        L = spec_cutoff(e1, e2) + spec.get('extra', 3.5)
        ax = spec.get('axis', 0)
        pos = [np.zeros(3), np.zeros(3), np.zeros(3), np.zeros(3)]
        pos[1][ax] = L
        pos[2][ax] = L / 2.0
        pos[2][(ax + 1) % 3] = 0.3
        pos[3][ax] = L / 2.0 + 1.0
        pos[3][(ax + 2) % 3] = -0.2
        els = [e1, e2, 'C', 'H']
        off = np.array([rnd.uniform(-5, 5) for _ in range(3)])
        pos = np.array(pos) + off
        with quiet():
            return Atoms(elements=els, positions=pos), els, pos, None
    cell = geo.CELLS['cubic']
    els, pos = [], []
    for k, (depth, dist) in enumerate([(1.55, 1.9), (1.9, 1.95), (1.7, 1.96), (0.2, 1.9), (1.0, 1.5)]):
        y, z = 3.0 + 3.5 * k, 4.0 + 2.5 * k
        pos += [np.array([depth, y, z]), geo.wrap(cell, np.array([depth - dist, y, z]))]
        els += spec.get('elements', ['C', 'C'])
    with quiet():
        return Atoms(elements=els, positions=np.array(pos), cell=cell), els, np.array(pos), cell


def build(spec):
    from mofun import Atoms
    if spec.get('special'):
        return build_special(spec)
    rnd = random.Random(spec['seed'])
    cell = None if spec['cell'] is None else geo.CELLS[spec['cell']]
    els, pos = [], []
    pool = spec.get('elements', ['C', 'H', 'O', 'Zr', 'Cu', 'N'])
    box = np.diag([20., 20., 20.]) if cell is None else cell
    for k in range(spec['pairs']):
        e1, e2 = rnd.choice(pool), rnd.choice(pool)
        cut = spec_cutoff(e1, e2)
        f = np.array([rnd.random(), rnd.random(), rnd.random()])
        if spec.get('straddle') and cell is not None:
            ax = rnd.sample(range(3), rnd.choice([1, 2, 3]))
            for a in ax:
                f[a] = rnd.choice([0.004, 0.996])
        p1 = f.dot(box)
        u = np.array([rnd.gauss(0, 1) for _ in range(3)])
        u /= np.linalg.norm(u)
        dist = cut + rnd.choice([-1e-6, 1e-6, -0.2, 0.3, -1e-3])
        p2 = p1 + dist * u
        if cell is not None:
            p1, p2 = geo.wrap(cell, p1), geo.wrap(cell, p2)
        els += [e1, e2]
        pos += [p1, p2]
    with quiet():
        return Atoms(elements=els, positions=np.array(pos), cell=cell), els, np.array(pos), cell


def check(spec):
    from mofun.detect_bonds import detect_bonds
    a, els, pos, cell = build(spec)
    with quiet():
        try:
            got = [tuple(int(v) for v in b) for b in detect_bonds(a)]
        except Exception as e:
            return "detect_bonds raised %r" % (e,)
    want = expected_bonds(els, pos, cell)
    if got != want:
        extra, missing = sorted(set(got) - set(want)), sorted(set(want) - set(got))
        if not extra and not missing:
            return "bonds reported in a different order or more than once: %r" % (got,)
        return "detected bonds differ from the rule: unexpected %r, missing %r" % (extra[:4], missing[:4])
    if spec.get('then') and cell is not None:
        # the same object analysed again after its cell was changed / a supercell made of it: the answer is that of the structure as it is then
        with quiet():
            if spec['then'] == 'new-cell':
                a.cell = np.asarray(cell) * np.array([[1.0], [1.25], [1.1]])
                els2, pos2, cell2, b = els, pos, np.asarray(a.cell, dtype=float), a
            else:
                b = a.replicate((2, 1, 1))
                els2, pos2, cell2 = list(b.elements), np.asarray(b.positions, dtype=float), np.asarray(b.cell, dtype=float)
            try:
                got2 = [tuple(int(v) for v in x) for x in detect_bonds(b)]
            except Exception as e:
                return "second detect_bonds raised %r" % (e,)
        want2 = expected_bonds(els2, pos2, cell2)
        if got2 != want2:
            return "after %s: detected bonds differ from the rule: unexpected %r, missing %r" % (spec['then'], sorted(set(got2) - set(want2))[:4], sorted(set(want2) - set(got2))[:4])
    t = spec.get('transform')
    if t and cell is not None:
        from mofun import Atoms
        rnd = random.Random(spec['seed'] + 1)
        if t == 'shift':
            v = np.array([rnd.uniform(-30, 30) for _ in range(3)])
            with quiet():
                b = Atoms(elements=els, positions=geo.wrap(cell, pos + v), cell=cell)
                got2 = [tuple(int(x) for x in bb) for bb in detect_bonds(b)]
            if got2 != got:
                return "bonding changes when the structure is shifted by %r and wrapped: %r vs %r" % (list(np.round(v, 3)), got2[:5], got[:5])
        else:
            perm = list(range(len(els)))
            rnd.shuffle(perm)
            with quiet():
                b = Atoms(elements=[els[i] for i in perm], positions=pos[perm], cell=cell)
                got2 = {tuple(sorted((perm[int(x)], perm[int(y)]))) for x, y in detect_bonds(b)}
            if got2 != set(got):
                return "bonding does not follow the renaming when atoms are reordered"
    return None


def check_cutoff(e1, e2):
    from mofun.detect_bonds import max_bond_length
    g, w = max_bond_length(e1, e2), spec_cutoff(e1, e2)
    if g != w or max_bond_length(e2, e1) != g:
        return "max_bond_length(%s, %s) = %r, rule gives %r" % (e1, e2, g, w)
    return None


def check_equal(inp):
    from mofun import Atoms
    from mofun.detect_bonds import detect_bonds
    e1, e2 = inp['elements']
    c = float(spec_cutoff(e1, e2))
    p2 = np.zeros(3)
    p2[inp['axis']] = c
    if float(np.sqrt((p2 ** 2).sum())) != c:
        return 'skip'
    kw = {} if inp['cell'] is None else {'cell': geo.CELLS['cubic'] * 1.0}
    with quiet():
        st = Atoms(elements=[e1, e2], positions=np.array([[0., 0, 0], list(p2)]), **kw)
        got = [tuple(int(x) for x in b) for b in detect_bonds(st)]
    if got:
        return "%s and %s at a distance of exactly the cutoff %r are reported as bonded %r (bonded means below the cutoff)" % (e1, e2, c, got)
    return None


def check_offsets(cellname):
    """uc_neighbor_offsets(cell) is the set { i*A + j*B + k*C : i, j, k in {-1, 0, 1} }, each once (27 rows)."""
    from mofun.mofun import uc_neighbor_offsets
    cell = np.asarray(geo.CELLS[cellname] if cellname in geo.CELLS else SKEW[cellname], dtype=float)
    got = np.asarray(uc_neighbor_offsets(cell), dtype=float).reshape(-1, 3)
    want = [i * cell[0] + j * cell[1] + k * cell[2] for i in (-1, 0, 1) for j in (-1, 0, 1) for k in (-1, 0, 1)]
    if len(got) != 27:
        return "uc_neighbor_offsets returns %d vectors, expected 27" % len(got)
    for w in want:
        if sum(1 for g in got if np.allclose(g, w, atol=1e-9)) != 1:
            return "image offset %r is missing or repeated among the neighbour offsets of cell %s" % (list(np.round(w, 4)), cellname)
    return None


def replay(inp):
    if inp.get('special') == 'offsets':
        msg = check_offsets(inp['cell'])
        return (msg is not None), (msg or 'the 27 image offsets are the lattice vectors i*A + j*B + k*C')
    if inp.get('special') == 'equal-cutoff':
        msg = check_equal(inp)
        return (msg not in (None, 'skip')), (msg or 'not bonded at exactly the cutoff')
    msg = check_cutoff(inp['el1'], inp['el2']) if 'el1' in inp else check(inp)
    return (msg is not None), (msg or 'agrees with the rule')


REPLAY = {'bonds': replay, 'cutoff': replay}


def run(rec, tier, seed):
    from mofun.detect_bonds import COVALENT_RADII
    rec.rule = ("max_bond_length on all 97x97 element pairs (exhaustive); detect_bonds on generated structures: 2-8 atoms, 3 cells + no cell, pairs "
                "placed at exactly the cutoff, at cutoff +/- 1e-6, -1e-3, -0.2, +0.3, through faces/edges/corners, metal/non-metal mixes; compared with an independent "
                "minimum-image computation over 125 images; shift-and-wrap and reorder invariance. distinct = specs")
    for e1 in COVALENT_RADII:
        for e2 in COVALENT_RADII:
            msg = check_cutoff(e1, e2)
            rec.case(('cut', e1, e2), group='cutoff')
            if msg:
                rec.fail('cutoff', 'max_bond_length', msg, {'el1': e1, 'el2': e2}, 'C17/max_bond_length/post')
    # a pair whose distance EQUALS the cutoff (exactly, in floating point) is not "below" it: not bonded
    for (e1, e2) in (('C', 'C'), ('C', 'H'), ('Zn', 'O'), ('Cu', 'Cu'), ('Zr', 'O'), ('Si', 'Si'), ('Fe', 'N'), ('H', 'H')):
        for axis in range(3):
            for cellname in (None, 'cubic'):
                inp = {'special': 'equal-cutoff', 'elements': [e1, e2], 'axis': axis, 'cell': cellname}
                msg = check_equal(inp)
                if msg == 'skip':
                    continue
                rec.case(('equal', e1, e2, axis, cellname), group='distance-equals-cutoff')
                if msg:
                    rec.fail('bonds', 'detect_bonds', msg, inp, 'C17/detect_bonds/post')
    for cname in SKEW:
        for sd in range(3 if tier == 'quick' else 12):
            spec = dict(special='skew', cell=cname, seed=seed * 100 + sd)
            msg = check(spec)
            rec.case(repr(sorted(spec.items())), group='skewed-cell')
            if msg:
                rec.fail('bonds', 'detect_bonds-skew', "%s on %r" % (msg, spec), spec, 'C17/detect_bonds/post')
    for elements in (['C', 'C'], ['C', 'H'], ['O', 'H'], ['Si', 'Si'], ['S', 'C']):
        for t in (None, 'shift', 'perm'):
            spec = dict(special='uneven-face', elements=elements, seed=seed, transform=t, cell='cubic')
            msg = check(spec)
            rec.case(repr(sorted(spec.items(), key=str)), group='uneven-through-face')
            if msg:
                rec.fail('bonds', 'detect_bonds-face', "%s on %r" % (msg, spec), spec, 'C17/detect_bonds/post')
    for cname in list(geo.CELLS) + list(SKEW):
        msg = check_offsets(cname)
        rec.case(('offsets', cname), group='image-offsets')
        if msg:
            rec.fail('bonds', 'image-offsets', msg, {'special': 'offsets', 'cell': cname}, 'C17/uc_neighbor_offsets')
    for (e1, e2) in (('I', 'I'), ('K', 'O'), ('Cs', 'Cs'), ('Ba', 'I'), ('Rb', 'Cl')):
        for axis in range(3):
            for extra in (2.9, 3.5):
                spec = dict(special='molecule-ends', elements=[e1, e2], axis=axis, extra=extra, seed=seed + axis)
                msg = check(spec)
                rec.case(repr(sorted(spec.items(), key=str)), group='molecule-without-cell')
                if msg:
                    rec.fail('bonds', 'detect_bonds', "%s on %r" % (msg, spec), spec, 'C17/detect_bonds/post')
    for cell in ('cubic', 'tri+', 'tri-'):
        for then in ('new-cell', 'supercell'):
            for sd in range(2 if tier == 'quick' else 6):
                spec = dict(cell=cell, pairs=3, seed=seed * 1000 + 500 + sd, straddle=True, transform=None, then=then)
                msg = check(spec)
                rec.case(repr(sorted(spec.items(), key=str)), group='analysed-again')
                if msg:
                    rec.fail('bonds', 'detect_bonds', "%s on %r" % (msg, spec), spec, 'C17/detect_bonds/post')
    nseed = 6 if tier == 'quick' else 40
    for cell in (None, 'cubic', 'tri+', 'tri-'):
        for pairs in (1, 2, 4):
            for s in range(nseed):
                for straddle in (False, True):
                    for t in (None, 'shift', 'perm'):
                        if tier == 'quick' and t and s % 2:
                            continue
                        spec = dict(cell=cell, pairs=pairs, seed=seed * 1000 + s * 7 + pairs, straddle=straddle, transform=t)
                        msg = check(spec)
                        rec.case(repr(sorted(spec.items(), key=str)), group='detect', sample=spec if len(rec.samples) < 3 else None)
                        if msg:
                            rec.fail('bonds', 'detect_bonds', "%s on %r" % (msg, spec), spec, 'C17/detect_bonds/post')
