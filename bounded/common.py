"""Recorder shared by the bounded / exhaustive harnesses (run under /venv/bin/python on the real code)."""
import contextlib, io, os, sys, json


class Rec:
    def __init__(self, prop, tier, seed):
        self.prop, self.tier, self.seed = prop, tier, seed
        self.evaluations = 0
        self.distinct = set()
        self.samples = []
        self.failures = []
        self.rule = ''
        self.bounds = {}
        self.exhaustive = None
        self.error = None
        self.counts = {}

    def case(self, key, nontrivial=True, sample=None, group=None):
        self.evaluations += 1
        if nontrivial:
            self.distinct.add(key if isinstance(key, (str, int, tuple)) else repr(key))
        if group:
            self.counts[group] = self.counts.get(group, 0) + 1
        if sample is not None and len(self.samples) < 6:
            self.samples.append(sample)

    def fail(self, kind, key, what, input, contract=None):
        if len(self.failures) < 20 and not any(f['key'] == key for f in self.failures):
            self.failures.append({'kind': kind, 'key': key, 'what': what, 'input': input, 'contract': contract or kind})

    def result(self):
        r = {'evaluations': self.evaluations, 'distinct_nontrivial': len(self.distinct), 'rule': self.rule,
             'samples': self.samples, 'failures': self.failures, 'bounds': self.bounds, 'groups': self.counts,
             'label': 'BOUNDED stand-in / EXHAUSTIVE enumeration on the real code; never counted as proved'}
        if self.exhaustive is not None:
            r['exhaustive'] = self.exhaustive
        if self.error:
            r['error'] = self.error
        return r


@contextlib.contextmanager
def quiet():
    """mofun prints warnings and debug text; keep the harness output clean."""
    so, se = sys.stdout, sys.stderr
    sys.stdout, sys.stderr = io.StringIO(), io.StringIO()
    try:
        yield
    finally:
        sys.stdout, sys.stderr = so, se
