"""C20 bounded stage: the command line (click, in-process) against the same steps through the API with the same random seed."""
import io, os, random, shutil, tempfile, traceback
import numpy as np
from bounded.common import quiet
from bounded import geo, repl


def cml_text(els, xyz, bonds=()):
    lines = ['<molecule>', ' <atomArray>']
    for i, (e, p) in enumerate(zip(els, xyz)):
        lines.append('  <atom id="a%d" elementType="%s" x3="%r" y3="%r" z3="%r"/>' % (i + 1, e, float(p[0]), float(p[1]), float(p[2])))
    lines += [' </atomArray>', ' <bondArray>']
    for i, j in bonds:
        lines.append('  <bond atomRefs2="a%d a%d" order="1"/>' % (i + 1, j + 1))
    lines += [' </bondArray>', '</molecule>']
    return "\n".join(lines) + "\n"


def setup_files(d, spec):
    """Writes the input structure (cif / lmpdat / cml + cell file), the find and replace patterns, a charge file."""
    from mofun import Atoms
    rnd = random.Random(spec['seed'])
    pair = spec['pair']
    se, sx, re_, rx = repl.PAIRS[pair]
    case = geo.build(spec.get('cell', 'ortho'), None, spec.get('copies', 3), rnd, decoys=spec.get('decoys', 2), noise=spec.get('noise', 0.0), pattern_override=(se, sx))
    S = case['structure']
    paths = {}
    fmt = spec['infmt']
    with quiet():
        if fmt == 'cif':
            paths['input'] = os.path.join(d, 'in.cif')
            S.save(paths['input'])
        elif fmt == 'lmpdat':
            paths['input'] = os.path.join(d, 'in.lmpdat')
            S.save(paths['input'])
        else:
            paths['input'] = os.path.join(d, 'in.cml')
            open(paths['input'], 'w').write(cml_text(S.elements, S.positions))
            paths['cellfile'] = os.path.join(d, 'cell.cif')
            S.save(paths['cellfile'])
    paths['find'] = os.path.join(d, 'find.cml')
    open(paths['find'], 'w').write(cml_text(list(se), sx, [(i, i + 1) for i in range(len(se) - 1)]))
    if len(re_):
        paths['replace'] = os.path.join(d, 'replace.cml')
        open(paths['replace'], 'w').write(cml_text(list(re_), rx, [(i, i + 1) for i in range(len(re_) - 1)]))
    n = len(S.positions)
    paths['charges'] = os.path.join(d, 'charges.txt')
    open(paths['charges'], 'w').write("\n".join("%.4f" % (0.01 * i - 0.05) for i in range(n)) + "\n\n")
    paths['out'] = os.path.join(d, 'out.' + spec['outfmt'])
    paths['out_api'] = os.path.join(d, 'out_api.' + spec['outfmt'])
    return paths, n


def run_cli(paths, spec, seed):
    from click.testing import CliRunner
    from mofun.cli.mofun_cli import mofun_cli
    args = [paths['input'], paths['out']]
    o = spec['opts']
    if spec['infmt'] == 'cml':
        args += ['--extract-uc', paths['cellfile']]
    if o.get('find'):
        args += ['-f', paths['find']]
    if o.get('replace') and 'replace' in paths:
        args += ['-r', paths['replace']]
    if 'atol' in o:
        args += ['--atol', str(o['atol'])]
    if 'fraction' in o:
        args += ['-p', str(o['fraction'])]
    for k, flag in (('ap1', '-ap1'), ('ap2', '-ap2'), ('op', '-op')):
        if k in o:
            args += [flag, str(o[k])]
    if 'replicate' in o:
        args += ['--replicate'] + [str(x) for x in o['replicate']]
    if 'mic' in o:
        args += ['--mic', str(o['mic'])]
    if o.get('charges'):
        args += ['-q', paths['charges']]
    if o.get('pp'):
        args += ['--pp']
    if 'framework_element' in o:
        args += ['--framework-element', o['framework_element']]
    random.seed(seed)
    np.random.seed(seed)
    r = CliRunner().invoke(mofun_cli, args)
    return r, args


def run_api(paths, spec, seed, natoms):
    """load, overrides (cell, charges), replicate, minimum-image replication, pair parameters, find / replace, save -- as the documentation says."""
    from mofun import Atoms, replace_pattern_in_structure, find_pattern_in_structure
    from mofun.uff4mof import UFF4MOF
    from specs import uff_spec as SP
    o = spec['opts']
    random.seed(seed)
    np.random.seed(seed)
    atoms = Atoms.load(paths['input'])
    if spec['infmt'] == 'cml':
        atoms.cell = Atoms.load(paths['cellfile']).cell
    if o.get('charges'):
        atoms.charges = np.array([float(l) for l in open(paths['charges']).read().split()])
    if 'replicate' in o:
        atoms = atoms.replicate(tuple(o['replicate']))
    if 'mic' in o:
        reps = np.array(np.ceil(2 * o['mic'] / np.diag(atoms.cell)), dtype=int)
        atoms = atoms.replicate(reps)
    if o.get('pp'):
        keys = [[k for k in UFF4MOF if k.startswith(el.ljust(2, '_'))][0] for el in atoms.atom_type_elements]
        atoms.pair_coeffs = ['%10.6f %10.6f # %s' % (SP.pair(UFF4MOF, k)[0], SP.pair(UFF4MOF, k)[1], k) for k in keys]
        atoms.atom_type_labels = keys
    found = None
    if o.get('find'):
        sp = Atoms.load(paths['find'])
        if o.get('replace') and 'replace' in paths:
            rp = Atoms.load(paths['replace'])
            kw = {}
            if 'atol' in o:
                kw['atol'] = o['atol']
            if 'fraction' in o:
                kw['replace_fraction'] = o['fraction']
            for k, name in (('ap1', 'axisp1_idx'), ('ap2', 'axisp2_idx'), ('op', 'opoint_idx')):
                if k in o:
                    kw[name] = o[k]
            atoms = replace_pattern_in_structure(atoms, sp, rp, **kw)
        else:
            found = find_pattern_in_structure(atoms, sp, **({'atol': o['atol']} if 'atol' in o else {}))
    atoms.save(paths['out_api'])
    return found


def check(spec):
    d = tempfile.mkdtemp(prefix='c20_')
    try:
        with quiet():
            paths, n = setup_files(d, spec)
        seed = spec.get('rng', 1)
        if spec.get('prior_pair'):
            # an earlier invocation in the same process with OTHER patterns behind the same file names; then the files are rewritten
            with quiet():
                prior = dict(spec, pair=spec['prior_pair'])
                paths0, _ = setup_files(d, prior)
                run_cli(paths0, prior, seed)
                paths, n = setup_files(d, spec)
        with quiet():
            r, args = run_cli(paths, spec, seed)
        shown = ' '.join(os.path.basename(a) if os.sep in a else a for a in args)
        if r.exception is not None and not isinstance(r.exception, SystemExit):
            return "the command line raised %r (mofun %s)" % (r.exception, shown)
        if r.exit_code != 0:
            return "the command line exited with %d: %s" % (r.exit_code, r.output[-200:])
        try:
            with quiet():
                found = run_api(paths, spec, seed, n)
        except Exception as e:
            return "the API sequence raised %r" % (e,)
        if not os.path.exists(paths['out']):
            return "no output file was written (mofun %s)" % shown
        a, b = open(paths['out']).read(), open(paths['out_api']).read()
        if a != b:
            la, lb = a.splitlines(), b.splitlines()
            k = next((i for i in range(min(len(la), len(lb))) if la[i] != lb[i]), min(len(la), len(lb)))
            return "output of `mofun %s` differs from the API sequence at line %d: %r vs %r (%d / %d lines)" % (
                shown, k + 1, la[k] if k < len(la) else None, lb[k] if k < len(lb) else None, len(la), len(lb))
        if found is not None:
            want = "Found %d instances of the search_pattern in the structure" % len(found)
            if want not in r.output or str(found) not in r.output:
                return "find-only run reports %r, the API finds %d matches %r" % (r.output[-200:], len(found), found)
        return None
    finally:
        shutil.rmtree(d, ignore_errors=True)


def replay(inp):
    msg = check(inp)
    return (msg is not None), (msg or 'command line and API agree')


REPLAY = {'cli': replay}


def run(rec, tier, seed):
    rec.rule = ("click CliRunner (real option parsing, real files in a temporary directory) vs the API sequence load -> overrides -> replicate -> minimum-image "
                "replication -> pair parameters -> find / replace -> save with the same random seeds; byte comparison of the written files and of the printed "
                "matches; generated planted structures (also with distorted copies); input {cif, lmpdat, cml + --extract-uc} x output {lmpdat, cif}; a non-default "
                "value for every documented option incl. hint index 0, replicate + mic together, fraction < 1 with symmetric patterns. distinct = specs")
    base = [
        dict(pair='grow-planar', opts=dict(find=True, replace=True)),
        dict(pair='grow-planar', opts=dict(find=True, replace=True, atol=0.12), noise=0.03),
        dict(pair='grow-planar', opts=dict(find=True, replace=True, fraction=0.5)),
        dict(pair='sym-grow', opts=dict(find=True, replace=True, fraction=0.5), copies=4),
        dict(pair='sym-grow', opts=dict(find=True, replace=True), copies=3),
        dict(pair='shrink-shared', opts=dict(find=True, replace=True, ap1=0, ap2=2, op=3, atol=0.1), noise=0.025),
        dict(pair='shrink-shared', opts=dict(find=True, replace=True, ap1=1, ap2=0, op=2, atol=0.1), noise=0.025),
        dict(pair='shrink-shared', opts=dict(find=True, replace=True, ap1=3, ap2=1, op=0, atol=0.1), noise=0.025),
        dict(pair='swap-element', opts=dict(find=True, replace=True, replicate=[2, 1, 1])),
        dict(pair='swap-element', opts=dict(find=True, replace=True, mic=11.0)),
        dict(pair='swap-element', opts=dict(find=True, replace=True, replicate=[1, 2, 1], mic=11.0)),
        dict(pair='swap-element', opts=dict(find=True, replace=True, charges=True)),
        dict(pair='swap-element', opts=dict(find=True, replace=True, pp=True), outfmts=['lmpdat']),
        dict(pair='swap-element', opts=dict(find=True)),
        dict(pair='sym-grow', opts=dict(find=True, atol=0.08)),
        dict(pair='swap-element', opts=dict()),
        dict(pair='swap-element', opts=dict(replicate=[1, 1, 2], charges=True)),
        # twice the cutoff is exactly one cell length (c = 24): that axis is long enough as it is
        dict(pair='swap-element', opts=dict(find=True, replace=True, mic=12.0)),
        # a structure of a single atom (one ion per cell), replicated, with a one-line charge file
        dict(pair='single-swap', opts=dict(find=True, replace=True, replicate=[2, 1, 1], charges=True), copies=1, decoys=0),
        dict(pair='single-swap', opts=dict(charges=True), copies=1, decoys=0),
        # no --atol: the default is the API's default (copies distorted by up to 0.045 A per coordinate: some are within 0.05, some are not)
        dict(pair='swap-element', opts=dict(find=True, replace=True), noise=0.045, copies=5),
        dict(pair='swap-element', opts=dict(find=True), noise=0.045, copies=5),
        # pair potentials for elements whose symbol is a prefix of other symbols
        dict(pair='bsi-swap', opts=dict(find=True, replace=True, pp=True), outfmts=['lmpdat']),
        dict(pair='bsi-swap', opts=dict(pp=True), outfmts=['lmpdat']),
        # a second invocation in the same process with rewritten pattern files behind the same names
        dict(pair='grow-planar', opts=dict(find=True, replace=True), prior_pair='swap-element'),
        dict(pair='sym-grow', opts=dict(find=True), prior_pair='swap-element'),
    ]
    k = 0
    for bi, b in enumerate(base):
        for infmt in ('cif', 'lmpdat', 'cml'):
            for outfmt in b.get('outfmts', ['lmpdat', 'cif']):
                k += 1
                if tier == 'quick' and (k + bi) % 3 != 0 and infmt != 'cif':
                    continue     # rotates through the (input, output) format combinations from one option set to the next
                spec = dict(pair=b['pair'], opts=b['opts'], infmt=infmt, outfmt=outfmt, seed=seed * 100 + k, rng=k, noise=b.get('noise', 0.0), copies=b.get('copies', 3), decoys=b.get('decoys', 2), **({'prior_pair': b['prior_pair']} if 'prior_pair' in b else {}))
                msg = check(spec)
                rec.case(repr(sorted(spec.items(), key=str)), sample=spec if len(rec.samples) < 2 else None)
                if msg:
                    rec.fail('cli', 'cli', "%s on %r" % (msg, spec), spec, 'C20/cli==api')
    spec = dict(pair='swap-element', opts=dict(find=True, replace=True, framework_element='C'), infmt='cif', outfmt='lmpdat', seed=seed * 100 + 99, rng=1)
    msg = check(spec)
    rec.case('framework-element', group='framework-element')
    if msg:
        rec.fail('cli', 'cli-framework-element', "%s on %r" % (msg, spec), spec, 'C20/framework-element')
