"""usage: /venv/bin/python bounded/run.py <Cxx> <tier> <seed>   -- bounded / exhaustive stage on the real code."""
import importlib, json, os, sys, time, traceback
ROOT = os.path.dirname(os.path.dirname(os.path.abspath(__file__)))
sys.path.insert(0, ROOT)
sys.path.insert(0, os.environ.get('MOFUN_REPO', '/repo'))
from bounded.common import Rec

def main():
    prop, tier, seed = sys.argv[1], sys.argv[2], int(sys.argv[3])
    rec = Rec(prop, tier, seed)
    t0 = time.time()
    try:
        mod = importlib.import_module('bounded.' + prop)
        mod.run(rec, tier, seed)
    except Exception:
        rec.error = 'harness crashed: ' + traceback.format_exc()[-1500:]
    out = rec.result()
    out['stage_wall_s'] = round(time.time() - t0, 2)
    print('BOUNDED-JSON ' + json.dumps(out, default=str))

main()
