"""C07 bounded stage: overlapping replacements are refused, never silently corrupted (real code)."""
import itertools, random
import numpy as np
from bounded.common import quiet
from bounded import geo


def chain(kind):
    """Structures in which occurrences of the search pattern share atoms."""
    from mofun import Atoms
    first_n = kind.endswith('-N0')
    kind = kind.replace('-N0', '')
    cell = geo.CELLS['cubic']
    if kind == 'CNC':       # two C-N matches sharing the N
        els, pos = 'CNC', [[5., 5, 5], [6.2, 5, 5], [7.4, 5, 5]]
    elif kind == 'CNCNC':   # four matches; each N shared by two
        els, pos = 'CNCNC', [[5., 5, 5], [6.2, 5, 5], [7.4, 5, 5], [8.6, 5, 5], [9.8, 5, 5]]
    elif kind == 'separate':
        els, pos = 'CNCN', [[5., 5, 5], [6.2, 5, 5], [5., 12, 5], [6.2, 12, 5]]
    if first_n:
        # same atoms listed with the shared N atoms first (the doubly-claimed atom is then atom 0)
        order = sorted(range(len(els)), key=lambda i: (els[i] != 'N', i))
        els, pos = ''.join(els[i] for i in order), [pos[i] for i in order]
    with quiet():
        return Atoms(elements=list(els), positions=np.array(pos, dtype=float), cell=cell)


def pats(kind):
    from mofun import Atoms
    with quiet():
        sp = Atoms(elements=['C', 'N'], positions=[[0., 0, 0], [1.2, 0, 0]])
        if kind == 'keep-N':       # N shared by both patterns (retained), C replaced
            rp = Atoms(elements=['S', 'N'], positions=[[0., 0, 0], [1.2, 0, 0]])
        elif kind == 'moved-N':    # N displaced by 0.002 A: not the same coordinates, so N is NOT shared and both matches remove it
            rp = Atoms(elements=['S', 'N'], positions=[[0., 0, 0], [1.202, 0, 0]])
        elif kind == 'keep-C':     # C retained, N replaced -> overlapping matches both remove the shared N
            rp = Atoms(elements=['C', 'P'], positions=[[0., 0, 0], [1.2, 0, 0]])
        elif kind == 'keep-both':
            rp = Atoms(elements=['C', 'N', 'F'], positions=[[0., 0, 0], [1.2, 0, 0], [0.6, 1.0, 0]])
        elif kind == 'none-shared':
            rp = Atoms(elements=['S', 'P'], positions=[[0.1, 0, 0], [1.1, 0, 0]])
        elif kind == 'empty':
            rp = Atoms()
    return sp, rp


def expected_overlap(struct_kind, pat_kind, replace_all):
    """Does some atom get removed by two matches?  Computed from first principles: matches are the adjacent (C, N) pairs,
    each removes its atoms except those shared by both patterns (none when replace_all)."""
    els = {'CNC': 'CNC', 'CNCNC': 'CNCNC', 'separate': 'CN|CN'}[struct_kind.replace('-N0', '')]     # the order of the atoms is immaterial
    matches = []
    idx = 0
    for seg in els.split('|'):
        for i in range(len(seg) - 1):
            a, b = seg[i], seg[i + 1]
            if {a, b} == {'C', 'N'}:
                c, n = (idx + i, idx + i + 1) if a == 'C' else (idx + i + 1, idx + i)
                matches.append((c, n))
        idx += len(seg)
    keepC = (not replace_all) and pat_kind in ('keep-C', 'keep-both')
    keepN = (not replace_all) and pat_kind in ('keep-N', 'keep-both')
    removed = []
    for c, n in matches:
        removed.append({x for x, keep in ((c, keepC), (n, keepN)) if not keep})
    return any(removed[i] & removed[j] for i in range(len(removed)) for j in range(i + 1, len(removed)))


def check_roles(spec):
    """Asymmetric three-atom pattern C -1.2- N -1.5- C' on the chain C0 N1 C2 N3 C4 with the same alternating spacings: the two occurrences
    (0, 1, 2) and (2, 3, 4) share atom 2, which is the *last* atom of one and the *first* atom of the other."""
    from mofun import Atoms, replace_pattern_in_structure
    from mofun.mofun import AtomsShouldNotBeDeletedTwice
    xs = [5.0, 6.2, 7.7, 8.9, 10.4]
    sx = [0.0, 1.2, 2.7]
    with quiet():
        S = Atoms(elements=list('CNCNC'), positions=np.array([[x, 5., 5.] for x in xs]), cell=geo.CELLS['cubic'] * 1.0)
        sp = Atoms(elements=list('CNC'), positions=np.array([[x, 0., 0.] for x in sx]))
        rel = {'replace-last': ['C', 'N', 'F'], 'replace-first': ['F', 'N', 'C'], 'replace-both-ends': ['F', 'N', 'F'], 'replace-middle': ['C', 'P', 'C']}[spec['pattern']]
        rp = Atoms(elements=rel, positions=np.array([[x, 0., 0.] for x in sx]))
    matches = [(0, 1, 2), (2, 3, 4)]
    removed = [{m[i] for i in range(3) if spec['replace_all'] or rel[i] != 'CNC'[i]} for m in matches]
    overlap = bool(removed[0] & removed[1])
    must_raise = overlap and not spec['ignore']
    random.seed(spec.get('rng', 0))
    raised, res = None, None
    with quiet():
        try:
            res = replace_pattern_in_structure(S, sp, rp, replace_all=spec['replace_all'], ignore_atoms_should_not_be_deleted_twice=spec['ignore'])
        except AtomsShouldNotBeDeletedTwice:
            raised = 'overlap'
        except Exception as e:
            raised = repr(e)
    if raised not in (None, 'overlap'):
        return "raised %s instead of handling the overlap" % raised
    if must_raise and raised != 'overlap':
        return "two matches remove atom 2 but no AtomsShouldNotBeDeletedTwice was raised (result has %d atoms)" % len(res.positions)
    if not must_raise and raised == 'overlap':
        return ("AtomsShouldNotBeDeletedTwice raised although no atom would be removed twice: the matches %r remove %r (atom 2 is %s)"
                % (matches, removed, 'retained by one match and removed by the other' if (2 in removed[0]) != (2 in removed[1]) else 'retained by both'))
    if res is not None and not overlap:
        want = 5 - len(removed[0] | removed[1]) + sum(len(r) for r in removed)
        if len(res.positions) != want:
            return "result has %d atoms, expected %d (each structure atom removed at most once)" % (len(res.positions), want)
    return None


def check_empty_with_terms(spec):
    """Empty replacement on C N C | O O with a bond between the two O: the two C-N occurrences share the N; all three atoms go, each once, and
    the O-O bond must still join the two O atoms."""
    from mofun import Atoms, replace_pattern_in_structure
    with quiet():
        S = Atoms(elements=list('CNCOO'), positions=np.array([[5., 5, 5], [6.2, 5, 5], [7.4, 5, 5], [12., 12, 12], [13.2, 12, 12]]), cell=geo.CELLS['cubic'] * 1.0,
                  bonds=[(3, 4)], bond_types=[0])
        sp = Atoms(elements=['C', 'N'], positions=[[0., 0, 0], [1.2, 0, 0]])
        rp = Atoms()
    random.seed(spec.get('rng', 0))
    with quiet():
        try:
            res = replace_pattern_in_structure(S, sp, rp, replace_all=spec['replace_all'], ignore_atoms_should_not_be_deleted_twice=spec['ignore'])
        except Exception as e:
            return "empty replacement raised %r" % (e,)
    if list(res.elements) != ['O', 'O']:
        return "empty replacement leaves %r, expected the two O atoms" % (list(res.elements),)
    b = [tuple(int(x) for x in t) for t in res.bonds]
    if sorted(tuple(sorted(t)) for t in b) != [(0, 1)]:
        return "after removing the shared atom once, the O-O bond should join atoms (0, 1); the result has bonds %r" % (b,)
    return None


def check(spec):
    if spec.get('structure') == 'roles':
        return check_roles(spec)
    if spec.get('structure') == 'empty+terms':
        return check_empty_with_terms(spec)
    from mofun import replace_pattern_in_structure
    from mofun.mofun import AtomsShouldNotBeDeletedTwice
    S = chain(spec['structure'])
    sp, rp = pats(spec['pattern'])
    if spec.get('charged') and len(rp.positions):
        # the replacement carries its own charges and groups (different from the structure's): an atom both patterns share is still shared
        rp.charges = np.array([0.25 + 0.1 * i for i in range(len(rp.positions))])
        rp.groups = np.array([3] * len(rp.positions))
    N = len(S.positions)
    random.seed(spec.get('rng', 0))
    raised = None
    res = None
    with quiet():
        try:
            res = replace_pattern_in_structure(S, sp, rp, replace_all=spec['replace_all'], replace_fraction=spec.get('f', 1.0),
                                               ignore_atoms_should_not_be_deleted_twice=spec['ignore'])
        except AtomsShouldNotBeDeletedTwice:
            raised = 'overlap'
        except Exception as e:
            raised = repr(e)
    overlap = expected_overlap(spec['structure'], spec['pattern'], spec['replace_all'])
    if spec.get('f', 1.0) < 1.0 and not spec.get('all_selected_overlap'):
        # CNC has two occurrences: with f = 0.5 one of them is selected, with f = 0 none -- two SELECTED matches never overlap
        overlap = False
    must_raise = overlap and not spec['ignore'] and spec['pattern'] != 'empty'
    if raised not in (None, 'overlap'):
        return "raised %s instead of handling the overlap" % raised
    if must_raise and raised != 'overlap':
        return "two matches remove the same atom but no AtomsShouldNotBeDeletedTwice was raised (result has %d atoms)" % len(res.positions)
    if not must_raise and raised == 'overlap':
        return "AtomsShouldNotBeDeletedTwice raised although no atom would be removed twice (or the caller asked to ignore / replacement empty)"
    if res is not None and not overlap:
        # each structure atom removed at most once: atom count as computed from distinct removed atoms
        nmatch = {'CNC': 2, 'CNCNC': 4, 'separate': 2}[spec['structure'].replace('-N0', '')]
        if spec.get('f', 1.0) < 1.0:
            nmatch = round(spec['f'] * nmatch)      # (documented: that share of the matches, rounded)
        shared = {} if spec['replace_all'] else {'keep-N': 1, 'keep-C': 1, 'keep-both': 2, 'none-shared': 0, 'empty': 0, 'moved-N': 0}[spec['pattern']]
        shared = 0 if spec['replace_all'] else shared
        removed_per = 2 - shared
        added_per = len(rp.positions) - shared
        if True:
            want = N - nmatch * removed_per + nmatch * added_per
            if len(res.positions) != want:
                return "result has %d atoms, expected %d" % (len(res.positions), want)
    return None


def replay(inp):
    msg = check(inp)
    return (msg is not None), (msg or 'overlap handling as specified')


REPLAY = {'overlap': replay}


def run(rec, tier, seed):
    rec.rule = ("chains in which C-N occurrences share atoms (CNC, CNCNC) and a control with separate occurrences x 5 replacement patterns (shared "
                "atom retained by both / removed by both / both retained / nothing shared / empty) x replace_all on/off x ignore flag on/off: "
                "AtomsShouldNotBeDeletedTwice is raised iff two selected matches would remove the same atom, the replacement is non-empty and "
                "the caller did not ask to ignore it; plus an asymmetric three-atom pattern whose occurrences share an atom in different roles (retained by "
                "one match, removed by the other / removed by both / retained by both) x the same flags. distinct = all combinations (exhaustive over this grid)")
    rec.exhaustive = True
    for st in ('CNC', 'CNCNC', 'separate', 'CNC-N0', 'CNCNC-N0'):
        for pk in ('keep-N', 'keep-C', 'keep-both', 'none-shared', 'empty', 'moved-N'):
            for ra in (False, True):
                for ig in (False, True):
                    spec = dict(structure=st, pattern=pk, replace_all=ra, ignore=ig)
                    msg = check(spec)
                    rec.case(repr(sorted(spec.items())), sample=spec if len(rec.samples) < 3 else None)
                    if msg:
                        rec.fail('overlap', 'overlap', "%s on %r" % (msg, spec), spec, 'C07/overlap')
    for st in ('CNC', 'CNCNC'):
        for pk in ('keep-N', 'keep-C', 'keep-both', 'none-shared'):
            for ig in (False, True):
                spec = dict(structure=st, pattern=pk, replace_all=False, ignore=ig, charged=True)
                msg = check(spec)
                rec.case(repr(sorted(spec.items())))
                if msg:
                    rec.fail('overlap', 'overlap', "%s on %r" % (msg, spec), spec, 'C07/overlap')
    # a replacement fraction below 1: only SELECTED matches count (CNC: two overlapping occurrences, one or none selected)
    for pk in ('keep-C', 'none-shared', 'moved-N', 'keep-N'):
        for f in (0.5, 0.0):
            for ig in (False, True):
                for rng in (0, 1):
                    spec = dict(structure='CNC', pattern=pk, replace_all=False, ignore=ig, f=f, rng=rng)
                    msg = check(spec)
                    rec.case(repr(sorted(spec.items())))
                    if msg:
                        rec.fail('overlap', 'overlap', "%s on %r" % (msg, spec), spec, 'C07/overlap')
    # a fraction below 1 that still selects overlapping matches whatever the draw: 0.9 of the two occurrences in CNC is both of them; 0.75 of
    # the four in CNCNC is three, and any three contain two that remove the same N
    for st, f in (('CNC', 0.9), ('CNCNC', 0.75), ('CNC-N0', 0.9)):
        for pk in ('keep-C', 'none-shared', 'moved-N'):
            for ig in (False, True):
                for rng in (0, 1):
                    spec = dict(structure=st, pattern=pk, replace_all=False, ignore=ig, f=f, rng=rng, all_selected_overlap=True)
                    msg = check(spec)
                    rec.case(repr(sorted(spec.items())))
                    if msg:
                        rec.fail('overlap', 'overlap', "%s on %r" % (msg, spec), spec, 'C07/overlap')
    for ra in (False, True):
        for ig in (False, True):
            spec = dict(structure='empty+terms', pattern='empty', replace_all=ra, ignore=ig)
            msg = check(spec)
            rec.case(repr(sorted(spec.items())))
            if msg:
                rec.fail('overlap', 'overlap', "%s on %r" % (msg, spec), spec, 'C07/overlap')
    for pk in ('replace-last', 'replace-first', 'replace-both-ends', 'replace-middle'):
        for ra in (False, True):
            for ig in (False, True):
                spec = dict(structure='roles', pattern=pk, replace_all=ra, ignore=ig)
                msg = check(spec)
                rec.case(repr(sorted(spec.items())))
                if msg:
                    rec.fail('overlap', 'overlap', "%s on %r" % (msg, spec), spec, 'C07/overlap')
