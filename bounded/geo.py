"""Planted-structure generator for the geometric properties (C01-C08): periodic cells with rotated / translated copies
of a pattern, straddling cell boundaries, plus decoys.  Real mofun objects; run under /venv/bin/python."""
import itertools, math, random
import numpy as np
from scipy.spatial.transform import Rotation as R
from bounded.common import quiet

CELLS = {
    'cubic': np.array([[20., 0, 0], [0, 20., 0], [0, 0, 20.]]),
    'ortho': np.array([[18., 0, 0], [0, 21., 0], [0, 0, 24.]]),
    'tri+': np.array([[19., 0, 0], [4.0, 20., 0], [3.0, 5.0, 22.]]),
    'tri-': np.array([[19., 0, 0], [-4.5, 20., 0], [3.5, -5.0, 22.]]),
}

# name -> (elements, coordinates)
PATTERNS = {
    'single': ('N', [[0., 0, 0]]),
    'pair': ('CN', [[0., 0, 0], [1.2, 0, 0]]),
    'collinear3': ('CNO', [[0., 0, 0], [1.1, 0, 0], [2.5, 0, 0]]),
    'planar3': ('CNO', [[0., 0, 0], [1.3, 0.1, 0], [0.4, 1.6, 0]]),
    'chiral4': ('CNOF', [[0., 0, 0], [1.4, 0, 0], [0.2, 1.7, 0], [0.3, 0.4, 1.9]]),
    'sym5': ('CHHHH', [[0., 0, 0], [0.63, 0.63, 0.63], [-0.63, -0.63, 0.63], [-0.63, 0.63, -0.63], [0.63, -0.63, -0.63]]),
    'sym3': ('OCO', [[-1.16, 0, 0], [0., 0, 0], [1.16, 0, 0]]),
    'nearlinear3': ('SCN', [[0., 0, 0], [1.6, 0.04, 0], [2.8, 0, 0]]),
}


def axis_rotations():
    mats = []
    for perm in itertools.permutations(range(3)):
        for signs in itertools.product([1, -1], repeat=3):
            m = np.zeros((3, 3))
            for i, (p, s) in enumerate(zip(perm, signs)):
                m[i, p] = s
            if abs(np.linalg.det(m) - 1) < 1e-9:
                mats.append(m)
    return [R.from_matrix(m) for m in mats]


AXIS_ROTS = axis_rotations()


def rotations(rnd, n_random, include_axis=True):
    rots = list(AXIS_ROTS) if include_axis else []
    for _ in range(n_random):
        q = np.array([rnd.gauss(0, 1) for _ in range(4)])
        rots.append(R.from_quat(q / np.linalg.norm(q)))
    return rots


def frac(cell, pos):
    return np.asarray(pos).dot(np.linalg.inv(cell))


def wrap(cell, pos):
    return (frac(cell, pos) % 1.0).dot(cell)


def min_image_dist(cell, a, b):
    d = frac(cell, np.asarray(a) - np.asarray(b))
    d -= np.round(d)
    best = 1e9
    for s in itertools.product([-1, 0, 1], repeat=3):
        best = min(best, np.linalg.norm((d + s).dot(cell)))
    return best


def build(cellname, patname, copies, rnd, noise=0.0, decoys=0, mirror_decoys=0, near_miss=0, atol=0.05, straddle=True,
          pattern_override=None, bent=0, tilt=None, scramble=False, unwrapped=False):
    """Returns dict(structure=Atoms, pattern=Atoms, planted=[index tuples in pattern order], poses=[(rot, trans)])."""
    from mofun import Atoms
    cell = CELLS[cellname] if cellname in CELLS else SMALL_CELLS[cellname]
    els, coords = pattern_override or PATTERNS[patname]
    coords = np.array(coords, dtype=float)
    diam = max([np.linalg.norm(a - b) for a in coords for b in coords] + [0.0])
    elements, positions, planted, poses = [], [], [], []
    lookalikes = []
    centers = []
    # well separated centres on a coarse fractional grid; optionally shifted to the faces so that copies straddle them
    grid = [(i / 3.0, j / 3.0, k / 3.0) for i in range(3) for j in range(3) for k in range(3)]
    rnd.shuffle(grid)
    total = copies + mirror_decoys + near_miss + bent
    rots = rotations(rnd, total, include_axis=False)
    if tilt == 'inverse-pairs':
        # poses that are each other's inverse, or have mirror-related axes: q and q^-1, (x, y, z, w) and (-x, y, z, w)
        base = rotations(rnd, (total + 1) // 2, include_axis=False)
        rots = []
        for r in base:
            x, y, z, w = r.as_quat()
            rots += [r, r.inv() if len(rots) % 4 == 0 else R.from_quat([-x, y, -z, w])]
        rots = rots[:total]
    elif tilt is not None:
        # copies that are (almost) aligned with the pattern as written: turned by the given small angles (radians) about random axes
        rots = []
        for ci in range(total):
            ax = np.array([rnd.gauss(0, 1) for _ in range(3)])
            rots.append(R.from_rotvec(tilt[ci % len(tilt)] * ax / np.linalg.norm(ax)))
    for ci in range(total):
        f = np.array(grid[ci])
        if straddle:
            f = f + np.array([rnd.choice([0.0, 0.0, 0.02, -0.02]) for _ in range(3)])     # near faces / edges / corners
        else:
            f = f + 0.16
        centre = f.dot(cell)
        rot = rots[ci]
        P = coords.copy()
        kind = 'copy'
        if ci >= copies and ci < copies + mirror_decoys:
            P = P * np.array([1, 1, -1.0])     # mirror image
            kind = 'mirror'
        elif ci >= copies + mirror_decoys + near_miss:
            # bent look-alike: the middle atom moves sideways by 0.28 A; interatomic distances change by less than atol
            P = P.copy()
            P[1] = P[1] + np.array([0, 0.28, 0])
            kind = 'bent'
        elif ci >= copies + mirror_decoys:
            P = P.copy()
            P[-1] = P[-1] + np.array([1.5 * atol * 1.7, 0, 0])   # one atom clearly outside tolerance (|d| ~ 2.5 atol)
            kind = 'nearmiss'
        pts = rot.apply(P - P.mean(axis=0)) + centre
        if noise:
            pts = pts + np.array([[rnd.uniform(-noise, noise) for _ in range(3)] for _ in pts])
        idxs = [None] * len(pts)
        order = list(range(len(pts)))
        if scramble:
            # the atoms of a copy are listed in the structure in another order than in the pattern (reversed / shuffled)
            order = order[::-1] if ci % 2 == 0 else rnd.sample(order, len(order))
        for k in order:
            idxs[k] = len(elements)
            elements.append(els[k])
            # unwrapped: every second copy is stored whole, as placed (some of its atoms lie outside the box: fractional coordinate < 0 or >= 1)
            positions.append(pts[k] if (unwrapped and ci % 2 == 0) else wrap(cell, pts[k]))
        if kind == 'copy':
            planted.append(tuple(idxs))
            poses.append((rot, centre))
        else:
            # a look-alike: whether it must be rejected depends on how far it is from ANY proper rigid image of the pattern (best fit over all
            # rotations and translations, maximum per-atom deviation) -- only clearly-outside look-alikes are forbidden matches
            lookalikes.append((tuple(idxs), kind, best_rigid_fit(coords, pts)))
    # decoys: same-element distractors far from every planted atom
    tries = 0
    while decoys > 0 and tries < 500:
        tries += 1
        p = np.array([rnd.random(), rnd.random(), rnd.random()]).dot(cell)
        if all(min_image_dist(cell, p, q) > diam + 3.0 for q in positions):
            elements.append(rnd.choice(list(els)))
            positions.append(p)
            decoys -= 1
    with quiet():
        s = Atoms(elements=elements, positions=np.array(positions), cell=cell)
        pat = Atoms(elements=list(els), positions=coords)
    return dict(structure=s, pattern=pat, planted=planted, poses=poses, cell=cell, diam=diam, cellname=cellname, patname=patname, lookalikes=lookalikes)


def group_key(t):
    return tuple(sorted(int(x) for x in t))


def best_rigid_fit(P, Q):
    """Kabsch: proper rotation + translation minimising |R P + t - Q|; returns max per-atom deviation."""
    P, Q = np.asarray(P, float), np.asarray(Q, float)
    if len(P) == 1:
        return 0.0
    pc, qc = P.mean(axis=0), Q.mean(axis=0)
    H = (P - pc).T.dot(Q - qc)
    U, S, Vt = np.linalg.svd(H)
    d = np.sign(np.linalg.det(Vt.T.dot(U.T)))
    D = np.diag([1, 1, d])
    Rm = Vt.T.dot(D).dot(U.T)
    fit = (Rm.dot((P - pc).T)).T + qc
    return float(np.max(np.linalg.norm(fit - Q, axis=1)))


# ------------------------------------------------------------------------------------------------ stress generators
CELLS['upper'] = np.array([[19., 4.0, 0], [0, 20., 3.0], [0, 0, 22.]])                              # triclinic, tilt ABOVE the diagonal (not LAMMPS-oriented)
CELLS['ortho-dec'] = np.array([[25., 0, 0], [0, 21., 0], [0, 0, 17.]])                              # orthorhombic with a > b > c
CELLS['tri-dec'] = np.array([[25., 0, 0], [3.0, 21., 0], [-2.0, 2.5, 17.]])                          # triclinic with heights a > b > c
CELLS['lefty'] = np.array([[2.0, 19., 1.0], [20., -3.0, 0.5], [1.5, 2.0, 21.]])                  # left-handed triclinic cell (det < 0), not aligned with any axis
CELLS['rhombo'] = np.array([[20., 0, 0], [10., 17.3205, 0], [10., 5.7735, 16.3299]])          # 60 degree angles
CELLS['rhombo-'] = np.array([[20., 0, 0], [-8., 18.0, 0], [-7., -6.0, 17.0]])                  # all tilts negative
# cells only a little wider than a long pattern (the pattern spans more than half a cell edge); used with a single copy
SMALL_CELLS = {'small': np.array([[9.0, 0, 0], [0, 9.5, 0], [0, 0, 10.0]]), 'small-tri': np.array([[9.5, 0, 0], [2.0, 9.5, 0], [1.5, 2.0, 10.0]])}
PATTERNS['long5'] = ('CNOFS', [[0., 0, 0], [1.4, 0.5, 0.1], [2.9, -0.4, 0.6], [4.5, 0.3, -0.5], [6.2, 0.0, 0.2]])
# a wide, nearly planar but chiral pattern: four atoms in a plane (no symmetry), the fifth 0.25 A above it -- its mirror image through the
# plane differs by 0.5 A in one atom only
PATTERNS['nearflat5'] = ('CNOFS', [[0., 0, 0], [4.0, 0, 0], [1.5, 3.5, 0], [-2.5, 2.0, 0], [1.0, 1.2, 0.25]])
# two atoms of the same element first, exchanged by a mirror plane (through C, H, F) but by no proper rotation: S2CHF like CHFCl2
PATTERNS['mirror5'] = ('SSCHF', [[1.45, 0.9, -0.55], [-1.45, 0.9, -0.55], [0., 0, 0], [0, -0.75, -0.8], [0, -0.4, 1.3]])
PATTERNS['pair-y'] = ('CN', [[0., 0, 0], [0., 1.2, 0]])
PATTERNS['collinear3-y'] = ('CNO', [[0., 0, 0], [0, 1.1, 0], [0, 2.5, 0]])
PATTERNS['planar3-y'] = ('CNO', [[0., 0, 0], [0.1, 1.9, 0], [1.2, 0.5, 0]])
PATTERNS['planar3-z'] = ('CNO', [[0., 0, 0], [0.0, 0.1, 1.9], [0, 1.2, 0.5]])


def rot_to(u, v):
    """Proper rotation taking unit vector u to unit vector v."""
    u, v = np.asarray(u, float) / np.linalg.norm(u), np.asarray(v, float) / np.linalg.norm(v)
    c = np.cross(u, v)
    s, d = np.linalg.norm(c), float(np.dot(u, v))
    if s < 1e-12:
        if d > 0:
            return R.identity()
        w = np.cross(u, [1.0, 0, 0])
        if np.linalg.norm(w) < 1e-6:
            w = np.cross(u, [0, 1.0, 0])
        return R.from_rotvec(np.pi * w / np.linalg.norm(w))
    return R.from_rotvec(c / s * np.arctan2(s, d))


def build_through_faces(cellname, patname, rnd, depth=0.05, decoys=2, spin=True, anchor=0, only_face=None):
    """One copy through each of the six cell faces: the pattern's longest axis points along the outward face normal, its first axis atom sits
    `depth` inside the face, so the copy sticks out by (almost) its full length."""
    from mofun import Atoms
    cell = CELLS[cellname] if cellname in CELLS else SMALL_CELLS[cellname]
    els, coords = PATTERNS[patname]
    coords = np.array(coords, dtype=float)
    n = len(coords)
    # the anchored atom stays just inside the face (atom 0 is the atom every search starts from); the body points outwards
    i0 = anchor % n
    dmax, i1 = max((np.linalg.norm(coords[i0] - coords[b]), b) for b in range(n))
    axis = (coords[i1] - coords[i0]) / max(dmax, 1e-9)
    dmax = max(np.linalg.norm(coords[a] - coords[b]) for a in range(n) for b in range(n))
    A, B, C = cell
    faces = []
    uv = [(0.25, 0.25), (0.75, 0.7), (0.3, 0.72), (0.7, 0.3), (0.5, 0.5), (0.2, 0.55)]
    for f, (o, e1, e2, third) in enumerate([(A * 0, B, C, A), (A, B, C, A), (B * 0, A, C, B), (B, A, C, B), (C * 0, A, B, C), (C, A, B, C)]):
        nrm = np.cross(e1, e2)
        nrm = nrm / np.linalg.norm(nrm)
        if np.dot(nrm, third) < 0:
            nrm = -nrm
        outward = nrm if f % 2 == 1 else -nrm
        faces.append((o, e1, e2, outward))
    elements, positions, planted, poses = [], [], [], []
    for f, (o, e1, e2, outward) in enumerate(faces):
        if only_face is not None and f != only_face:
            continue
        u, v = uv[f]
        anchor = o + u * e1 + v * e2 - depth * outward            # just inside
        rot = rot_to(axis, outward)
        if spin:
            rot = R.from_rotvec(rnd.uniform(0, 2 * np.pi) * outward) * rot
        pts = rot.apply(coords - coords[i0]) + anchor
        idxs = []
        for e, p in zip(els, pts):
            idxs.append(len(elements))
            elements.append(e)
            positions.append(wrap(cell, p))
        planted.append(tuple(idxs))
        centre = pts.mean(axis=0)
        poses.append((rot, centre))
    tries = 0
    while decoys > 0 and tries < 500:
        tries += 1
        p = np.array([rnd.random(), rnd.random(), rnd.random()]).dot(cell)
        if all(min_image_dist(cell, p, q) > dmax + 3.0 for q in positions):
            elements.append(rnd.choice(list(els)))
            positions.append(p)
            decoys -= 1
    with quiet():
        s = Atoms(elements=elements, positions=np.array(positions), cell=cell)
        pat = Atoms(elements=list(els), positions=coords)
    return dict(structure=s, pattern=pat, planted=planted, poses=poses, cell=cell, diam=dmax, cellname=cellname, patname=patname)


def build_axis_poses(cellname, patname, rnd, which, stretch=0.0):
    """Copies in axis-aligned poses (a third of the 24 proper axis rotations per structure), incl. exactly antiparallel ones."""
    from mofun import Atoms
    cell = CELLS[cellname]
    els, coords = PATTERNS[patname]
    coords = np.array(coords, dtype=float)
    rots = AXIS_ROTS[which::3]
    grid = [(i / 3.0 + 0.1, j / 3.0 + 0.12, k / 3.0 + 0.08) for i in range(3) for j in range(3) for k in range(3)]
    elements, positions, planted, poses = [], [], [], []
    placed = coords
    if stretch:
        # the copies are the pattern stretched along the direction from its first atom to the atom farthest from it, so that the far atom is
        # `stretch` further away (well inside the tolerance when stretch ~ atol / 2): still occurrences, but the longest distance is exceeded
        far = max(range(len(coords)), key=lambda i: np.linalg.norm(coords[i] - coords[0]))
        d = np.linalg.norm(coords[far] - coords[0])
        u = (coords[far] - coords[0]) / d
        placed = coords + np.outer((coords - coords[0]).dot(u) * (stretch / d), u)
    for ci, rot in enumerate(rots):
        centre = np.array(grid[ci]).dot(cell)
        pts = rot.apply(placed - placed.mean(axis=0)) + centre
        idxs = []
        for e, p in zip(els, pts):
            idxs.append(len(elements))
            elements.append(e)
            positions.append(wrap(cell, p))
        planted.append(tuple(idxs))
        poses.append((rot, centre))
    with quiet():
        s = Atoms(elements=elements, positions=np.array(positions), cell=cell)
        pat = Atoms(elements=list(els), positions=coords)
    return dict(structure=s, pattern=pat, planted=planted, poses=poses, cell=cell, cellname=cellname, patname=patname)
