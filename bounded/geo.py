"""Planted-structure generator for the geometric properties (C01-C08): periodic cells with rotated / translated copies
of a pattern, straddling cell boundaries, plus decoys.  Real mofun objects; run under /venv/bin/python."""
import itertools, math, random
import numpy as np
from scipy.spatial.transform import Rotation as R
from bounded.common import quiet

CELLS = {
    'cubic': np.array([[20., 0, 0], [0, 20., 0], [0, 0, 20.]]),
    'ortho': np.array([[18., 0, 0], [0, 21., 0], [0, 0, 24.]]),
    'tri+': np.array([[19., 0, 0], [4.0, 20., 0], [3.0, 5.0, 22.]]),
    'tri-': np.array([[19., 0, 0], [-4.5, 20., 0], [3.5, -5.0, 22.]]),
}

# name -> (elements, coordinates)
PATTERNS = {
    'single': ('N', [[0., 0, 0]]),
    'pair': ('CN', [[0., 0, 0], [1.2, 0, 0]]),
    'collinear3': ('CNO', [[0., 0, 0], [1.1, 0, 0], [2.5, 0, 0]]),
    'planar3': ('CNO', [[0., 0, 0], [1.3, 0.1, 0], [0.4, 1.6, 0]]),
    'chiral4': ('CNOF', [[0., 0, 0], [1.4, 0, 0], [0.2, 1.7, 0], [0.3, 0.4, 1.9]]),
    'sym5': ('CHHHH', [[0., 0, 0], [0.63, 0.63, 0.63], [-0.63, -0.63, 0.63], [-0.63, 0.63, -0.63], [0.63, -0.63, -0.63]]),
    'sym3': ('OCO', [[-1.16, 0, 0], [0., 0, 0], [1.16, 0, 0]]),
    'nearlinear3': ('SCN', [[0., 0, 0], [1.6, 0.04, 0], [2.8, 0, 0]]),
}


def axis_rotations():
    mats = []
    for perm in itertools.permutations(range(3)):
        for signs in itertools.product([1, -1], repeat=3):
            m = np.zeros((3, 3))
            for i, (p, s) in enumerate(zip(perm, signs)):
                m[i, p] = s
            if abs(np.linalg.det(m) - 1) < 1e-9:
                mats.append(m)
    return [R.from_matrix(m) for m in mats]


AXIS_ROTS = axis_rotations()


def rotations(rnd, n_random, include_axis=True):
    rots = list(AXIS_ROTS) if include_axis else []
    for _ in range(n_random):
        q = np.array([rnd.gauss(0, 1) for _ in range(4)])
        rots.append(R.from_quat(q / np.linalg.norm(q)))
    return rots


def frac(cell, pos):
    return np.asarray(pos).dot(np.linalg.inv(cell))


def wrap(cell, pos):
    return (frac(cell, pos) % 1.0).dot(cell)


def min_image_dist(cell, a, b):
    d = frac(cell, np.asarray(a) - np.asarray(b))
    d -= np.round(d)
    best = 1e9
    for s in itertools.product([-1, 0, 1], repeat=3):
        best = min(best, np.linalg.norm((d + s).dot(cell)))
    return best


def build(cellname, patname, copies, rnd, noise=0.0, decoys=0, mirror_decoys=0, near_miss=0, atol=0.05, straddle=True,
          pattern_override=None, bent=0):
    """Returns dict(structure=Atoms, pattern=Atoms, planted=[index tuples in pattern order], poses=[(rot, trans)])."""
    from mofun import Atoms
    cell = CELLS[cellname]
    els, coords = pattern_override or PATTERNS[patname]
    coords = np.array(coords, dtype=float)
    diam = max([np.linalg.norm(a - b) for a in coords for b in coords] + [0.0])
    elements, positions, planted, poses = [], [], [], []
    centers = []
    # well separated centres on a coarse fractional grid; optionally shifted to the faces so that copies straddle them
    grid = [(i / 3.0, j / 3.0, k / 3.0) for i in range(3) for j in range(3) for k in range(3)]
    rnd.shuffle(grid)
    total = copies + mirror_decoys + near_miss + bent
    rots = rotations(rnd, total, include_axis=False)
    for ci in range(total):
        f = np.array(grid[ci])
        if straddle:
            f = f + np.array([rnd.choice([0.0, 0.0, 0.02, -0.02]) for _ in range(3)])     # near faces / edges / corners
        else:
            f = f + 0.16
        centre = f.dot(cell)
        rot = rots[ci]
        P = coords.copy()
        kind = 'copy'
        if ci >= copies and ci < copies + mirror_decoys:
            P = P * np.array([1, 1, -1.0])     # mirror image
            kind = 'mirror'
        elif ci >= copies + mirror_decoys + near_miss:
            # bent look-alike: the middle atom moves sideways by 0.28 A; interatomic distances change by less than atol
            P = P.copy()
            P[1] = P[1] + np.array([0, 0.28, 0])
            kind = 'bent'
        elif ci >= copies + mirror_decoys:
            P = P.copy()
            P[-1] = P[-1] + np.array([1.5 * atol * 1.7, 0, 0])   # one atom clearly outside tolerance (|d| ~ 2.5 atol)
            kind = 'nearmiss'
        pts = rot.apply(P - P.mean(axis=0)) + centre
        if noise:
            pts = pts + np.array([[rnd.uniform(-noise, noise) for _ in range(3)] for _ in pts])
        idxs = []
        for e, p in zip(els, pts):
            idxs.append(len(elements))
            elements.append(e)
            positions.append(wrap(cell, p))
        if kind == 'copy':
            planted.append(tuple(idxs))
            poses.append((rot, centre))
    # decoys: same-element distractors far from every planted atom
    tries = 0
    while decoys > 0 and tries < 500:
        tries += 1
        p = np.array([rnd.random(), rnd.random(), rnd.random()]).dot(cell)
        if all(min_image_dist(cell, p, q) > diam + 3.0 for q in positions):
            elements.append(rnd.choice(list(els)))
            positions.append(p)
            decoys -= 1
    with quiet():
        s = Atoms(elements=elements, positions=np.array(positions), cell=cell)
        pat = Atoms(elements=list(els), positions=coords)
    return dict(structure=s, pattern=pat, planted=planted, poses=poses, cell=cell, diam=diam, cellname=cellname, patname=patname)


def group_key(t):
    return tuple(sorted(int(x) for x in t))


def best_rigid_fit(P, Q):
    """Kabsch: proper rotation + translation minimising |R P + t - Q|; returns max per-atom deviation."""
    P, Q = np.asarray(P, float), np.asarray(Q, float)
    if len(P) == 1:
        return 0.0
    pc, qc = P.mean(axis=0), Q.mean(axis=0)
    H = (P - pc).T.dot(Q - qc)
    U, S, Vt = np.linalg.svd(H)
    d = np.sign(np.linalg.det(Vt.T.dot(U.T)))
    D = np.diag([1, 1, d])
    Rm = Vt.T.dot(D).dot(U.T)
    fit = (Rm.dot((P - pc).T)).T + qc
    return float(np.max(np.linalg.norm(fit - Q, axis=1)))
