"""C19 bounded stage: term enumeration and UFF typing on the real code over small bond graphs."""
import itertools, random
from collections import Counter
import numpy as np
from bounded.common import quiet


def canon(t):
    t = tuple(int(x) for x in t)
    return min(t, t[::-1])


def prufer_trees(n):
    if n == 1:
        return [[]]
    if n == 2:
        return [[(0, 1)]]
    out = []
    for seq in itertools.product(range(n), repeat=n - 2):
        deg = [1] * n
        for x in seq:
            deg[x] += 1
        edges = []
        s = list(seq)
        for x in s:
            for leaf in range(n):
                if deg[leaf] == 1:
                    edges.append((leaf, x))
                    deg[leaf] -= 1
                    deg[x] -= 1
                    break
        u, v = [i for i in range(n) if deg[i] == 1]
        edges.append((u, v))
        out.append(edges)
    return out


def graphs(tier):
    gs = []
    for n in (2, 3, 4, 5):
        trees = prufer_trees(n)
        if tier == 'quick' and n == 5:
            trees = trees[::5]
        gs += [('tree%d' % n, t) for t in trees]
    for n in (4, 5, 6):
        gs.append(('ring%d' % n, [(i, (i + 1) % n) for i in range(n)]))
    gs.append(('spiro', [(0, 1), (1, 2), (2, 3), (3, 0), (0, 4), (4, 5), (5, 6), (6, 0)]))
    gs.append(('fused', [(0, 1), (1, 2), (2, 3), (3, 4), (4, 5), (5, 0), (0, 6), (6, 7), (7, 8), (8, 1)][:9] + [(8, 9), (9, 1)][:0]))
    gs.append(('metal-node', [(0, i) for i in range(1, 7)] + [(1, 7), (2, 8)]))
    gs.append(('two-components', [(0, 1), (1, 2), (3, 4), (4, 5), (5, 6)]))
    # torsions with and without parameters in one structure (scheme 1 types a two-coordinate atom as C_1: no torsion about its bonds), listed in
    # both orders: the kept type first, and the dropped type first
    gs.append(('kept-then-dropped', [(0, 1), (0, 2), (0, 3), (3, 4), (3, 5), (5, 6)]))
    gs.append(('dropped-then-kept', [(5, 6), (3, 5), (3, 4), (0, 3), (0, 2), (0, 1)]))
    gs.append(('dropped-between-kept', [(0, 1), (0, 2), (0, 3), (3, 4), (3, 5), (5, 6), (6, 7), (7, 8), (7, 9), (6, 10)]))
    return gs


def adjacency(edges):
    adj = {}
    for a, b in edges:
        adj.setdefault(a, set()).add(b)
        adj.setdefault(b, set()).add(a)
    return adj


def has_triangle(edges):
    adj = adjacency(edges)
    return any(adj[a] & adj[b] for a, b in edges)


def expected_angles(edges):
    adj = adjacency(edges)
    return sorted(canon((a, n, b)) for n in adj for a, b in itertools.combinations(sorted(adj[n]), 2))


def expected_dihedrals(edges):
    adj = adjacency(edges)
    out = set()
    for j, k in edges:
        for i in adj[j] - {k}:
            for l in adj[k] - {j}:
                out.add(canon((i, j, k, l)))
    return sorted(out)


def types_for(edges, scheme):
    adj = adjacency(edges)
    n = max(adj) + 1
    if scheme == 3:
        # one type for every atom whatever its degree: the same type sequence then occurs with different numbers of torsions about the bond
        return ['C_3'] * n
    tab = [{1: 'H_', 2: 'O_3', 3: 'C_R', 4: 'C_3'}, {1: 'H_', 2: 'C_1', 3: 'N_R', 4: 'C_3'}, {1: 'F_', 2: 'S_3+2', 3: 'C_2', 4: 'Si3'}][scheme]
    return [tab.get(len(adj.get(i, ())), 'Zr3+4') for i in range(n)]


def mk_atoms(edges, types):
    from mofun import Atoms
    n = len(types)
    with quiet():
        return Atoms(elements=['C'] * n, positions=np.array([[1.5 * i, 0.3 * (i % 3), 0.1 * i] for i in range(n)]), bonds=edges, bond_types=[0] * len(edges))


def check_enumeration(edges, variant_seed):
    from mofun.rough_uff import calc_angles, calc_dihedrals
    rnd = random.Random(variant_seed)
    ed = [(a, b) if rnd.random() < 0.5 else (b, a) for a, b in edges]
    rnd.shuffle(ed)
    with quiet():
        ang = [canon(t) for t in calc_angles(np.array(ed))] if True else []
        dih = [canon(t) for t in calc_dihedrals(np.array(ed))]
    if sorted(ang) != expected_angles(edges):
        c = Counter(ang)
        return "calc_angles: %r expected %r (duplicates: %r)" % (sorted(ang)[:8], expected_angles(edges)[:8], [k for k, v in c.items() if v > 1][:3])
    if sorted(dih) != expected_dihedrals(edges):
        c = Counter(dih)
        return "calc_dihedrals: got %d chains, expected %d (duplicates: %r, missing: %r)" % (len(dih), len(expected_dihedrals(edges)), [k for k, v in c.items() if v > 1][:3], sorted(set(expected_dihedrals(edges)) - set(dih))[:3])
    return None


def typed_terms(edges, types, perm=None, shuffle_seed=None, exclude=None):
    """Runs the assignment on the (optionally renamed / shuffled) graph; returns {kind: {canonical tuple in ORIGINAL names: coefficient text}}."""
    from mofun import rough_uff as U
    n = len(types)
    perm = perm or list(range(n))            # new name of atom i is perm[i]
    inv = {perm[i]: i for i in range(n)}
    ed = [(perm[a], perm[b]) for a, b in edges]
    ty = [None] * n
    for i in range(n):
        ty[perm[i]] = types[i]
    if shuffle_seed is not None:
        rnd = random.Random(shuffle_seed)
        ed = [(a, b) if rnd.random() < 0.5 else (b, a) for a, b in ed]
        rnd.shuffle(ed)
    a = mk_atoms(ed, ty)
    with quiet():
        a.angles = U.calc_angles(a.bonds)
        a.dihedrals = U.calc_dihedrals(a.bonds)
        if shuffle_seed is not None:
            rnd = random.Random(shuffle_seed + 1)
            for name in ('angles', 'dihedrals'):
                arr = [tuple(t) if rnd.random() < 0.5 else tuple(t)[::-1] for t in getattr(a, name)]     # a term written backwards is the same term
                rnd.shuffle(arr)
                setattr(a, name, np.array(arr) if arr else np.array(arr).reshape(0, 3 if name == 'angles' else 4))
        ex = None if exclude is None else {perm[x] for x in exclude}
        U.assign_bond_types(a, ty, exclude=ex)
        U.assign_angle_types(a, ty, exclude=ex)
        U.assign_dihedral_types(a, ty, exclude=ex)
    out = {}
    for kind, plural in (('bond', 'bonds'), ('angle', 'angles'), ('dihedral', 'dihedrals')):
        d = {}
        tups, tys, coeffs = getattr(a, plural), getattr(a, kind + '_types'), getattr(a, kind + '_type_coeffs')
        if len(tups) != len(tys):
            raise AssertionError("%d %s but %d types" % (len(tups), plural, len(tys)))
        for t, k in zip(tups, tys):
            key = canon(tuple(inv[int(x)] for x in t))
            if key in d:
                raise AssertionError("%s %r listed twice" % (kind, key))
            d[key] = (int(k), str(coeffs[int(k)]))
        out[kind] = d
    return out


def check_typing(edges, scheme, seed):
    from mofun import rough_uff as U
    from mofun.helpers import typekey
    types = types_for(edges, scheme)
    n = len(types)
    try:
        base = typed_terms(edges, types)
    except AssertionError as e:
        return str(e)
    except Exception as e:
        if "don't know how to handle" in str(e):
            return None      # unsupported type combination (documented exception of dihedral_params): outside the domain
        return "typing raised %r" % (e,)
    # same type <=> same key; coefficients are those of the key
    adj = adjacency(edges)
    per_bond = Counter()
    for d in expected_dihedrals(edges):
        per_bond[canon((d[1], d[2]))] += 1
    for kind, d in base.items():
        key_of = {}
        for tup, (k, coeff) in d.items():
            key = tuple(typekey([types[i] for i in tup]))
            if kind == 'dihedral':
                key = key + (per_bond[canon((tup[1], tup[2]))],)
            key_of.setdefault(k, set()).add(key)
        if any(len(v) > 1 for v in key_of.values()):
            return "%s type id shared by different UFF type sequences: %r" % (kind, [v for v in key_of.values() if len(v) > 1][0])
        allkeys = [next(iter(v)) for v in key_of.values()]
        if len(set(allkeys)) != len(allkeys):
            return "%s: the same UFF type sequence got two different type ids" % kind
        for tup, (k, coeff) in d.items():
            ts = [types[i] for i in tup]
            # expected coefficients from the independent implementation of the UFF formulas (specs/uff_spec.py)
            from specs import uff_spec as SP
            from mofun.uff4mof import UFF4MOF, MAIN_GROUP_ELEMENTS
            if kind == 'bond':
                want = '%10.6f %10.6f' % SP.bond(UFF4MOF, *ts)
            elif kind == 'angle':
                pa = SP.angle(UFF4MOF, *ts)
                want = ('%s %10.6f %10.6f %10.6f %10.6f' % pa) if pa[0] == 'fourier' else ('%s %10.6f %d %d' % pa)
            else:
                p = SP.torsion(UFF4MOF, MAIN_GROUP_ELEMENTS, tuple(ts), per_bond[canon((tup[1], tup[2]))])
                want = '%s %10.6f %d %d' % p
            if not coeff.startswith(want.strip()) and want.strip() not in coeff:
                return "%s %r has coefficients %r, parameters of its type sequence are %r" % (kind, tup, coeff, want)
    # dihedrals without parameters are dropped, all others kept
    with quiet():
        keep = []
        for dch in expected_dihedrals(edges):
            ts = [types[i] for i in dch]
            try:
                if U.dihedral_params(*ts, num_dihedrals_about_bond=per_bond[canon((dch[1], dch[2]))]) is not None:
                    keep.append(dch)
            except Exception:
                return None
    if sorted(base['dihedral']) != sorted(keep):
        return "dihedrals kept %r, expected those with defined torsion %r" % (sorted(base['dihedral'])[:5], sorted(keep)[:5])
    if sorted(base['angle']) != expected_angles(edges) or sorted(base['bond']) != sorted(canon(e) for e in edges):
        return "bond / angle lists after typing differ from the enumeration"
    # renaming / reordering invariance of the coefficient text per term
    rnd = random.Random(seed)
    for trial in range(2):
        perm = list(range(n))
        rnd.shuffle(perm)
        try:
            other = typed_terms(edges, types, perm=perm, shuffle_seed=seed + trial)
        except AssertionError as e:
            return "after renaming: %s" % e
        except Exception as e:
            return "after renaming %r and reordering the term lists, typing raised %r" % (perm, e)
        for kind in base:
            b = {t: c for t, (k, c) in base[kind].items()}
            o = {t: c for t, (k, c) in other[kind].items()}
            if b != o:
                diff = [(t, b.get(t), o.get(t)) for t in set(b) | set(o) if b.get(t) != o.get(t)][:2]
                return "%s coefficients change under renaming %r: %r" % (kind, perm, diff)
    # exclusion set: terms wholly inside are removed, only if the set is at least as large as the term
    excls = [set(range(min(n, 4)))] if n >= 3 else []
    # sets that are exactly the atoms of one bond / one angle / one dihedral
    for kind in ('bond', 'angle', 'dihedral'):
        if base[kind]:
            excls.append(set(sorted(base[kind])[0]))
    for excl in excls:
        try:
            ex = typed_terms(edges, types, exclude=excl)
        except AssertionError as e:
            return "with exclusion set: %s" % e
        for kind, arity in (('bond', 2), ('angle', 3), ('dihedral', 4)):
            want = {t for t in base[kind] if not (len(excl) >= arity and set(t) <= excl)}
            if kind == 'dihedral':
                # multiplicities are counted before exclusion: keys (and coefficients) of survivors are unchanged
                pass
            if set(ex[kind]) != want:
                return "%s with exclusion set %r: kept %r, expected %r" % (kind, sorted(excl), sorted(ex[kind])[:6], sorted(want)[:6])
            for t in want:
                if ex[kind][t][1] != base[kind][t][1]:
                    return "%s %r changes coefficients when unrelated terms are excluded" % (kind, t)
    return None


def check_retype(types):
    from mofun import rough_uff as U
    from mofun.atomic_masses import ATOMIC_MASSES
    a = mk_atoms([(i, i + 1) for i in range(len(types) - 1)], types)
    # typed once, then typed again with the same SET of types distributed differently over the atoms (and once more with a repeated type)
    rounds = [list(types), list(types[1:]) + list(types[:1]), [types[0]] * (len(types) - 1) + [types[-1]]]
    for r, assigned in enumerate(rounds):
        with quiet():
            U.retype_atoms_from_uff_types(a, assigned)
        for i, t in enumerate(assigned):
            k = int(a.atom_types[i])
            el = t[0:2].replace('_', '')
            if a.atom_type_labels[k] != t or a.atom_type_elements[k] != el or a.atom_type_masses[k] != ATOMIC_MASSES[el]:
                return "atom %d of UFF type %s resolves to label %r element %r mass %r (typing round %d: %r)" % (
                    i, t, a.atom_type_labels[k], a.atom_type_elements[k], a.atom_type_masses[k], r, assigned)
        if len(set(a.atom_type_labels)) != len(a.atom_type_labels):
            return "duplicate labels in the rebuilt type table"
    return None


def replay(inp):
    if inp['what'] == 'enumeration':
        msg = check_enumeration([tuple(e) for e in inp['edges']], inp['seed'])
    elif inp['what'] == 'typing':
        msg = check_typing([tuple(e) for e in inp['edges']], inp['scheme'], inp['seed'])
    else:
        try:
            msg = check_retype(inp['types'])
        except Exception as e:
            msg = "retype_atoms_from_uff_types raised %r for types %r" % (e, inp['types'])
    return (msg is not None), (msg or 'holds')


REPLAY = {'uffterms': replay}


def run(rec, tier, seed):
    from mofun.uff4mof import UFF4MOF
    rec.rule = ("all labelled trees with <= 5 nodes (every 5th for n=5 in quick), rings 4-6, spiro / fused ring assemblies, a 6-coordinate metal "
                "node, a disconnected graph; bonds listed in shuffled order and direction; 3 UFF type assignments by degree; 2 renamings + term "
                "list permutations each; an exclusion set; retyping with every one of the 221 UFF types. distinct = (graph, scheme, seed)")
    for gi, (name, edges) in enumerate(graphs(tier)):
        if has_triangle(edges):
            continue
        for v in range(2):
            msg = check_enumeration(edges, seed + v)
            rec.case(('enum', name, gi, v), group='enumeration', sample={'graph': name, 'edges': edges} if len(rec.samples) < 2 else None)
            if msg:
                rec.fail('uffterms', 'enumeration', "%s on %s %r" % (msg, name, edges), {'what': 'enumeration', 'edges': edges, 'seed': seed + v}, 'C19/calc_angles,calc_dihedrals')
        for scheme in range(4):
            msg = check_typing(edges, scheme, seed + gi)
            rec.case(('typing', name, gi, scheme), group='typing')
            if msg:
                rec.fail('uffterms', 'typing', "%s on %s %r scheme %d" % (msg, name, edges, scheme), {'what': 'typing', 'edges': edges, 'scheme': scheme, 'seed': seed + gi}, 'C19/assign_types')
    keys = list(UFF4MOF)
    for i in range(0, len(keys), 3):
        types = keys[i:i + 3]
        try:
            msg = check_retype(types)
        except Exception as e:
            msg = "retype_atoms_from_uff_types raised %r for types %r" % (e, types)
        rec.case(('retype', tuple(types)), group='retype')
        if msg:
            bad = [t for t in types if t in ('Du', 'Lw6+3')]
            rec.fail('uffterms', 'retype-Du-Lw' if bad else 'retype', msg, {'what': 'retype', 'types': types}, 'C19/retype')
