"""C02 bounded stage: every planted occurrence is found exactly once (completeness is BOUNDED only, see DESIGN C02)."""
import random
import numpy as np
from bounded.common import quiet
from bounded import geo
from bounded.C01 import make_case, search, specs as c01_specs


def expected_groups(case):
    groups = {geo.group_key(p) for p in case['planted']}
    if len(case['pattern'].positions) == 1:
        e = case['pattern'].elements[0]
        groups |= {(i,) for i, x in enumerate(case['structure'].elements) if x == e}
    return groups


def check_case(spec):
    case = make_case(spec)
    case['verbose'] = bool(spec.get('verbose'))
    atol = spec.get('atol', 0.05)
    try:
        idxs, poss, quats = search(case, spec)
    except Exception as e:
        return "find_pattern_in_structure raised %r" % (e,), 0
    found = [geo.group_key(m) for m in idxs]
    want = expected_groups(case)
    if len(found) != len(set(found)):
        dup = sorted(g for g in set(found) if found.count(g) > 1)
        return "atom group(s) %r reported more than once" % (dup,), len(found)
    missing = sorted(want - set(found))
    extra = sorted(set(found) - want)
    # a look-alike (near miss, bent copy) whose best proper rigid fit is within the acceptance bound of C01 (2*sqrt(3)*atol per atom) is not
    # "clearly outside the tolerance": reporting it is neither required nor forbidden
    grey = {geo.group_key(g) for g, kind, dev in case.get('lookalikes', []) if dev <= 2 * np.sqrt(3) * atol}
    extra = [g for g in extra if g not in grey]
    if missing:
        return "planted occurrence(s) %r not reported (found %r)" % (missing, sorted(found)), len(found)
    if extra:
        return "reported group(s) %r are not planted occurrences (decoy / near miss / mirror image)" % (extra,), len(found)
    return None, len(found)


def replay(inp):
    msg, n = check_case(inp)
    return (msg is not None), (msg or '%d occurrences, each found once' % n)


REPLAY = {'find': replay}


def run(rec, tier, seed):
    rec.rule = ("same generator as C01 (7 shapes x 4 cells x random poses x boundary-straddling placements x decoys x hints x RNG states): the set "
                "of reported atom groups must equal the set of planted occurrences, each once. BOUNDED stand-in for completeness. "
                "distinct = generator specs; non-trivial = at least one planted occurrence")
    for spec in c01_specs(tier, seed + 1):
        msg, n = check_case(spec)
        rec.case(repr(sorted(spec.items())), nontrivial=True, sample=spec if len(rec.samples) < 3 else None)
        if msg:
            rec.fail('find', 'find-exactly-once', "%s on %r" % (msg, spec), spec, 'C02/find/planted==found')
    rec.bounds = {'atol': 0.05, 'noise_max': 0.008, 'copies_max': 4}
