"""C03 bounded stage: metamorphic relations of find_pattern_in_structure on the real code (BOUNDED stand-in)."""
import itertools, os, random
import numpy as np
from scipy.spatial.transform import Rotation as R
from bounded.common import quiet
from bounded import geo
from bounded.C01 import make_case

REPO = os.environ.get('MOFUN_REPO', '/repo')


def groups(S, P, atol=0.05, seed=0, **hints):
    from mofun import find_pattern_in_structure
    random.seed(seed)
    np.random.seed(seed)
    with quiet():
        res = find_pattern_in_structure(S, P, atol=atol, **hints)
    return sorted(geo.group_key(m) for m in res)


def boundary_case(rnd):
    """Planar 5-atom pattern; the structure holds a copy whose interior atom is displaced out of plane by 1.0008 atol:
    it must be rejected wherever the copy sits in the cell (translation invariance of the tolerance)."""
    from mofun import Atoms
    els = 'CNOFH'
    coords = np.array([[0., 0, 0], [3.0, 0, 0], [0.2, 2.6, 0], [2.7, 2.4, 0], [1.4, 1.1, 0]])
    cell = geo.CELLS['cubic']
    pts = coords + np.array([1.5, 1.5, 1.5])
    pts[4, 2] += 1.0008 * 0.05
    with quiet():
        S = Atoms(elements=list(els), positions=pts, cell=cell)
        P = Atoms(elements=list(els), positions=coords)
    return dict(structure=S, pattern=P, cell=cell, planted=[], special='boundary')


def load_case(spec):
    if spec.get('special') == 'boundary':
        return boundary_case(random.Random(spec['seed']))
    if spec.get('file'):
        from mofun import Atoms
        with quiet():
            S = Atoms.load(os.path.join(REPO, spec['file']))
            P = Atoms.load(os.path.join(REPO, spec['patfile']))
        return dict(structure=S, pattern=P, cell=np.asarray(S.cell))
    return make_case(spec)


def transformed(case, t):
    """Returns (S', P', rename) where rename maps a group of the original to the expected group, hints, factor."""
    from mofun import Atoms
    S, P = case['structure'], case['pattern']
    kind = t[0]
    with quiet():
        if kind == 'shift':
            S2 = S.copy()
            S2.positions = geo.wrap(case['cell'], S.positions + np.array(t[1]))
            return S2, P, (lambda g: g), {}, 1
        if kind == 'perm':
            rnd = random.Random(t[1])
            perm = list(range(len(S.positions)))
            rnd.shuffle(perm)            # new index j holds old atom perm[j]
            S2 = S[perm]
            S2.cell = S.cell
            inv = {old: new for new, old in enumerate(perm)}
            return S2, P, (lambda g: tuple(sorted(inv[i] for i in g))), {}, 1
        if kind == 'motion':
            rnd = random.Random(t[1])
            q = np.array([rnd.gauss(0, 1) for _ in range(4)])
            rot = R.from_quat(q / np.linalg.norm(q))
            P2 = P.copy()
            P2.positions = rot.apply(P.positions) + np.array([rnd.uniform(-7, 7) for _ in range(3)])
            return S, P2, (lambda g: g), {}, 1
        if kind == 'hints':
            return S, P, (lambda g: g), t[1], 1
        if kind == 'seed':
            return S, P, (lambda g: g), {'__seed': t[1]}, 1
        if kind == 'repl':
            S2 = S.replicate(t[1])
            return S2, P, None, {}, int(np.prod(t[1]))
    raise ValueError(kind)


def valid_hints(P):
    n = len(P.positions)
    out = []
    pos = np.asarray(P.positions)
    for a, b in itertools.permutations(range(n), 2):
        if n < 3:
            out.append(dict(axisp1_idx=a, axisp2_idx=b))
            continue
        for o in range(n):
            if o in (a, b):
                continue
            ax = pos[b] - pos[a]
            v = pos[o] - pos[a]
            if np.linalg.norm(np.cross(ax, v)) / np.linalg.norm(ax) > 0.3:      # orientation point clearly off the axis
                out.append(dict(axisp1_idx=a, axisp2_idx=b, opoint_idx=o))
    for a in range(n):
        out.append(dict(axisp1_idx=a))
        out.append(dict(axisp2_idx=a))
    return out


def check(spec, t):
    case = load_case(spec)
    atol = spec.get('atol', 0.05)
    try:
        base = groups(case['structure'], case['pattern'], atol)
        S2, P2, rename, hints, factor = transformed(case, t)
        seed = hints.pop('__seed', 0)
        got = groups(S2, P2, atol, seed, **hints)
    except Exception as e:
        return "raised %r" % (e,), 0
    if rename is None:
        if len(got) != factor * len(base):
            return "supercell %r reports %d matches, unit cell %d (expected %d)" % (t[1], len(got), len(base), factor * len(base)), len(base)
        return None, len(base)
    want = sorted(rename(g) for g in base)
    if got != want:
        return "matched groups differ after %r: %r vs expected %r" % (t, got[:6], want[:6]), len(base)
    return None, len(base)


def replay(inp):
    msg, n = check(inp['spec'], tuple(inp['t']) if not isinstance(inp['t'][1], dict) else (inp['t'][0], inp['t'][1]))
    return (msg is not None), (msg or 'relation holds (%d matches)' % n)


REPLAY = {'relation': replay}


def transforms(case, tier, seed):
    ts = [('shift', v) for v in ([0.3, 0.0, 0.0], [7.1, 0, 0], [0, 9.9, 0], [0, 0, 11.7], [15.0, 15.0, 15.0], [-3.3, 8.8, 2.2],
                                 [9.5, 10.5, 12.0], [0.001, -0.001, 19.999])]
    ts += [('perm', seed + i) for i in range(3 if tier == 'quick' else 5)]
    ts += [('motion', seed + i) for i in range(3 if tier == 'quick' else 6)]
    ts += [('seed', s) for s in (1, 7)]
    ts += [('repl', r) for r in ((1, 1, 2), (2, 1, 1), (2, 2, 1))]
    return ts


def run(rec, tier, seed):
    rec.rule = ("relations between two runs of the real search: shift-and-wrap (8 vectors incl. ones that move atoms across each face), atom "
                "permutations, rigid motions of the pattern, every valid hint triple (incl. index 0) for patterns <= 5 atoms, RNG seeds, "
                "supercells (1,1,2),(2,1,1),(2,2,1); base cases = planted structures of C01 plus a copy at the tolerance boundary; thorough adds "
                "the repository's UiO-66 files. distinct = (base case, transformation); non-trivial = base case has >= 1 match or is the "
                "boundary case")
    bases = [dict(special='boundary', seed=0)]
    pats = ['pair', 'collinear3', 'planar3', 'chiral4', 'sym5', 'sym3']
    cells = list(geo.CELLS)
    rnd = random.Random(seed)
    for pi, pat in enumerate(pats):
        for ci, cell in enumerate(cells):
            if tier == 'quick' and (pi + ci) % 2:
                continue
            bases.append(dict(cell=cell, pattern=pat, copies=2, seed=seed * 100 + pi * 10 + ci, decoys=2, noise=0.004,
                              mirror=1 if pat == 'chiral4' else 0, near_miss=1))
    for cell in ('cubic', 'rhombo', 'rhombo-'):
        bases.append(dict(special='through-faces', cell=cell, pattern='long5', seed=seed * 100 + 77))
    for pat in ('pair-y', 'collinear3-y', 'planar3-y', 'planar3-z'):
        for which in range(3):
            bases.append(dict(special='axis-poses', cell='cubic', pattern=pat, which=which, seed=seed * 100 + 78))
    # occurrences that overlap and are met from two start atoms each (CH2 chain, atoms listed in random order; a centre with four equivalent neighbours)
    for k in range(2 if tier == 'quick' else 6):
        bases.append(dict(special='alkane', seed=seed * 100 + 40 + k))
        bases.append(dict(special='methane', seed=seed * 100 + 60 + k))
    for spec in bases:
        case = load_case(spec)
        ts = transforms(case, tier, seed)
        if spec.get('special') == 'boundary':
            ts = [t for t in ts if t[0] in ('shift', 'perm', 'motion')]
        else:
            hs = valid_hints(case['pattern'])
            if tier == 'quick':
                hs = hs[::3] if not spec.get('special') else hs[::2]
            ts += [('hints', h) for h in hs]
            if spec.get('special') == 'axis-poses':
                ts = [t for t in ts if t[0] in ('motion', 'seed', 'hints', 'perm')]
        for t in ts:
            msg, n = check(spec, t)
            rec.case(repr((sorted(spec.items()), t)), nontrivial=(n > 0 or bool(spec.get('special'))),
                     sample={'base': spec, 'transformation': list(t)} if len(rec.samples) < 3 else None, group=t[0])
            if msg:
                rec.fail('relation', 'find-relation-' + t[0], "%s on %r" % (msg, spec), {'spec': spec, 't': list(t)}, 'C03/relational/' + t[0])
    if tier == 'thorough':
        for f, pf in (('tests/uio66/uio66.cif', 'tests/uio66/uio66-linker.cml'), ('tests/uio66/uio66-triclinic.cif', 'tests/uio66/uio66-linker.cml')):
            spec = dict(file=f, patfile=pf)
            for t in [('shift', [3.3, 0, 0]), ('shift', [1.0, 2.0, 3.0]), ('perm', 1), ('motion', 2), ('seed', 5)]:
                msg, n = check(spec, t)
                rec.case(repr((f, t)), nontrivial=n > 0, group='mof-' + t[0])
                if msg:
                    rec.fail('relation', 'find-relation-' + t[0], "%s on %s" % (msg, f), {'spec': spec, 't': list(t)}, 'C03/relational/' + t[0])
    rec.bounds = {'atol': 0.05}


def replay_hints(inp):
    """Counter-model of the hint-normalisation obligation: the search with these hints must equal the hint-free search."""
    spec = dict(cell='ortho', pattern='chiral4', copies=2, seed=5, decoys=2)
    h = {k: int(v) for k, v in inp['hints'].items()}
    n = len(geo.PATTERNS['chiral4'][0])
    if any(v < 0 or v >= n for v in h.values()):
        h = {k: min(max(v, 0), n - 1) for k, v in h.items()}
    if len(h) == 2 and len(set(h.values())) == 1:
        return False, 'hint points coincide: outside the property domain'
    msg, k = check(spec, ('hints', h))
    return (msg is not None), (msg or 'hints %r give the same %d groups' % (h, k))


REPLAY['hints'] = replay_hints
