"""C04 bounded stage: replacement changes exactly the matched atoms (real code, planted structures)."""
import random
from collections import Counter
import numpy as np
from bounded.common import quiet
from bounded import geo, gen, repl


def check(spec):
    case = repl.planted(spec['cell'], spec['pair'], spec['copies'], spec['seed'], near_miss=spec.get('near_miss', 0), atol=spec.get('atol', 0.05), noise=spec.get('noise', 0.0), unwrapped=spec.get('unwrapped', False))
    sp, rp = repl.patterns(spec['pair'], with_terms=spec.get('extras', False), extras=spec.get('extras', False), relabel=spec.get('relabel', False))
    S = case['structure']
    cell = case['cell']
    f = spec.get('f', 1.0)
    replace_all = spec.get('replace_all', False)
    before = [repl.snapshot(x) for x in (S, sp, rp)]
    try:
        res, num = repl.do_replace(case, sp, rp, seed=spec.get('rng', 0), replace_fraction=f, replace_all=replace_all, **({'atol': spec['atol']} if 'atol' in spec else {}), **({'verbose': True} if spec.get('verbose') else {}))
    except Exception as e:
        return "replace_pattern_in_structure raised %r" % (e,)
    after = [repl.snapshot(x) for x in (S, sp, rp)]
    for name, b, a in zip(('structure', 'search pattern', 'replacement pattern'), before, after):
        if a != b:
            return "the input %s was modified by the call" % name
    M = len(case['planted'])
    m = M if f >= 1.0 else round(f * M)
    if num != m:
        return "reported match count %r, expected %d (%d found, fraction %r)" % (num, m, M, f)
    smap = {} if replace_all else repl.shared_map(sp, rp)            # replace idx -> search idx
    s_only = [j for j in range(len(sp.positions)) if j not in smap.values()]
    r_only = [i for i in range(len(rp.positions)) if i not in smap]
    N = len(S.positions)
    orig, out = before[0]['atoms'], repl.snapshot(res)['atoms']
    if len(out) != N - m * len(s_only) + m * len(r_only):
        return "result has %d atoms, expected %d - %d*%d + %d*%d" % (len(out), N, m, len(s_only), m, len(r_only))
    want_counts = Counter(a['el'] for a in orig)
    for j in s_only:
        want_counts[sp.elements[j]] -= m
    for i in r_only:
        want_counts[rp.elements[i]] += m
    got_counts = Counter(a['el'] for a in out)
    if +want_counts != +got_counts:
        return "per-element counts %r, expected %r" % (dict(got_counts), dict(+want_counts))
    # which planted matches were replaced: their search-only atoms are gone
    def present(idx):
        a = orig[idx]
        return any(b['el'] == a['el'] and repl.lattice_equal(cell, a['pos'], b['pos'], 1e-6) for b in out)
    geo_shared = repl.shared_map(sp, rp)
    s_vanish = [j for j in range(len(sp.positions)) if j not in geo_shared.values()]   # atoms with no same-element atom at the same place
    replaced = []
    for tup in case['planted']:
        gone = [not present(tup[j]) for j in s_vanish]
        if s_vanish and all(gone):
            replaced.append(tup)
        elif s_vanish and any(gone):
            return "match %r was only partly replaced" % (tup,)
    if s_vanish and len(replaced) != m:
        return "%d matches lost their search-only atoms, expected %d" % (len(replaced), m)
    D = {tup[j] for tup in replaced for j in s_only} if s_vanish else set()
    retained = {tup[j] for tup in replaced for j in smap.values()}
    surv = [i for i in range(N) if i not in D]
    if s_vanish or m == 0:
        for k, i in enumerate(surv):
            a, b = orig[i], out[k]
            if not (np.allclose(a['pos'], b['pos'], atol=1e-9) and a['q'] == b['q'] and a['grp'] == b['grp']):
                return "surviving atom %d (now %d) changed position/charge/group: %r -> %r" % (i, k, a, b)
            if i not in retained and (a['el'], a['label'], a['mass']) != (b['el'], b['label'], b['mass']):
                return "bystander atom %d changed element/label/mass: %r -> %r" % (i, a, b)
            if i in retained and a['el'] != b['el']:
                return "retained atom %d changed element" % i
    return None


def replay(inp):
    msg = check(inp)
    return (msg is not None), (msg or 'replacement changed exactly the matched atoms')


REPLAY = {'replace': replay}


def specs(tier, seed):
    out = []
    cells = list(geo.CELLS)
    pairs = ['shrink-shared', 'grow-shared', 'swap-element', 'empty', 'disjoint', 'identical', 'single-swap', 'sym-grow', 'collinear-swap', 'nudge-swap', 'grow-interleaved', 'to-single-offset']
    for pi, pair in enumerate(pairs):
        for ci, cell in enumerate(cells):
            if tier == 'quick' and (pi + ci) % 2:
                continue
            for f in (0.0, 0.25, 0.5, 0.75, 1.0):
                for ra in (False, True):
                    if tier == 'quick' and ra and f not in (0.5, 1.0):
                        continue
                    out.append(dict(cell=cell, pair=pair, copies=4, seed=seed * 100 + pi * 7 + ci, f=f, replace_all=ra, rng=pi + ci))
    # a single occurrence (and none): the fraction still decides how many are replaced (round(f * 1) = 0 for f < 0.5)
    for pi, pair in enumerate(['swap-element', 'grow-shared', 'shrink-shared']):
        for f in (0.0, 0.25, 0.49, 0.5, 0.75):
            out.append(dict(cell=cells[pi % len(cells)], pair=pair, copies=1, seed=seed * 100 + 85 + pi, f=f, replace_all=False, rng=pi))
    # replacement patterns that carry terms and extra (CIF-style) columns the structure lacks
    for pi, pair in enumerate(['grow-shared', 'swap-element', 'disjoint']):
        for f in (0.5, 1.0):
            out.append(dict(cell='ortho', pair=pair, copies=3, seed=seed * 100 + 70 + pi, f=f, replace_all=False, rng=pi, extras=True))
    # a tolerance other than the default, with a distorted copy that is clearly outside it (2.5 atol): replaced are the occurrences found at THAT tolerance
    for pi, pair in enumerate(['swap-element', 'grow-shared', 'shrink-shared', 'disjoint']):
        for atol in (0.01, 0.02, 0.1):
            out.append(dict(cell=cells[(pi + 1) % len(cells)], pair=pair, copies=2, seed=seed * 100 + 60 + pi, f=1.0, replace_all=False, rng=pi, near_miss=1, atol=atol))
    # copies stored whole across the cell boundary (atoms outside the box): they are found, replaced, and the input is left as it was
    for pi, pair in enumerate(['swap-element', 'grow-shared', 'shrink-shared', 'disjoint']):
        out.append(dict(cell=cells[(pi + 1) % len(cells)], pair=pair, copies=3, seed=seed * 100 + 30 + pi, f=1.0, replace_all=bool(pi % 2), rng=pi, unwrapped=True))
    # progress printing switched on
    for pi, pair in enumerate(['swap-element', 'grow-shared', 'shrink-shared', 'empty']):
        out.append(dict(cell=cells[pi % len(cells)], pair=pair, copies=3, seed=seed * 100 + 40 + pi, f=1.0 if pi % 2 else 0.5, replace_all=False, rng=pi, verbose=True))
    # the replacement names its atom types differently; slightly distorted copies (retained atoms stay where they are)
    for pi, pair in enumerate(['swap-element', 'grow-shared', 'shrink-shared', 'grow-interleaved']):
        for noise in (0.0, 0.01):
            out.append(dict(cell=cells[(pi + 2) % len(cells)], pair=pair, copies=3, seed=seed * 100 + 50 + pi, f=1.0, replace_all=False, rng=pi, relabel=True, noise=noise))
    return out


def run(rec, tier, seed):
    rec.rule = ("planted structures (4 cells, boundary-straddling copies, decoys) x 9 search/replacement pattern pairs (empty, smaller, equal, "
                "larger, with/without shared atoms, symmetric, collinear) x fractions {0,.25,.5,.75,1} x replace_all on/off; checks atom count, "
                "per-element counts, reported count = round(f*M), bystanders unchanged in order, retained atoms in place, inputs unmodified. "
                "distinct = generator specs; non-trivial = at least one match replaced")
    for spec in specs(tier, seed):
        msg = check(spec)
        rec.case(repr(sorted(spec.items())), nontrivial=spec['f'] > 0, sample=spec if len(rec.samples) < 3 else None)
        if msg:
            rec.fail('replace', 'replace-frame', "%s on %r" % (msg, spec), spec, 'C04/replace_pattern_in_structure/post')
