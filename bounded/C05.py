"""C05 bounded stage: inserted atoms land where the replacement pattern says, modulo the lattice (real code)."""
import random
import numpy as np
from scipy.spatial.transform import Rotation as R
from bounded.common import quiet
from bounded import geo, repl

ATOL = 0.05


def check(spec):
    case = repl.planted(spec['cell'], spec['pair'], spec['copies'], spec['seed'], tilt=spec.get('tilt'))
    motion = None
    if spec.get('motion') is not None:
        rnd = random.Random(spec['motion'])
        q = np.array([rnd.gauss(0, 1) for _ in range(4)])
        motion = (R.from_quat(q / np.linalg.norm(q)), np.array([rnd.uniform(-6, 6) for _ in range(3)]))
    sp0, rp0 = repl.patterns(spec['pair'])
    sp, rp = repl.patterns(spec['pair'], motion)
    if spec.get('pattern_cell'):
        # patterns that come with a cell of their own (loaded from a CIF / LAMMPS file): it has no bearing on where atoms go in the structure
        sp.cell = np.eye(3) * spec['pattern_cell']
        rp.cell = np.array([[spec['pattern_cell'], 0, 0], [1.0, spec['pattern_cell'] + 1.0, 0], [0, 0.5, spec['pattern_cell'] + 2.0]])
    S, cell = case['structure'], case['cell']
    N = len(S.positions)
    f = spec.get('f', 1.0)
    try:
        kw = {}
        if spec.get('hints'):
            kw = dict(zip(('axisp1_idx', 'axisp2_idx', 'opoint_idx'), spec['hints']))
        if spec.get('replace_all'):
            kw['replace_all'] = True
        res, num = repl.do_replace(case, sp, rp, seed=spec.get('rng', 0), replace_fraction=f, **kw)
    except Exception as e:
        return "replace_pattern_in_structure raised %r" % (e,)
    smap = {} if spec.get('replace_all') else repl.shared_map(sp0, rp0)      # replace_all: every atom of the replacement is inserted
    s_only = [j for j in range(len(sp0.positions)) if j not in smap.values()]
    r_only = [i for i in range(len(rp0.positions)) if i not in smap]
    M = num
    n_new = M * len(r_only)
    surv = N - M * len(s_only)
    if len(res.positions) != surv + n_new:
        return "result has %d atoms, expected %d" % (len(res.positions), surv + n_new)
    newpos = res.positions[surv:]
    fr = geo.frac(cell, newpos)
    if len(fr) and (fr.min() < -1e-9 or fr.max() > 1 + 1e-9):
        bad = int(np.argmax(np.abs(fr - 0.5).max(axis=1)))
        return "inserted atom %d lies outside the unit cell: fractional coordinates %r" % (surv + bad, list(np.round(fr[bad], 6)))
    if not r_only:
        return None
    # each inserted atom belongs to one match; the union (matched atoms + inserted atoms) must be a proper rigid image
    # of (search coordinates + replacement-only coordinates), modulo lattice vectors
    union_pat = np.vstack([sp0.positions, rp0.positions[r_only]])
    used = set()
    for b in range(M):
        blk = newpos[b * len(r_only):(b + 1) * len(r_only)]
        best = None
        for mi, (tup, (rot, centre)) in enumerate(zip(case['planted'], case['poses'])):
            if mi in used:
                continue
            ideal_s = rot.apply(sp0.positions - sp0.positions.mean(axis=0)) + centre
            pts = []
            for p in blk:
                d = geo.frac(cell, p - centre)
                pts.append(centre + (d - np.round(d)).dot(cell))
            dev = geo.best_rigid_fit(union_pat, np.vstack([ideal_s, np.array(pts)]))
            if best is None or dev < best[0]:
                best = (dev, mi)
        # the planted copies are exact rigid images (no noise): the rotation found is exact and so is the placement, up to rounding;
        # with distorted copies the frame is only determined to the scale of the tolerance
        if best is None or best[0] > (4 * ATOL if spec.get('noise') else 1e-4):
            return "atoms inserted for replaced match #%d are not placed in the frame of any matched pattern (best proper rigid fit deviates %.4f)" % (b, best[0] if best else -1)
        used.add(best[1])
    return None


def check_fresh(spec):
    """The result depends only on the observable content of the structure: a structure that went through earlier operations
    (replace, replicate, cell assignment) behaves like a freshly constructed object with the same arrays."""
    from mofun import Atoms
    case = repl.planted(spec['cell'], spec['pair'], spec['copies'], spec['seed'], tilt=spec.get('tilt'))
    sp, rp = repl.patterns(spec['pair'])
    S = case['structure']
    with quiet():
        try:
            s1, _ = repl.do_replace(case, sp, sp.copy(), seed=1)          # a first (self) replacement
            if spec['history'] == 'replicate':
                s2 = s1.replicate(tuple(spec.get('repl', (1, 2, 1))))
            else:
                s2 = s1.copy()
                s2.cell = np.asarray(s1.cell) * np.array([[1.0], [1.5], [1.0]])
            fresh = Atoms(atom_types=np.array(s2.atom_types), positions=np.array(s2.positions), charges=np.array(s2.charges), groups=np.array(s2.groups),
                          atom_type_elements=list(s2.atom_type_elements), atom_type_masses=list(s2.atom_type_masses),
                          atom_type_labels=list(s2.atom_type_labels), cell=np.array(s2.cell))
            r1, n1 = repl.do_replace(dict(structure=s2), sp, rp, seed=2)
            r2, n2 = repl.do_replace(dict(structure=fresh), sp, rp, seed=2)
        except Exception as e:
            return "raised %r" % (e,)
    if n1 != n2 or len(r1.positions) != len(r2.positions):
        return "a structure with history %r gives %d matches / %d atoms, an equal fresh structure %d / %d" % (spec['history'], n1, len(r1.positions), n2, len(r2.positions))
    if not np.allclose(r1.positions, r2.positions, atol=1e-8):
        k = int(np.argmax(np.abs(r1.positions - r2.positions).max(axis=1)))
        return "after %r the replacement places atom %d at %r, on an equal fresh structure at %r" % (spec['history'], k, list(np.round(r1.positions[k], 4)), list(np.round(r2.positions[k], 4)))
    fr = geo.frac(np.asarray(s2.cell), r1.positions[len(s2.positions) - 0:]) if False else geo.frac(np.asarray(s2.cell), r1.positions)
    return None


def check_motion(spec):
    """Joint rigid motion of both patterns does not change the result."""
    a = dict(spec, motion=None)
    case = repl.planted(a['cell'], a['pair'], a['copies'], a['seed'])
    sp, rp = repl.patterns(a['pair'])
    rnd = random.Random(spec['motion'])
    q = np.array([rnd.gauss(0, 1) for _ in range(4)])
    sp2, rp2 = repl.patterns(a['pair'], (R.from_quat(q / np.linalg.norm(q)), np.array([rnd.uniform(-6, 6) for _ in range(3)])))
    try:
        r1, _ = repl.do_replace(case, sp, rp, seed=1)
        r2, _ = repl.do_replace(case, sp2, rp2, seed=1)
    except Exception as e:
        return "raised %r" % (e,)
    if len(r1.positions) != len(r2.positions) or list(r1.elements) != list(r2.elements):
        if sorted(r1.elements) != sorted(r2.elements):
            return "moving both patterns together changes the atoms of the result (%d vs %d atoms)" % (len(r1.positions), len(r2.positions))
    cell = case['cell']
    A = sorted(zip(r1.elements, map(tuple, np.round(geo.frac(cell, r1.positions) % 1.0, 3) % 1.0)))
    for e, p in zip(r2.elements, r2.positions):
        if not any(e == e1 and repl.lattice_equal(cell, p, q1, 1e-4) for e1, q1 in zip(r1.elements, r1.positions)):
            return "moving both patterns together moves an atom of the result (%s at %r)" % (e, list(np.round(p, 4)))
    return None


def replay(inp):
    if inp.get('history'):
        msg = check_fresh(inp)
        return (msg is not None), (msg or 'history-independent')
    msg = check_motion(inp) if inp.get('relation') else check(inp)
    return (msg is not None), (msg or 'placement agrees')


REPLAY = {'placement': replay}


def run(rec, tier, seed):
    rec.rule = ("[+ partial replacement f=0.5; + axis / orientation hints naming non-default atoms; + history independence: replace / replicate / cell assignment before the replacement behaves like a "
                "fresh equal structure] planted structures in 4 cells (incl. both tilt signs), copies straddling faces/edges/corners, pattern pairs with inserted atoms "
                "(grow-shared, swap-element, disjoint, sym-grow, collinear-swap, single-swap); checks: every inserted atom inside the cell "
                "(fractional in [0,1]), matched + inserted atoms form a proper rigid image of search + replacement coordinates modulo the "
                "lattice (exact copies: bound 1e-4 A), result invariant under a joint rigid motion of both patterns. distinct = specs")
    pairs = ['grow-shared', 'swap-element', 'disjoint', 'sym-grow', 'collinear-swap', 'single-swap', 'grow-planar', 'nudge-swap', 'to-single-offset']
    cells = list(geo.CELLS)
    nseed = 2 if tier == 'quick' else 6
    for pi, pair in enumerate(pairs):
        for ci, cell in enumerate(cells):
            for s in range(nseed):
                spec = dict(cell=cell, pair=pair, copies=3, seed=seed * 100 + pi * 11 + ci * 3 + s, rng=s, f=1.0 if s % 2 == 0 else 0.5)
                msg = check(spec)
                rec.case(repr(sorted(spec.items())), sample=spec if len(rec.samples) < 2 else None, group='placement')
                if msg:
                    rec.fail('placement', 'placement', "%s on %r" % (msg, spec), spec, 'C05/placement')
                if s == 0 and pair in ('grow-shared', 'disjoint', 'grow-planar', 'swap-element'):
                    # copies exactly aligned with the pattern as written, and turned by angles that are small numbers when read as a length
                    spt = dict(spec, f=1.0, tilt=[0.0, 0.03, 0.047, 0.012])
                    msg = check(spt)
                    rec.case(repr(sorted(spt.items())), group='placement-small-tilt')
                    if msg:
                        rec.fail('placement', 'placement', "%s on %r" % (msg, spt), spt, 'C05/placement')
                if s == 0 and pair in ('grow-shared', 'disjoint', 'grow-planar', 'swap-element'):
                    spi = dict(spec, f=1.0, copies=4, tilt='inverse-pairs')
                    msg = check(spi)
                    rec.case(repr(sorted(spi.items())), group='placement-inverse-poses')
                    if msg:
                        rec.fail('placement', 'placement', "%s on %r" % (msg, spi), spi, 'C05/placement')
                if s == 0 and pair in ('grow-shared', 'swap-element', 'grow-planar', 'single-swap'):
                    # every atom replaced, also those the two patterns share
                    spa = dict(spec, f=1.0, replace_all=True)
                    msg = check(spa)
                    rec.case(repr(sorted(spa.items())), group='placement-replace-all')
                    if msg:
                        rec.fail('placement', 'placement', "%s on %r" % (msg, spa), spa, 'C05/placement')
                if s == 0 and pair in ('grow-shared', 'disjoint', 'swap-element'):
                    spc = dict(spec, f=1.0, pattern_cell=[6.0, 40.0][(pi + ci) % 2])
                    msg = check(spc)
                    rec.case(repr(sorted(spc.items())), group='placement-pattern-with-cell')
                    if msg:
                        rec.fail('placement', 'placement', "%s on %r" % (msg, spc), spc, 'C05/placement')
                # joint-motion invariance is only meaningful when the matched frame is determined: a collinear / symmetric search
                # pattern with off-axis replacement atoms leaves the azimuth of the inserted atoms undetermined (DESIGN C05)
                if s == 0 and pair in ('disjoint', 'swap-element', 'grow-planar'):
                    # caller-supplied axis / orientation hints (every role given to an atom other than the default one)
                    for hints in ((1, 0, 2), (2, 0, 1), (1, 2, 0)):
                        sph = dict(spec, hints=list(hints), f=1.0)
                        msg = check(sph)
                        rec.case(repr(sorted(sph.items())), group='placement-hints')
                        if msg:
                            rec.fail('placement', 'placement', "%s on %r" % (msg, sph), sph, 'C05/placement')
                if s == 0:
                    for hist in ('replicate', 'cell'):
                        sp3 = dict(cell=cell, pair=pair, copies=2, seed=seed * 100 + pi + ci, history=hist)
                        msg = check_fresh(sp3)
                        rec.case(repr(sorted(sp3.items())), group='history')
                        if msg:
                            rec.fail('placement', 'placement-history', "%s on %r" % (msg, sp3), sp3, 'C05/history-independence')
                if s == 0 and pair not in ('grow-shared', 'sym-grow', 'to-single-offset'):      # two-atom / symmetric search patterns leave the azimuth open
                    for mo in (1, 2) if tier == 'quick' else (1, 2, 3, 4, 5, 6):
                        sp2 = dict(spec, motion=mo, relation=True)
                        msg = check_motion(sp2)
                        rec.case(repr(sorted(sp2.items())), group='joint-motion')
                        if msg:
                            rec.fail('placement', 'placement-motion', "%s on %r" % (msg, sp2), sp2, 'C05/joint-motion')


def replay_triclinic(inp):
    """Counter-model of a wrap obligation: run the placement checks on the tilted cells."""
    for pair in ('grow-shared', 'disjoint', 'swap-element'):
        for cell in ('tri+', 'tri-', 'ortho'):
            for s in range(4):
                spec = dict(cell=cell, pair=pair, copies=3, seed=900 + s, rng=s)
                msg = check(spec)
                if msg:
                    return True, "%s on %r" % (msg, spec)
    return False, 'placement agrees on tilted cells'


REPLAY['placement-triclinic'] = replay_triclinic
