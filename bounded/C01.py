"""C01 bounded stage: run-time postconditions of find_pattern_in_structure on planted structures (real code)."""
import itertools, random
import numpy as np
from bounded.common import quiet
from bounded import geo

EPS = 1e-7


def match_problems(S, P, idx, pos, q, atol):
    """Postconditions 1-4 of DESIGN section 7/C01 for one reported match; returns list of messages."""
    msgs = []
    n = len(P.positions)
    N = len(S.positions)
    idx = [int(i) for i in idx]
    if len(idx) != n:
        return ["match has %d indices for a %d-atom pattern" % (len(idx), n)]
    if any(i < 0 or i >= N for i in idx):
        return ["match index out of range: %r" % (idx,)]
    if len(set(idx)) != n:
        msgs.append("match lists an atom twice: %r" % (idx,))
    sel, pel = S.elements, P.elements
    if [sel[i] for i in idx] != list(pel):
        msgs.append("elements %r of match %r differ from the pattern's %r" % ([sel[i] for i in idx], idx, list(pel)))
    if pos is not None:
        cell = np.asarray(S.cell)
        for k in range(n):
            f = geo.frac(cell, np.asarray(pos[k]) - S.positions[idx[k]])
            if np.max(np.abs(f - np.round(f))) > 1e-6 or np.max(np.abs(np.round(f))) > 1:
                msgs.append("returned position %r of atom %d is not its stored position plus a neighbour lattice vector (fractional offset %r)" % (list(pos[k]), idx[k], list(np.round(f, 6))))
        if q is not None:
            m = q.as_matrix()
            if abs(np.linalg.det(m) - 1.0) > 1e-6:
                msgs.append("returned rotation is not proper (det %.6f)" % np.linalg.det(m))
            res = np.asarray(pos) - q.apply(np.asarray(P.positions))
            half = (res.max(axis=0) - res.min(axis=0)) / 2.0
            if np.max(half) > atol + EPS:
                msgs.append("returned rotation + best translation leaves a deviation of %.5f > atol %.5f" % (np.max(half), atol))
        # a proper rigid motion must exist at all (mirror images are rejected)
        dev = geo.best_rigid_fit(P.positions, pos)
        if dev > 2 * np.sqrt(3) * atol + EPS:
            msgs.append("matched positions are not a proper rigid image of the pattern (best proper fit deviates %.4f, atol %.4f)" % (dev, atol))
    return msgs


def run_find(case, atol=0.05, hints=None, seed=0):
    from mofun import find_pattern_in_structure
    random.seed(seed)
    np.random.seed(seed)
    kw = dict(hints or {})
    if case.get('verbose'):
        kw['verbose'] = True        # progress printing switched on: same result
    with quiet():
        return find_pattern_in_structure(case['structure'], case['pattern'], return_positions_and_quats=True, atol=atol, **kw)


def search(case, spec):
    """The search of one generated case.  With spec['history'] the same Atoms object is first searched as generated, then modified IN PLACE
    (everything translated by a fixed vector and wrapped back into the cell: the planted index tuples stay what they were) and searched again;
    the result of the second search is what is checked, against the structure as it is then."""
    atol = spec.get('atol', 0.05)
    if spec.get('history'):
        run_find(case, atol, spec.get('hints'), spec.get('rng', 0))
        S = case['structure']
        cell = np.asarray(case['cell'], dtype=float)
        if spec['history'] == 'destroy':
            # (a copy of) the searched object is edited in place: the last atom of the first planted occurrence is moved away, so that
            # occurrence no longer exists and must not be reported; everything else is as it was
            if spec.get('on_copy'):
                S = case['structure'] = S.copy()
            gone = case['planted'][0]
            S.positions[gone[-1]] += np.array([3.1, 2.7, 1.9])
            S.positions[gone[-1]] = geo.wrap(cell, S.positions[gone[-1]])
            case['planted'] = list(case['planted'][1:])
        else:
            S.translate(np.array(spec['history'], dtype=float).dot(cell))
            S.positions[:] = np.array([geo.wrap(cell, p) for p in S.positions])
    return run_find(case, atol, spec.get('hints'), spec.get('rng', 0))


def boundary2_case(offset, atol=0.05):
    """Planar 6-atom pattern; in the structure the two interior atoms are displaced out of plane by +/-1.0008 atol while the axis /
    orientation atoms are exact: no rotation + translation brings every atom within atol, so it must not be reported."""
    from mofun import Atoms
    els = 'CNOFHS'
    coords = np.array([[0., 0, 0], [3.0, 0, 0], [0.2, 2.6, 0], [2.7, 2.4, 0], [1.4, 1.1, 0], [1.7, 1.5, 0]])
    cell = geo.CELLS['cubic']
    pts = coords + np.array(offset, dtype=float)
    pts[4, 2] += 1.0008 * atol
    pts[5, 2] -= 1.0008 * atol
    with quiet():
        S = Atoms(elements=list(els), positions=pts, cell=cell)
        P = Atoms(elements=list(els), positions=coords)
    return dict(structure=S, pattern=P, cell=cell, planted=[], poses=[])


def shared_first_atom_case(seed):
    """One C with two (three) N neighbours at the pattern distance: the occurrences share their first atom, and the neighbour with the
    higher index comes first in coordinate order -- results must stay aligned (k-th index tuple <-> k-th positions <-> k-th rotation)."""
    from mofun import Atoms
    rnd = random.Random(seed)
    cell = geo.CELLS['ortho']
    c = np.array([6.0, 7.0, 8.0]) + np.array([rnd.uniform(-1, 1) for _ in range(3)])
    dirs = [np.array([1.0, 0.2, 0.1]), np.array([-0.7, 0.6, 0.3]), np.array([-0.1, -0.9, 0.4])]
    ns = [c + 1.2 * d / np.linalg.norm(d) for d in dirs]
    order = [0, 1, 2]
    rnd.shuffle(order)
    # far-away spectators first and last so that atom indices and coordinate order are unrelated
    els = ['O', 'C'] + ['N'] * 3 + ['O']
    pts = [np.array([15.0, 2.0, 3.0]), c] + [ns[i] for i in order] + [np.array([2.0, 17.0, 20.0])]
    with quiet():
        S = Atoms(elements=els, positions=np.array(pts), cell=cell)
        P = Atoms(elements=['C', 'N'], positions=np.array([[0., 0, 0], [1.2, 0, 0]]))
    return dict(structure=S, pattern=P, cell=cell, planted=[(1, 2), (1, 3), (1, 4)], poses=[])


def half_cell_apex_case(seed):
    """Chiral four-atom pattern whose apex stands half a cell edge above the base plane, written along the cell's c axis: the mirror image of
    the copy through its base plane consists of the base atoms and a periodic image of the same apex atom.  Only the proper copy may be
    reported (cell widths >= 9 > pattern diameter 6.5 + 2 atol)."""
    from mofun import Atoms
    rnd = random.Random(seed)
    cell = geo.SMALL_CELLS['small'] * np.array([[1.0], [1.0], [0.9]])      # c = 9.0
    coords = np.array([[0., 0, 0], [6.5, 0, 0], [3.2, 5.0, 0], [3.2, 1.5, 4.5]])     # axis C-N, orientation atom O: the apex F is neither
    off = np.array([rnd.uniform(1, 7), rnd.uniform(1, 7), rnd.uniform(0.5, 8.5)])
    ang = rnd.uniform(0, 2 * np.pi)
    rz = np.array([[np.cos(ang), -np.sin(ang), 0], [np.sin(ang), np.cos(ang), 0], [0, 0, 1.0]])
    pts = coords.dot(rz.T) + off
    with quiet():
        S = Atoms(elements=list('CNOF'), positions=np.array([geo.wrap(cell, p) for p in pts]), cell=cell)
        P = Atoms(elements=list('CNOF'), positions=coords)
    return dict(structure=S, pattern=P, cell=cell, planted=[(0, 1, 2, 3)], poses=[])


def methane_case(seed):
    """CH4-like centre with four equivalent neighbours; the pattern is the centre with three of them: four distinct occurrences that pairwise
    share the centre and two neighbours, each with several valid orderings (interleaved in discovery order)."""
    from mofun import Atoms
    rnd = random.Random(seed)
    cell = geo.CELLS['tri+']
    t = np.array([[1, 1, 1], [1, -1, -1], [-1, 1, -1], [-1, -1, 1]], dtype=float) * (1.09 / np.sqrt(3))
    rot = geo.rotations(rnd, 1, include_axis=False)[0]
    c = np.array([rnd.uniform(2, 15), rnd.uniform(2, 15), rnd.uniform(2, 15)])
    pts = [c] + [c + rot.apply(v) for v in t]
    order = [1, 2, 3, 4]
    rnd.shuffle(order)
    els = ['O', 'C'] + ['H'] * 4
    P = [np.array([1.0, 18.0, 20.0])] + [pts[0]] + [pts[i] for i in order]
    with quiet():
        S = Atoms(elements=els, positions=np.array([geo.wrap(cell, p) for p in P]), cell=cell)
        pat = Atoms(elements=list('CHHH'), positions=np.array([[0., 0, 0]] + [list(v) for v in t[:3]]))
    import itertools as _it
    return dict(structure=S, pattern=pat, cell=cell, planted=[(1,) + tuple(2 + i for i in trio) for trio in _it.combinations(range(4), 3)], poses=[])


def element_lookalike_case(seed):
    """Pattern with two-letter element symbols; next to the true copies the structure holds rigid copies in which one atom (never all) carries a
    symbol that is a prefix / an extension of the pattern atom's (Cl -> C, Si -> S, Na -> N; C -> Cl, N -> Na): same geometry,
    other element, so they must not be reported."""
    from mofun import Atoms
    rnd = random.Random(seed)
    cell = geo.CELLS[['cubic', 'tri+', 'ortho'][seed % 3]]
    pel, coords = [(['Si', 'Cl'], [[0., 0, 0], [2.05, 0, 0]]),
                   (['C', 'Cl', 'Na'], [[0., 0, 0], [1.77, 0, 0], [-0.6, 2.1, 0]]),
                   (['Cl', 'C', 'N', 'Si'], [[0., 0, 0], [1.77, 0, 0], [2.4, 1.2, 0.1], [2.2, -0.4, 1.6]]),
                   (['Na', 'N', 'O'], [[0., 0, 0], [2.3, 0, 0], [3.0, 1.1, 0]])][(seed // 3) % 4]
    coords = np.array(coords)
    swaps = {'Cl': ['C'], 'Si': ['S', 'I'], 'Na': ['N'], 'C': ['Cl', 'Co'], 'N': ['Na', 'Ni'], 'O': ['Os']}
    variants = [list(pel)]
    for k in range(len(pel)):
        for alt in swaps.get(pel[k], []):
            v = list(pel); v[k] = alt
            variants.append(v)
    rnd.shuffle(variants)
    variants = [list(pel)] + [v for v in variants if v != list(pel)][:7]
    grid = [(x, y, z) for x in (0.2, 0.7) for y in (0.2, 0.7) for z in (0.2, 0.7)]
    rnd.shuffle(grid)
    rots = geo.rotations(rnd, len(variants), include_axis=True)
    els, pts, planted = [], [], []
    for v, g, rot in zip(variants, grid, rots):
        centre = np.array(g).dot(cell)
        placed = rot.apply(coords - coords.mean(axis=0)) + centre
        if v == list(pel):
            planted.append(tuple(range(len(els), len(els) + len(v))))
        els += v
        pts += [geo.wrap(cell, p) for p in placed]
    with quiet():
        S = Atoms(elements=els, positions=np.array(pts), cell=cell)
        P = Atoms(elements=list(pel), positions=coords)
    return dict(structure=S, pattern=P, cell=cell, planted=planted, poses=[])


def alkane_case(seed, ncarbon=7):
    """A zig-zag CH2 chain in a random pose with its atoms listed in random order; the pattern is H-C(-H)-C' listed H first.  The two H of a
    CH2 are exchanged by a mirror (not by a rotation that keeps C'), every inner carbon has two neighbours, so occurrences overlap and every
    occurrence is met from two start atoms.  Occurrences: {H, H, C_k, C_k'} for every carbon k and each of its neighbours k'."""
    from mofun import Atoms
    rnd = random.Random(seed)
    cell = geo.CELLS[['cubic', 'tri+', 'ortho'][seed % 3]]
    C = [np.array([1.26 * k, 0.44 * (-1) ** k, 0.0]) for k in range(ncarbon)]
    atoms = []
    for k, c in enumerate(C):
        up = np.array([0.0, 0.62 * (-1) ** k, 0.0])
        atoms += [('C', c), ('H', c + up + np.array([0, 0, 0.89])), ('H', c + up - np.array([0, 0, 0.89]))]
    rot = geo.rotations(rnd, 1, include_axis=False)[0]
    centre = np.array([0.5, 0.45, 0.55]).dot(cell)
    pts = rot.apply(np.array([p for _, p in atoms]) - np.mean([p for _, p in atoms], axis=0)) + centre
    order = list(range(len(atoms)))
    rnd.shuffle(order)
    where = {old: new for new, old in enumerate(order)}
    els = [atoms[o][0] for o in order]
    pos = [geo.wrap(cell, pts[o]) for o in order]
    planted = []
    for k in range(ncarbon):
        for k2 in (k - 1, k + 1):
            if 0 <= k2 < ncarbon:
                planted.append((where[3 * k + 1], where[3 * k], where[3 * k + 2], where[3 * k2]))
    pat_idx = [1, 0, 2, 3]      # H, C, H of the first carbon and the second carbon
    with quiet():
        S = Atoms(elements=els, positions=np.array(pos), cell=cell)
        P = Atoms(elements=[atoms[i][0] for i in pat_idx], positions=np.array([atoms[i][1] for i in pat_idx]))
    return dict(structure=S, pattern=P, cell=cell, planted=planted, poses=[])


def make_case(spec):
    if spec.get('special') == 'alkane':
        return alkane_case(spec['seed'])
    if spec.get('special') == 'element-lookalike':
        return element_lookalike_case(spec['seed'])
    if spec.get('special') == 'methane':
        return methane_case(spec['seed'])
    if spec.get('special') == 'half-cell-apex':
        return half_cell_apex_case(spec['seed'])
    if spec.get('special') == 'shared-first-atom':
        return shared_first_atom_case(spec['seed'])
    if spec.get('special') == 'boundary2':
        return boundary2_case(spec['offset'], spec.get('atol', 0.05))
    if spec.get('special') == 'through-faces':
        return geo.build_through_faces(spec['cell'], spec['pattern'], random.Random(spec['seed']), depth=spec.get('depth', 0.05), anchor=spec.get('anchor', 0), only_face=spec.get('face'), decoys=spec.get('decoys', 2))
    if spec.get('special') == 'axis-poses':
        return geo.build_axis_poses(spec['cell'], spec['pattern'], random.Random(spec['seed']), spec['which'], stretch=spec.get('stretch', 0.0))
    rnd = random.Random(spec['seed'])
    return geo.build(spec['cell'], spec['pattern'], spec['copies'], rnd, noise=spec.get('noise', 0.0), decoys=spec.get('decoys', 0),
                     mirror_decoys=spec.get('mirror', 0), near_miss=spec.get('near_miss', 0), atol=spec.get('atol', 0.05),
                     straddle=spec.get('straddle', True), bent=spec.get('bent', 0), scramble=spec.get('scramble', False), unwrapped=spec.get('unwrapped', False))


def check_case(spec):
    case = make_case(spec)
    case['verbose'] = bool(spec.get('verbose'))
    atol = spec.get('atol', 0.05)
    before = (np.array(case['structure'].positions, dtype=float).copy(), list(case['structure'].elements), np.array(case['pattern'].positions, dtype=float).copy())
    try:
        idxs, poss, quats = search(case, spec)
    except Exception as e:
        return ["find_pattern_in_structure raised %r" % (e,)], 0
    msgs = []
    if not spec.get('history'):
        S_, P_ = case['structure'], case['pattern']
        if not (np.array_equal(before[0], S_.positions) and before[1] == list(S_.elements) and np.array_equal(before[2], P_.positions)):
            msgs.append("the search modified the structure or the pattern it was given")
    for j, idx in enumerate(idxs):
        msgs += match_problems(case['structure'], case['pattern'], idx, poss[j], quats[j], atol)
    return msgs, len(idxs)


def replay(inp):
    msgs, n = check_case(inp)
    return (len(msgs) > 0), ('; '.join(msgs[:3]) or '%d matches, all satisfy the postconditions' % n)


def replay_boundary(inp):
    worst = None
    for off in ([1.5, 1.5, 1.5], [15.5, 16.0, 16.5], [8.0, 15.0, 3.0]):
        for atol in (0.05, 0.004, 0.02, 0.11):
            msgs, n = check_case(dict(special='boundary2', offset=off, seed=0, atol=atol))
            if msgs:
                worst = "copy at offset %r searched with atol %r: %s" % (off, atol, msgs[0])
    return (worst is not None), (worst or 'the copy at the tolerance boundary is rejected everywhere in the cell')


REPLAY = {'find': replay, 'tolerance-boundary': replay_boundary}


def specs(tier, seed):
    out = []
    pats = ['single', 'pair', 'collinear3', 'planar3', 'chiral4', 'sym5', 'sym3']
    cells = list(geo.CELLS)
    nseeds = 6 if tier == "quick" else 24
    for pat in pats:
        for cell in cells:
            for s in range(nseeds):
                for copies in ((1, 3) if tier == 'quick' else (1, 2, 4)):
                    out.append(dict(cell=cell, pattern=pat, copies=copies, seed=seed * 1000 + s, noise=0.008 if s % 2 else 0.0,
                                    decoys=3, mirror=1 if pat == 'chiral4' else 0, near_miss=1 if len(geo.PATTERNS[pat][0]) > 1 else 0,
                                    rng=s))
    for cell in cells:
        for s in range(2 if tier == 'quick' else 8):
            out.append(dict(cell=cell, pattern='nearflat5', copies=2, seed=seed * 1000 + 950 + s, noise=0.006 if s % 2 else 0.0, decoys=2, mirror=1, near_miss=1, rng=s))
    # copies whose atoms are listed in the structure in another order than in the pattern; a pattern whose first two atoms are exchanged by a mirror only
    for ci, cell in enumerate(cells):
        for pi, pat in enumerate(('mirror5', 'chiral4', 'sym5', 'planar3', 'nearflat5')):
            for s in range(2 if tier == 'quick' else 6):
                if tier == 'quick' and (ci + pi + s) % 2:
                    continue
                out.append(dict(cell=cell, pattern=pat, copies=3, seed=seed * 1000 + 970 + s, decoys=2, mirror=1 if pat in ('chiral4', 'nearflat5') else 0,
                                near_miss=1, rng=s, scramble=True))
    # requested tolerances other than the default (tighter and wider), distortions and near misses scaled with them
    for pat in ('planar3', 'chiral4', 'sym5'):
        for ci, cell in enumerate(cells):
            for s, atol in enumerate((0.01, 0.1) if tier == 'quick' else (0.004, 0.01, 0.02, 0.1, 0.15)):
                out.append(dict(cell=cell, pattern=pat, copies=2, seed=seed * 1000 + 700 + s + ci, noise=0.16 * atol, decoys=2, mirror=1 if pat == 'chiral4' else 0,
                                near_miss=1, rng=s, atol=atol))
    # very tight tolerances on exact copies (coordinates of 10-25 A carry ~1e-15 relative rounding in double precision: 1e-7 is far above it)
    for ci, cell in enumerate(cells):
        for pat in ('planar3', 'chiral4'):
            for atol in (1e-6, 1e-7):
                if tier == 'quick' and (ci + (pat == 'chiral4') + (atol == 1e-7)) % 2:
                    continue
                out.append(dict(cell=cell, pattern=pat, copies=2, seed=seed * 1000 + 730 + ci, noise=0.0, decoys=2, mirror=0, near_miss=0, rng=ci, atol=atol))
    for s in range(3 if tier == 'quick' else 10):
        out.append(dict(special='shared-first-atom', seed=seed * 1000 + 840 + s, rng=s))
    for s in range(6 if tier == 'quick' else 24):
        out.append(dict(special='half-cell-apex', seed=seed * 1000 + 860 + s % 3, rng=s))
    for s in range(3 if tier == 'quick' else 10):
        out.append(dict(special='methane', seed=seed * 1000 + 880 + s, rng=s))
    # a pattern spanning more than half a cell edge (cell still wider than the pattern + 2 atol): images must be taken per atom
    for cell in ('small', 'small-tri'):
        for s in range(3 if tier == 'quick' else 12):
            out.append(dict(cell=cell, pattern='long5', copies=1, seed=seed * 1000 + 800 + s, rng=s, noise=0.005 if s % 2 else 0.0))
    for cell in ('small', 'small-tri'):
        for face in range(6):
            if tier == 'quick' and (face + (cell == 'small')) % 2:
                continue
            out.append(dict(special='through-faces', cell=cell, pattern='long5', seed=seed * 1000 + 820 + face, rng=face, face=face, decoys=0))
    for off in ([1.5, 1.5, 1.5], [15.5, 16.0, 16.5], [8.0, 15.0, 3.0]):
        for atol in (0.05, 0.004, 0.02, 0.11):
            out.append(dict(special='boundary2', offset=off, seed=0, atol=atol))
    for ci, cell in enumerate(cells):
        for s in range(2 if tier == 'quick' else 8):
            out.append(dict(cell=cell, pattern='nearlinear3', copies=2, seed=seed * 1000 + 300 + s, decoys=2, bent=2, rng=s))
            out.append(dict(cell=cell, pattern='collinear3', copies=2, seed=seed * 1000 + 350 + s, decoys=2, bent=2, rng=s))      # an exactly straight pattern, bent look-alikes
            out.append(dict(cell=cell, pattern='nearlinear3', copies=1, seed=seed * 1000 + 400 + s, decoys=1, bent=1, rng=s, hints=dict(axisp1_idx=0, axisp2_idx=2, opoint_idx=1)))
    # stress placements: copies sticking out through every face by (almost) their full length, in cubic and strongly tilted cells;
    # axis-aligned poses (incl. exactly antiparallel) of patterns written along x, y and z
    for cell in ('cubic', 'tri+', 'tri-', 'rhombo', 'rhombo-'):
        for pat in ('long5', 'chiral4', 'pair'):
            for s in range(1 if tier == 'quick' else 4):
                out.append(dict(special='through-faces', cell=cell, pattern=pat, seed=seed * 1000 + 500 + s, rng=s))
                out.append(dict(special='through-faces', cell=cell, pattern=pat, seed=seed * 1000 + 550 + s, rng=s, anchor=-1))
    for cell in ('cubic', 'tri+'):
        for pat in ('pair', 'pair-y', 'collinear3', 'collinear3-y', 'planar3', 'planar3-y', 'planar3-z', 'chiral4'):
            for which in range(3):
                out.append(dict(special='axis-poses', cell=cell, pattern=pat, which=which, seed=seed * 1000 + 600, rng=which))
    # copies stretched by half the tolerance along their longest direction, in axis-aligned poses (the longest distance of the pattern is exceeded)
    for cell in ('cubic', 'tri-'):
        for pat in ('pair', 'collinear3', 'planar3', 'chiral4'):
            for which in range(3):
                out.append(dict(special='axis-poses', cell=cell, pattern=pat, which=which, seed=seed * 1000 + 650, rng=which, stretch=0.03))
    for s in range(12 if tier == 'quick' else 36):
        out.append(dict(special='element-lookalike', seed=seed * 1000 + s, rng=s))
    # the same object searched twice with an in-place modification in between: the result depends on the arguments as they are at the call
    for ci, cell in enumerate(cells):
        for pi, pat in enumerate(('pair', 'planar3', 'chiral4', 'sym5')):
            if tier == 'quick' and (ci + pi) % 2:
                continue
            out.append(dict(cell=cell, pattern=pat, copies=2, seed=seed * 1000 + 900 + ci, decoys=2, mirror=1 if pat == 'chiral4' else 0, near_miss=1,
                            rng=pi, history=[[0.46, 0.08, -0.06], [0.31, 0.52, 0.77]][pi % 2]))
    for ci, cell in enumerate(cells):
        for pi, pat in enumerate(('pair', 'planar3', 'chiral4')):
            if tier == 'quick' and (ci + pi) % 2 == 0:
                continue
            out.append(dict(cell=cell, pattern=pat, copies=3, seed=seed * 1000 + 920 + ci, decoys=1, mirror=0, near_miss=0, rng=pi, history='destroy', on_copy=bool((ci + pi) % 3)))
    # copies stored whole across the cell boundary (atoms outside the box)
    for ci, cell in enumerate(cells):
        for pi, pat in enumerate(('planar3', 'chiral4', 'long5' if False else 'sym5')):
            if tier == 'quick' and (ci + pi) % 2:
                continue
            out.append(dict(cell=cell, pattern=pat, copies=3, seed=seed * 1000 + 980 + ci, decoys=2, mirror=1 if pat == 'chiral4' else 0, near_miss=1, rng=pi, unwrapped=True))
    for s in range(6 if tier == 'quick' else 18):
        out.append(dict(special='alkane', seed=seed * 1000 + 40 + s, rng=s))
    # progress printing switched on
    for ci, cell in enumerate(cells[:3]):
        for pat in ('planar3', 'chiral4', 'sym5'):
            out.append(dict(cell=cell, pattern=pat, copies=2, seed=seed * 1000 + 990 + ci, decoys=2, mirror=1 if pat == 'chiral4' else 0, near_miss=1, rng=ci, verbose=True))
    # hint triples for small patterns
    for pat in ['pair', 'planar3', 'chiral4']:
        n = len(geo.PATTERNS[pat][0])
        for a, b in itertools.permutations(range(n), 2):
            for o in ([None] if n < 3 else [c for c in range(n) if c not in (a, b)]):
                out.append(dict(cell='tri+', pattern=pat, copies=2, seed=seed * 1000 + 77, decoys=2,
                                hints=dict(axisp1_idx=a, axisp2_idx=b, opoint_idx=o)))
        for a in range(n):
            out.append(dict(cell='ortho', pattern=pat, copies=2, seed=seed * 1000 + 78, decoys=2, hints=dict(axisp1_idx=a)))
            out.append(dict(cell='ortho', pattern=pat, copies=2, seed=seed * 1000 + 79, decoys=2, hints=dict(axisp2_idx=a)))
    return out


def run(rec, tier, seed):
    rec.rule = ("planted copies of 7 pattern shapes (1-5 atoms; collinear, planar, chiral, symmetric) in 4 cells (cubic, orthorhombic, "
                "triclinic +/- tilt), random poses, centres on/near faces, edges and corners, noise <= atol/6, decoys (same-element, mirror "
                "image, near miss at 2.5 atol); every valid hint triple for patterns <= 4 atoms; each reported match is checked against the "
                "run-time postconditions (indices valid/distinct, elements, lattice offsets, proper rotation within atol). distinct = "
                "generator specs; non-trivial = searches that reported at least one match")
    for spec in specs(tier, seed):
        msgs, n = check_case(spec)
        rec.case(repr(sorted(spec.items(), key=lambda kv: kv[0])), nontrivial=n > 0, sample=spec if len(rec.samples) < 3 else None)
        for m in msgs[:1]:
            rec.fail('find', 'find-postcondition', "%s on %r" % (m, spec), spec, 'C01/find_pattern_in_structure/post')
    rec.bounds = {'patterns': 7, 'cells': 4, 'atol': 0.05}
