"""C01 bounded stage: run-time postconditions of find_pattern_in_structure on planted structures (real code)."""
import itertools, random
import numpy as np
from bounded.common import quiet
from bounded import geo

EPS = 1e-7


def match_problems(S, P, idx, pos, q, atol):
    """Postconditions 1-4 of DESIGN section 7/C01 for one reported match; returns list of messages."""
    msgs = []
    n = len(P.positions)
    N = len(S.positions)
    idx = [int(i) for i in idx]
    if len(idx) != n:
        return ["match has %d indices for a %d-atom pattern" % (len(idx), n)]
    if any(i < 0 or i >= N for i in idx):
        return ["match index out of range: %r" % (idx,)]
    if len(set(idx)) != n:
        msgs.append("match lists an atom twice: %r" % (idx,))
    sel, pel = S.elements, P.elements
    if [sel[i] for i in idx] != list(pel):
        msgs.append("elements %r of match %r differ from the pattern's %r" % ([sel[i] for i in idx], idx, list(pel)))
    if pos is not None:
        cell = np.asarray(S.cell)
        for k in range(n):
            f = geo.frac(cell, np.asarray(pos[k]) - S.positions[idx[k]])
            if np.max(np.abs(f - np.round(f))) > 1e-6 or np.max(np.abs(np.round(f))) > 1:
                msgs.append("returned position %r of atom %d is not its stored position plus a neighbour lattice vector (fractional offset %r)" % (list(pos[k]), idx[k], list(np.round(f, 6))))
        if q is not None:
            m = q.as_matrix()
            if abs(np.linalg.det(m) - 1.0) > 1e-6:
                msgs.append("returned rotation is not proper (det %.6f)" % np.linalg.det(m))
            res = np.asarray(pos) - q.apply(np.asarray(P.positions))
            half = (res.max(axis=0) - res.min(axis=0)) / 2.0
            if np.max(half) > atol + EPS:
                msgs.append("returned rotation + best translation leaves a deviation of %.5f > atol %.5f" % (np.max(half), atol))
        # a proper rigid motion must exist at all (mirror images are rejected)
        dev = geo.best_rigid_fit(P.positions, pos)
        if dev > 2 * np.sqrt(3) * atol + EPS:
            msgs.append("matched positions are not a proper rigid image of the pattern (best proper fit deviates %.4f, atol %.4f)" % (dev, atol))
    return msgs


def run_find(case, atol=0.05, hints=None, seed=0):
    from mofun import find_pattern_in_structure
    random.seed(seed)
    np.random.seed(seed)
    kw = dict(hints or {})
    with quiet():
        return find_pattern_in_structure(case['structure'], case['pattern'], return_positions_and_quats=True, atol=atol, **kw)


def boundary2_case(offset, atol=0.05):
    """Planar 6-atom pattern; in the structure the two interior atoms are displaced out of plane by +/-1.0008 atol while the axis /
    orientation atoms are exact: no rotation + translation brings every atom within atol, so it must not be reported."""
    from mofun import Atoms
    els = 'CNOFHS'
    coords = np.array([[0., 0, 0], [3.0, 0, 0], [0.2, 2.6, 0], [2.7, 2.4, 0], [1.4, 1.1, 0], [1.7, 1.5, 0]])
    cell = geo.CELLS['cubic']
    pts = coords + np.array(offset, dtype=float)
    pts[4, 2] += 1.0008 * atol
    pts[5, 2] -= 1.0008 * atol
    with quiet():
        S = Atoms(elements=list(els), positions=pts, cell=cell)
        P = Atoms(elements=list(els), positions=coords)
    return dict(structure=S, pattern=P, cell=cell, planted=[], poses=[])


def make_case(spec):
    if spec.get('special') == 'boundary2':
        return boundary2_case(spec['offset'], spec.get('atol', 0.05))
    if spec.get('special') == 'through-faces':
        return geo.build_through_faces(spec['cell'], spec['pattern'], random.Random(spec['seed']), depth=spec.get('depth', 0.05), anchor=spec.get('anchor', 0), only_face=spec.get('face'), decoys=spec.get('decoys', 2))
    if spec.get('special') == 'axis-poses':
        return geo.build_axis_poses(spec['cell'], spec['pattern'], random.Random(spec['seed']), spec['which'])
    rnd = random.Random(spec['seed'])
    return geo.build(spec['cell'], spec['pattern'], spec['copies'], rnd, noise=spec.get('noise', 0.0), decoys=spec.get('decoys', 0),
                     mirror_decoys=spec.get('mirror', 0), near_miss=spec.get('near_miss', 0), atol=spec.get('atol', 0.05),
                     straddle=spec.get('straddle', True), bent=spec.get('bent', 0))


def check_case(spec):
    case = make_case(spec)
    atol = spec.get('atol', 0.05)
    try:
        idxs, poss, quats = run_find(case, atol, spec.get('hints'), spec.get('rng', 0))
    except Exception as e:
        return ["find_pattern_in_structure raised %r" % (e,)], 0
    msgs = []
    for j, idx in enumerate(idxs):
        msgs += match_problems(case['structure'], case['pattern'], idx, poss[j], quats[j], atol)
    return msgs, len(idxs)


def replay(inp):
    msgs, n = check_case(inp)
    return (len(msgs) > 0), ('; '.join(msgs[:3]) or '%d matches, all satisfy the postconditions' % n)


def replay_boundary(inp):
    worst = None
    for off in ([1.5, 1.5, 1.5], [15.5, 16.0, 16.5], [8.0, 15.0, 3.0]):
        for atol in (0.05, 0.004, 0.02, 0.11):
            msgs, n = check_case(dict(special='boundary2', offset=off, seed=0, atol=atol))
            if msgs:
                worst = "copy at offset %r searched with atol %r: %s" % (off, atol, msgs[0])
    return (worst is not None), (worst or 'the copy at the tolerance boundary is rejected everywhere in the cell')


REPLAY = {'find': replay, 'tolerance-boundary': replay_boundary}


def specs(tier, seed):
    out = []
    pats = ['single', 'pair', 'collinear3', 'planar3', 'chiral4', 'sym5', 'sym3']
    cells = list(geo.CELLS)
    nseeds = 6 if tier == "quick" else 24
    for pat in pats:
        for cell in cells:
            for s in range(nseeds):
                for copies in ((1, 3) if tier == 'quick' else (1, 2, 4)):
                    out.append(dict(cell=cell, pattern=pat, copies=copies, seed=seed * 1000 + s, noise=0.008 if s % 2 else 0.0,
                                    decoys=3, mirror=1 if pat == 'chiral4' else 0, near_miss=1 if len(geo.PATTERNS[pat][0]) > 1 else 0,
                                    rng=s))
    # requested tolerances other than the default (tighter and wider), distortions and near misses scaled with them
    for pat in ('planar3', 'chiral4', 'sym5'):
        for ci, cell in enumerate(cells):
            for s, atol in enumerate((0.01, 0.1) if tier == 'quick' else (0.004, 0.01, 0.02, 0.1, 0.15)):
                out.append(dict(cell=cell, pattern=pat, copies=2, seed=seed * 1000 + 700 + s + ci, noise=0.16 * atol, decoys=2, mirror=1 if pat == 'chiral4' else 0,
                                near_miss=1, rng=s, atol=atol))
    # a pattern spanning more than half a cell edge (cell still wider than the pattern + 2 atol): images must be taken per atom
    for cell in ('small', 'small-tri'):
        for s in range(3 if tier == 'quick' else 12):
            out.append(dict(cell=cell, pattern='long5', copies=1, seed=seed * 1000 + 800 + s, rng=s, noise=0.005 if s % 2 else 0.0))
    for cell in ('small', 'small-tri'):
        for face in range(6):
            if tier == 'quick' and (face + (cell == 'small')) % 2:
                continue
            out.append(dict(special='through-faces', cell=cell, pattern='long5', seed=seed * 1000 + 820 + face, rng=face, face=face, decoys=0))
    for off in ([1.5, 1.5, 1.5], [15.5, 16.0, 16.5], [8.0, 15.0, 3.0]):
        for atol in (0.05, 0.004, 0.02, 0.11):
            out.append(dict(special='boundary2', offset=off, seed=0, atol=atol))
    for ci, cell in enumerate(cells):
        for s in range(2 if tier == 'quick' else 8):
            out.append(dict(cell=cell, pattern='nearlinear3', copies=2, seed=seed * 1000 + 300 + s, decoys=2, bent=2, rng=s))
            out.append(dict(cell=cell, pattern='nearlinear3', copies=1, seed=seed * 1000 + 400 + s, decoys=1, bent=1, rng=s, hints=dict(axisp1_idx=0, axisp2_idx=2, opoint_idx=1)))
    # stress placements: copies sticking out through every face by (almost) their full length, in cubic and strongly tilted cells;
    # axis-aligned poses (incl. exactly antiparallel) of patterns written along x, y and z
    for cell in ('cubic', 'tri+', 'tri-', 'rhombo', 'rhombo-'):
        for pat in ('long5', 'chiral4', 'pair'):
            for s in range(1 if tier == 'quick' else 4):
                out.append(dict(special='through-faces', cell=cell, pattern=pat, seed=seed * 1000 + 500 + s, rng=s))
                out.append(dict(special='through-faces', cell=cell, pattern=pat, seed=seed * 1000 + 550 + s, rng=s, anchor=-1))
    for cell in ('cubic', 'tri+'):
        for pat in ('pair', 'pair-y', 'collinear3', 'collinear3-y', 'planar3', 'planar3-y', 'planar3-z', 'chiral4'):
            for which in range(3):
                out.append(dict(special='axis-poses', cell=cell, pattern=pat, which=which, seed=seed * 1000 + 600, rng=which))
    # hint triples for small patterns
    for pat in ['pair', 'planar3', 'chiral4']:
        n = len(geo.PATTERNS[pat][0])
        for a, b in itertools.permutations(range(n), 2):
            for o in ([None] if n < 3 else [c for c in range(n) if c not in (a, b)]):
                out.append(dict(cell='tri+', pattern=pat, copies=2, seed=seed * 1000 + 77, decoys=2,
                                hints=dict(axisp1_idx=a, axisp2_idx=b, opoint_idx=o)))
        for a in range(n):
            out.append(dict(cell='ortho', pattern=pat, copies=2, seed=seed * 1000 + 78, decoys=2, hints=dict(axisp1_idx=a)))
            out.append(dict(cell='ortho', pattern=pat, copies=2, seed=seed * 1000 + 79, decoys=2, hints=dict(axisp2_idx=a)))
    return out


def run(rec, tier, seed):
    rec.rule = ("planted copies of 7 pattern shapes (1-5 atoms; collinear, planar, chiral, symmetric) in 4 cells (cubic, orthorhombic, "
                "triclinic +/- tilt), random poses, centres on/near faces, edges and corners, noise <= atol/6, decoys (same-element, mirror "
                "image, near miss at 2.5 atol); every valid hint triple for patterns <= 4 atoms; each reported match is checked against the "
                "run-time postconditions (indices valid/distinct, elements, lattice offsets, proper rotation within atol). distinct = "
                "generator specs; non-trivial = searches that reported at least one match")
    for spec in specs(tier, seed):
        msgs, n = check_case(spec)
        rec.case(repr(sorted(spec.items(), key=lambda kv: kv[0])), nontrivial=n > 0, sample=spec if len(rec.samples) < 3 else None)
        for m in msgs[:1]:
            rec.fail('find', 'find-postcondition', "%s on %r" % (m, spec), spec, 'C01/find_pattern_in_structure/post')
    rec.bounds = {'patterns': 7, 'cells': 4, 'atol': 0.05}
