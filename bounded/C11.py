"""C11 bounded stage: Atoms.extend on the real code against the abstract extension spec, all identity maps of small pairs."""
import copy, itertools, random
import numpy as np
from bounded.common import quiet
from bounded import gen

KINDS = (('bond', 'bonds'), ('angle', 'angles'), ('dihedral', 'dihedrals'), ('improper', 'impropers'))


def canon(t):
    t = tuple(t)
    return min(t, t[::-1])


def expected_extend(va, vb, idmap, offsets_given=False):
    """Spec on abstract views (resolved data, so type ids do not matter unless offsets are supplied as shared)."""
    N = len(va['atoms'])
    to_add = [o for o in range(len(vb['atoms'])) if o not in idmap]
    corr = dict(idmap)
    for j, o in enumerate(to_add):
        corr[o] = N + j
    atoms = [dict(a) for a in va['atoms']]
    for o, s in idmap.items():
        # identical atoms adopt the other's type (label, element, mass, pair coefficient) and per-atom extra fields
        for k in ('label', 'el', 'mass', 'pair'):
            atoms[s][k] = vb['atoms'][o][k]
        atoms[s]['extra'] = ('adopt', o)
    for o in to_add:
        a = dict(vb['atoms'][o])
        a['extra'] = ('adopt', o)
        atoms.append(a)
    out = {'atoms': atoms}
    for _, plural in KINDS:
        new = [dict(t, atoms=tuple(corr[x] for x in t['atoms']), src='other') for t in vb[plural]]
        newkeys = {canon(t['atoms']) for t in new}
        kept = [dict(t, src='self') for t in va[plural] if canon(t['atoms']) not in newkeys] if new else [dict(t, src='self') for t in va[plural]]
        out[plural] = kept + new
    return out


def merge_labels(la, lb):
    return list(la) + [l for l in lb if l not in la]


def compare(after, want, va, vb, labels_after, explicit_offsets):
    # atoms
    if len(after['atoms']) != len(want['atoms']):
        return "%d atoms after extend, expected %d" % (len(after['atoms']), len(want['atoms']))
    la, lb = va['extra_labels']['atom'], vb['extra_labels']['atom']
    merged = merge_labels(la, lb)
    if labels_after['atom'] != merged:
        return "extra atom labels %r, expected %r" % (labels_after['atom'], merged)
    for i, (g, w) in enumerate(zip(after['atoms'], want['atoms'])):
        for k in ('pos', 'q', 'grp'):
            if g[k] != w[k]:
                return "atom %d: %s is %r, expected %r" % (i, k, g[k], w[k])
        if not explicit_offsets:
            for k in ('label', 'el', 'mass', 'pair'):
                if g[k] != w[k]:
                    return "atom %d resolves to %s %r, expected %r" % (i, k, g[k], w[k])
        # extra columns merged by label with '.' filling
        if isinstance(w['extra'], tuple) and w['extra'] and w['extra'][0] == 'adopt':
            src = vb['atoms'][w['extra'][1]]['extra'] or ()
            row = {l: v for l, v in zip(lb, src)}
        else:
            row = {l: v for l, v in zip(la, w['extra'] or ())}
        exp = tuple(row.get(l, '.') for l in merged)
        if merged and g['extra'] != exp:
            return "atom %d extra fields %r, expected %r (labels %r)" % (i, g['extra'], exp, merged)
    for kind, plural in KINDS:
        g, w = after[plural], want[plural]
        if [t['atoms'] for t in g] != [t['atoms'] for t in w]:
            return "%s after extend %r, expected %r" % (plural, [t['atoms'] for t in g], [t['atoms'] for t in w])
        if not explicit_offsets:
            for a, b in zip(g, w):
                if a['coeff'] != b['coeff']:
                    return "%s %r resolves to %r, expected %r" % (kind, a['atoms'], a['coeff'], b['coeff'])
        la2, lb2 = va['extra_labels'][kind], vb['extra_labels'][kind]
        m2 = merge_labels(la2, lb2)
        if labels_after[kind] != m2:
            return "extra %s labels %r, expected %r" % (kind, labels_after[kind], m2)
        # the extra columns of every term: its own values under its own labels, '.' under the labels only the other side has
        if m2:
            for a, b in zip(g, w):
                if 'src' not in b:
                    continue
                own = la2 if b['src'] == 'self' else lb2
                row = {l: v for l, v in zip(own, b.get('extra') or ())}
                exp = tuple(row.get(l, '.') for l in m2)
                if a.get('extra') != exp:
                    return "%s %r extra fields %r, expected %r (labels %r)" % (kind, a['atoms'], a.get('extra'), exp, m2)
    return None


def check(spec):
    with quiet():
        a = gen.mk(**spec['a'])
        b = gen.mk(**spec['b'])
        va, vb = gen.view(a), gen.view(b)
        idmap = {int(k): int(v) for k, v in spec['idmap'].items()}
        kw = {}
        explicit = spec.get('offsets') is not None
        if explicit:
            kw['offsets'] = tuple(spec['offsets'])
        given = dict(idmap)      # one dict object, passed to every call (as a caller adding the same fragment repeatedly does)
        try:
            if spec.get('retyped_between'):
                # the same fragment OBJECT extended with, re-parameterised in place, and extended with again: the second time it is what it is then
                a.extend(b, structure_index_map=dict(idmap), **kw)
                b.atom_type_labels = ["%s_re" % l for l in b.atom_type_labels]
                b.atom_type_masses = np.array([float(m_) + 0.5 for m_ in b.atom_type_masses])
                if len(b.pair_coeffs):
                    b.pair_coeffs = ["%s refitted" % c_ for c_ in b.pair_coeffs]
                va, vb = gen.view(a), gen.view(b)
            for _ in range(spec.get('times', 1)):
                a.extend(b, structure_index_map=given, **kw, **({'verbose': True} if spec.get('verbose') else {}))
        except Exception as e:
            return "extend raised %r" % (e,)
        if given != idmap:
            return "extend modified the identity map it was given: %r, was %r" % (given, idmap)
        after = gen.view(a)
        vb2 = gen.view(b)
        probs = gen.wf_problems(a)
    if vb2 != vb:
        return "the other structure was modified by extend"
    if spec.get('times', 1) == 1:
        want = expected_extend(va, vb, idmap)
        msg = compare(after, want, va, vb, after['extra_labels'], explicit)
        if msg:
            return msg
        if explicit:
            # ids supplied as shared: type ids are the other's plus the offsets
            N = len(va['atoms'])
            pass
    else:
        # extending twice with the same fragment and the same identity map: the second pass supersedes the first pass's terms
        want1 = expected_extend(va, vb, idmap)
        # second extension: mapped atoms again identical; unmapped atoms appended again
        want = expected_extend(dict(want1, extra_labels=va['extra_labels']), vb, idmap)
        if len(after['atoms']) != len(want['atoms']):
            return "after extending twice: %d atoms, expected %d" % (len(after['atoms']), len(want['atoms']))
        for _, plural in KINDS:
            if sorted(canon(t['atoms']) for t in after[plural]) != sorted(canon(t['atoms']) for t in want[plural]):
                return "after extending twice: %s %r, expected %r" % (plural, [t['atoms'] for t in after[plural]], [t['atoms'] for t in want[plural]])
    if probs:
        return "inconsistent object after extend: " + "; ".join(probs)
    return None


def replay(inp):
    msg = check(inp)
    return (msg is not None), (msg or 'extension agrees with the spec')


REPLAY = {'extend': replay}


def idmaps(nb, na, limit, rnd):
    """Partial injective maps other-index -> self-index."""
    out = [{}]
    for k in range(1, min(nb, na) + 1):
        for keys in itertools.combinations(range(nb), k):
            for vals in itertools.permutations(range(na), k):
                out.append(dict(zip(keys, vals)))
    if len(out) > limit:
        head = out[:1]
        rest = out[1:]
        rnd.shuffle(rest)
        out = head + rest[:limit - 1]
    return out


def run(rec, tier, seed):
    rec.rule = ("pairs of small structures (self 2-4 atoms, other 1-3 atoms; with/without terms, coefficient tables, extra columns with different "
                "labels) x partial injective identity maps (all for the smallest sizes, sampled otherwise) x {default type merging, explicit zero "
                "offsets, same fragment twice}; result compared with the abstract extension spec on resolved data; other unmodified; invariant WF. "
                "distinct = specs")
    rnd = random.Random(seed)
    A = [dict(n=n, seed=s, terms=t, coeffs=c, extra=x, cell='ortho') for n in (2, 3, 4) for (s, t, c, x) in ((0, True, True, True), (1, True, False, False), (2, False, True, True))]
    B = [dict(n=n, seed=s + 3, terms=t, coeffs=c, extra=x, cell=None, xrev=xr) for n in (1, 2, 3, 4) for (s, t, c, x, xr) in ((0, True, True, True, False), (1, True, False, False, False), (2, True, True, True, True))]
    for b_ in B:
        if b_['coeffs'] and b_['n'] == 2:
            b_['long'] = True
    lim = 6 if tier == 'quick' else 40
    for a in A:
        for b in B:
            if a['coeffs'] != b['coeffs']:
                continue    # outside the compatibility precondition (one has coefficient tables, the other does not)
            for m in idmaps(b['n'], a['n'], lim, rnd):
                for mode in ('default', 'twice') if tier == 'quick' else ('default', 'twice'):
                    spec = dict(a=a, b=b, idmap={str(k): v for k, v in m.items()}, times=2 if mode == 'twice' else 1)
                    msg = check(spec)
                    rec.case(repr(spec), sample=spec if len(rec.samples) < 2 else None, group=mode)
                    if msg:
                        rec.fail('extend', 'extend', "%s on %r" % (msg, spec), spec, 'C11/extend/post')
    # extra per-atom / per-term columns on one side only (the other side's rows are padded with '.'), with non-empty identity maps
    for (xa, xb) in ((True, False), (False, True)):
        for c in (True, False):
            a = dict(n=3, seed=0, terms=True, coeffs=c, extra=xa, cell='ortho')
            b = dict(n=2, seed=4, terms=True, coeffs=c, extra=xb, cell=None)
            for m in idmaps(2, 3, 4 if tier == 'quick' else 12, rnd):
                spec = dict(a=a, b=b, idmap={str(k): v for k, v in m.items()}, times=1)
                msg = check(spec)
                rec.case(repr(spec), group='extra-columns-on-one-side')
                if msg:
                    rec.fail('extend', 'extend', "%s on %r" % (msg, spec), spec, 'C11/extend/post')
    # unequal sets of term kinds on the two sides (a kind present only in self, only in other, tables with and without terms)
    KS = [('bond', 'angle', 'dihedral'), ('bond', 'improper'), ('angle', 'dihedral'), ('improper',), ('dihedral', 'improper'), ()]
    for ka in KS:
        for kb in KS:
            if tier == 'quick' and (len(ka) + len(kb)) % 2 == 1 and ka and kb:
                continue
            for c in (True, False):
                a = dict(n=4, seed=0, terms=True, coeffs=c, extra=False, cell='ortho', kinds=list(ka))
                b = dict(n=4, seed=4, terms=True, coeffs=c, extra=False, cell=None, kinds=list(kb))
                for m in idmaps(4, 4, 2, rnd):
                    spec = dict(a=a, b=b, idmap={str(k): v for k, v in m.items()}, times=1)
                    msg = check(spec)
                    rec.case(repr(spec), group='kinds')
                    if msg:
                        rec.fail('extend', 'extend', "%s on %r" % (msg, spec), spec, 'C11/extend/post')
    # self has extra columns for every kind of term and 5 atoms (different numbers of terms per kind); the other has only some kinds of term, with
    # or without extra columns of its own
    for kb in (['angle'], ['improper'], ['bond', 'dihedral'], ['dihedral'], ['bond', 'angle', 'improper']):
        for xb in (False, True):
            a = dict(n=5, seed=0, terms=True, coeffs=True, extra=True, cell='ortho')
            b = dict(n=5, seed=4, terms=True, coeffs=True, extra=xb, cell=None, kinds=list(kb))
            for m in ({}, {0: 2}, {1: 0, 3: 4}):
                spec = dict(a=a, b=b, idmap={str(k): v for k, v in m.items()}, times=1)
                msg = check(spec)
                rec.case(repr(spec), group='extra-columns-and-kinds')
                if msg:
                    rec.fail('extend', 'extend', "%s on %r" % (msg, spec), spec, 'C11/extend/post')
    # a fragment object that is re-parameterised between two extensions
    for n in (2, 3):
        for c in (True, False):
            a = dict(n=n, seed=0, terms=True, coeffs=c, extra=False, cell='ortho')
            b = dict(n=2, seed=4, terms=True, coeffs=c, extra=False, cell=None)
            for m in ({}, {0: 1}):
                spec = dict(a=a, b=b, idmap={str(k): v for k, v in m.items()}, times=1, retyped_between=True)
                msg = check(spec)
                rec.case(repr(spec), group='retyped-between')
                if msg:
                    rec.fail('extend', 'extend', "%s on %r" % (msg, spec), spec, 'C11/extend/post')
    # progress printing switched on (with the default type merging it takes another branch)
    for n in (2, 4):
        a = dict(n=n, seed=0, terms=True, coeffs=True, extra=True, cell='ortho')
        b = dict(n=3, seed=3, terms=True, coeffs=True, extra=True, cell=None)
        for m in ({}, {0: 1}, {2: 0, 0: 1}):
            spec = dict(a=a, b=b, idmap={str(k): v for k, v in m.items()}, times=1, verbose=True)
            msg = check(spec)
            rec.case(repr(spec), group='verbose')
            if msg:
                rec.fail('extend', 'extend', "%s on %r" % (msg, spec), spec, 'C11/extend/post')
    # the other structure lists the same terms from their other end (an existing term on the same atoms is superseded whichever way it is listed)
    for n in (3, 4, 5):
        for c in (True, False):
            a = dict(n=n, seed=0, terms=True, coeffs=c, extra=False, cell='ortho')
            b = dict(n=n, seed=0, terms=True, coeffs=c, extra=False, cell=None, rev=True)
            for m in [{i: i for i in range(n)}, {i: i for i in range(n - 1)}, {i: i for i in range(1, n)}]:
                spec = dict(a=a, b=b, idmap={str(k): v for k, v in m.items()}, times=1)
                msg = check(spec)
                rec.case(repr(spec), group='reverse-listed')
                if msg:
                    rec.fail('extend', 'extend', "%s on %r" % (msg, spec), spec, 'C11/extend/post')
    # explicit shared offsets: extending a structure by a copy of a fragment of itself with offsets (0,0,0,0,0)
    for a in A:
        spec = dict(a=a, b=dict(a, cell=None), idmap={}, offsets=[0, 0, 0, 0, 0])
        msg = check(spec)
        rec.case(repr(spec), group='explicit-offsets')
        if msg:
            rec.fail('extend', 'extend-offsets', "%s on %r" % (msg, spec), spec, 'C11/extend/offsets')
