"""C13 bounded stage: LAMMPS data files round-trip and mean what the structure says (real save / load, independent reader)."""
import io, itertools, os, random, tempfile
import numpy as np
from bounded.common import quiet
from specs import lammps_reader as LR

KINDS = (('bond', 'bonds', 'Bonds', 'Bond Coeffs', 2), ('angle', 'angles', 'Angles', 'Angle Coeffs', 3),
         ('dihedral', 'dihedrals', 'Dihedrals', 'Dihedral Coeffs', 4), ('improper', 'impropers', 'Impropers', 'Improper Coeffs', 4))


def make(spec):
    from mofun import Atoms
    rnd = random.Random(spec['seed'])
    n = spec['n']
    nt = spec['ntypes']
    ELS = ['C', 'N', 'O', 'Zr', 'H', 'F', 'S', 'Cl', 'Cu', 'Zn', 'Br', 'P']
    MASSES = [12.0107, 14.0067, 15.9994, 91.224, 1.00794, 18.9984032, 32.065, 35.453, 63.546, 65.38, 79.904, 30.973762]
    els = ELS[:nt]
    masses = MASSES[:nt]
    atom_types = [rnd.randrange(nt) for _ in range(n)]
    if n >= nt:
        atom_types[:nt] = range(nt)
    kw = dict(atom_types=atom_types, positions=[[round(rnd.uniform(-3, 9), 5) for _ in range(3)] for _ in range(n)],
              charges=[round(rnd.uniform(-1.5, 1.5), 5) for _ in range(n)], groups=[(3 * rnd.randrange(3) + 2) if (spec['seed'] // 4) % 2 else rnd.randrange(3) for _ in range(n)],   # also sparse molecule ids that do not start at 0
              atom_type_elements=els, atom_type_masses=masses, atom_type_labels=["%s_%d" % (e, i) for i, e in enumerate(els)])
    cell = spec['cell']
    if cell == 'ortho':
        kw['cell'] = np.array([[10.5, 0, 0], [0, 11.25, 0], [0, 0, 12.125]])
    elif cell == 'tilted':
        kw['cell'] = np.array([[10.5, 0, 0], [1.5, 11.25, 0], [-2.25, 0.75, 12.125]])
    elif cell == 'partly-tilted':
        kw['cell'] = np.array([[10.5, 0, 0], [0, 11.25, 0], [-2.25, 0, 12.125]])
    elif cell == 'xy-tilt':
        kw['cell'] = np.array([[10.5, 0, 0], [2.75, 11.25, 0], [0, 0, 12.125]])       # tilted in xy only
    elif cell == 'yz-tilt':
        kw['cell'] = np.array([[10.5, 0, 0], [0, 11.25, 0], [0, -1.75, 12.125]])      # tilted in yz only
    elif cell == 'strong-tilt':
        # tilt factors beyond half a box length (LAMMPS warns, the cell is what the structure says): xy = 0.7 lx, xz = -0.6 lx, yz = 0.8 ly
        kw['cell'] = np.array([[10.5, 0, 0], [7.35, 11.25, 0], [-6.3, 9.0, 12.125]])
    elif cell == 'tiny-tilt':
        kw['cell'] = np.array([[10.5, 0, 0], [6e-5, 11.25, 0], [-3e-5, 8e-5, 12.125]])
    coeffs = spec['coeffs']
    if coeffs:
        kw['pair_coeffs'] = ["lj/cut %d.5 3.%d%s" % (i, i, "   # %s" % e if (coeffs == 'comment' or (coeffs == 'mixed' and i % 2 == 0)) else "") for i, e in enumerate(els)]
    for kind, plural, _, _, w in KINDS:
        k = spec['terms'].get(kind, 0)
        if k and n >= w:
            tups = []
            while len(tups) < k:
                tups.append(tuple(rnd.sample(range(n), w)))
            ntk = spec['termtypes'].get(kind, 1)
            kw[plural] = tups
            kw[kind + '_types'] = [rnd.randrange(ntk) for _ in range(k)]
            kw[kind + '_types'][0] = ntk - 1
            if coeffs and not (kind in spec.get('no_table', ())):
                kw[kind + '_type_coeffs'] = ["%s/style %d.25 %d -1%s" % (kind, i + 1, i, "   # %s%d x" % (kind[0], i) if (coeffs == 'comment' or (coeffs == 'mixed' and i % 2 == 0)) else "") for i in range(ntk)]
        elif coeffs and kind in spec.get('table_without_terms', ()):
            # a coefficient table whose kind currently has no terms (e.g. all bonds were deleted): the table is still part of the structure
            kw[kind + '_type_coeffs'] = ["%s/style %d.25 %d -1%s" % (kind, i + 1, i, "   # %s%d x" % (kind[0], i) if (coeffs == 'comment' or (coeffs == 'mixed' and i % 2 == 0)) else "") for i in range(spec['termtypes'].get(kind, 1))]
    with quiet():
        return Atoms(**kw)


def norm_tokens(s):
    body, _, c = s.partition('#')
    return body.split(), (c.strip() if _ else None)


def check(spec):
    if spec.get('unoriented'):
        from mofun import Atoms as _Atoms
        i_, j_ = spec['unoriented']
        cellm = np.array([[10.5, 0, 0], [1.5, 11.25, 0], [-2.25, 0.75, 12.125]])
        cellm[i_, j_] = 0.8
        try:
            with quiet():
                a_ = _Atoms(elements=['C', 'N'], positions=[[1., 2., 3.], [4., 5., 6.]], cell=cellm)
                a_.save_lmpdat(io.StringIO(), atom_format=spec['style'])
        except Exception:
            return None
        return "a cell with cell[%d,%d] != 0 (not in LAMMPS orientation) is written without complaint: the file cannot describe it" % (i_, j_)
    from mofun import Atoms
    style = spec['style']
    with quiet():
        a = make(spec)
        f = io.StringIO()
        try:
            a.save_lmpdat(f, atom_format=style, file_comment="t")
        except Exception as e:
            return "save_lmpdat raised %r" % (e,)
    text = f.getvalue()
    try:
        st = LR.structure(LR.parse(text, style), style)
    except Exception as e:
        return "the written file is not a LAMMPS data file: %r" % (e,)
    n = len(a.positions)
    h = st['header']
    # what the file states
    if h.get('atoms') != n or len(st['atoms']) != n or not st['ids_contiguous']:
        return "file declares %r atoms and lists %d (structure has %d)" % (h.get('atoms'), len(st['atoms']), n)
    for i, at in enumerate(st['atoms']):
        if at['type'] != int(a.atom_types[i]) or not np.allclose(at['pos'], a.positions[i], atol=6e-7):
            return "atom %d written as type %d at %r, structure says type %d at %r" % (i + 1, at['type'], at['pos'], int(a.atom_types[i]), list(a.positions[i]))
        if style == 'full' and (abs(at['q'] - a.charges[i]) > 6e-7 or at['mol'] != int(a.groups[i])):
            return "atom %d written with charge %r / molecule %r, structure says %r / %r" % (i + 1, at['q'], at['mol'], a.charges[i], int(a.groups[i]))
    T = len(a.atom_type_elements)
    if h.get('atom types') != T or len(st['Masses']) != len(a.atom_type_masses):
        return "file declares %r atom types / %d masses, structure has %d types" % (h.get('atom types'), len(st['Masses']), T)
    for i, (tid, m, c) in enumerate(st['Masses']):
        if tid != i + 1 or abs(m - float(a.atom_type_masses[i])) > 6e-7 or c != a.atom_type_labels[i]:
            return "Masses line %d: id %d mass %r label %r, structure says %r %r" % (i + 1, tid, m, c, a.atom_type_masses[i], a.atom_type_labels[i])
    for kind, plural, sec, csec, w in KINDS:
        tups, types, coeffs = getattr(a, plural), getattr(a, kind + '_types'), getattr(a, kind + '_type_coeffs')
        if h.get(plural, 0) != len(tups) or len(st[sec]) != len(tups):
            return "file declares %r %s and lists %d, structure has %d" % (h.get(plural), plural, len(st[sec]), len(tups))
        for j, t in enumerate(st[sec]):
            if t['id'] != j + 1 or t['type'] != int(types[j]) or t['atoms'] != tuple(int(x) for x in tups[j]):
                return "%s %d written as type %d atoms %r, structure says type %d atoms %r" % (kind, j + 1, t['type'], t['atoms'], int(types[j]), tuple(tups[j]))
        declared = h.get(kind + ' types', 0)
        if len(coeffs):
            if declared != len(coeffs) or len(st[csec]) != len(coeffs):
                return "file declares %r %s types and lists %d coefficient lines, structure has %d" % (declared, kind, len(st[csec]), len(coeffs))
            for i, (tid, toks, c) in enumerate(st[csec]):
                wt, wc = norm_tokens(str(coeffs[i]))
                if tid != i + 1 or toks != wt or c != wc:
                    return "%s line %d: %r # %r, structure says %r # %r" % (csec, i + 1, toks, c, wt, wc)
        elif len(types) and declared < int(max(types)) + 1:
            return "file declares %r %s types but type id %d is in use" % (declared, kind, int(max(types)) + 1)
        elif not len(types) and declared not in (0, None) and False:
            pass
    if len(a.pair_coeffs):
        for i, (tid, toks, c) in enumerate(st['Pair Coeffs']):
            wt, wc = norm_tokens(str(a.pair_coeffs[i]))
            if tid != i + 1 or toks != wt or c != wc:
                return "Pair Coeffs line %d: %r # %r, structure says %r # %r" % (i + 1, toks, c, wt, wc)
        if len(st['Pair Coeffs']) != len(a.pair_coeffs):
            return "Pair Coeffs has %d lines, structure has %d" % (len(st['Pair Coeffs']), len(a.pair_coeffs))
    if a.cell is not None:
        if st['cell'] is None or not np.allclose(np.array(st['cell']), np.asarray(a.cell, dtype=float), atol=6e-7) or any(abs(o) > 1e-12 for o in st['origin']):
            return "box / tilt factors describe the cell %r, the structure's cell is %r" % (st['cell'], np.asarray(a.cell).tolist())
    elif st['cell'] is not None:
        return "a box was written for a structure without cell"
    # reading back
    with quiet():
        try:
            b = Atoms.load_lmpdat(io.StringIO(text), atom_format=style)
        except Exception as e:
            return "load_lmpdat of the written file raised %r" % (e,)
    if len(b.positions) != n or [int(x) for x in b.atom_types] != [int(x) for x in a.atom_types]:
        return "reading back changes the atoms / type ids"
    if n and not np.allclose(b.positions, a.positions, atol=6e-7):
        return "reading back changes positions beyond the printed precision"
    if style == 'full' and n and (not np.allclose(b.charges, a.charges, atol=6e-7) or [int(x) for x in b.groups] != [int(x) for x in a.groups]):
        return "reading back changes charges or molecule groups"
    if (a.cell is None) != (b.cell is None) or (a.cell is not None and not np.allclose(np.asarray(b.cell, float), np.asarray(a.cell, float), atol=6e-7)):
        return "reading back gives the cell %r, written %r" % (None if b.cell is None else np.asarray(b.cell).tolist(), None if a.cell is None else np.asarray(a.cell).tolist())
    if list(b.atom_type_labels) != list(a.atom_type_labels) or not np.allclose(np.asarray(b.atom_type_masses, float), np.asarray(a.atom_type_masses, float), atol=6e-7):
        return "reading back changes masses or type labels"
    for kind, plural, sec, csec, w in KINDS:
        if [tuple(int(x) for x in t) for t in getattr(b, plural)] != [tuple(int(x) for x in t) for t in getattr(a, plural)] or \
                [int(x) for x in getattr(b, kind + '_types')] != [int(x) for x in getattr(a, kind + '_types')]:
            return "reading back changes the %s or their types" % plural
        ca, cb = [norm_tokens(str(c)) for c in getattr(a, kind + '_type_coeffs')], [norm_tokens(str(c)) for c in getattr(b, kind + '_type_coeffs')]
        if ca != cb:
            return "reading back changes %s coefficients token-wise: %r vs %r" % (kind, cb, ca)
    if [norm_tokens(str(c)) for c in a.pair_coeffs] != [norm_tokens(str(c)) for c in b.pair_coeffs]:
        return "reading back changes the pair coefficients"
    # fixed point after at most one normalising pass
    with quiet():
        f2, f3 = io.StringIO(), io.StringIO()
        b.save_lmpdat(f2, atom_format=style, file_comment="t")
        c = Atoms.load_lmpdat(io.StringIO(f2.getvalue()), atom_format=style)
        c.save_lmpdat(f3, atom_format=style, file_comment="t")
    if f2.getvalue() != f3.getvalue():
        la, lb = f2.getvalue().splitlines(), f3.getvalue().splitlines()
        k = next((i for i in range(min(len(la), len(lb))) if la[i] != lb[i]), min(len(la), len(lb)))
        return "writing the re-read structure again is not byte-identical: line %d %r vs %r" % (k + 1, la[k] if k < len(la) else None, lb[k] if k < len(lb) else None)
    if spec.get('dispatch'):
        d = tempfile.mkdtemp(prefix='c13_')
        path = os.path.join(d, 's.lmpdat')
        try:
            with quiet():
                a.save(path, atom_format=style)
                b1 = Atoms.load(path, atom_format=style)
                with open(path) as fh:
                    b2 = Atoms.load(fh, filetype='lmpdat', atom_format=style)
                with open(path, 'w') as fh:
                    a.save(fh, filetype='lmpdat', atom_format=style)
                b3 = Atoms.load(path, atom_format=style)
                # a path whose extension says nothing (or something else) with the file type given explicitly, as str and as pathlib.Path
                import pathlib
                p4, p5 = os.path.join(d, 'data.uio66'), pathlib.Path(d) / 'frame.mol'
                a.save(p4, filetype='lmpdat', atom_format=style)
                b4 = Atoms.load(p4, filetype='lmpdat', atom_format=style)
                a.save(p5, filetype='lmpdat', atom_format=style)
                b5 = Atoms.load(p5, filetype='lmpdat', atom_format=style)
                # the same path written again with another structure (one atom fewer) and loaded again: what is loaded is what the file holds now
                if n >= 2:
                    c_ = a.copy()
                    del c_[[n - 1]]
                    c_.save(path, atom_format=style)
                    b6 = Atoms.load(path, atom_format=style)
                    if len(b6.positions) != n - 1:
                        return "a path loaded again after it was rewritten gives %d atoms, the file now holds %d" % (len(b6.positions), n - 1)
                    a.save(path, atom_format=style)
                if open(p4).read() != open(path).read() or open(p5).read() != open(path).read():
                    return "Atoms.save with an explicit filetype='lmpdat' writes something else than it does to a .lmpdat path"
            for bb in (b1, b2, b3, b4, b5):
                if len(bb.positions) != n or (n and not np.allclose(bb.positions, a.positions, atol=6e-7)):
                    return "Atoms.save / Atoms.load by path or file object do not reproduce the structure"
        finally:
            import shutil
            shutil.rmtree(d, ignore_errors=True)
    return None


def replay(inp):
    msg = check(inp)
    return (msg is not None), (msg or 'file states the structure and round-trips')


REPLAY = {'lmpdat': replay}


def run(rec, tier, seed):
    rec.rule = ("generated structures: 1-4 atoms, 1-3 atom types, 0-2 terms per kind with 1-3 types per kind (different numbers per kind), coefficient "
                "contiguous and sparse molecule ids, strings without / with one trailing comment / commented and uncommented entries alternating / absent (also a kind with terms but no table), cells {none, orthorhombic, tilted, partly "
                "tilted, tilts of 1e-5..1e-4}, negative charges and coordinates, both atom styles; the written text is parsed by an independent reader "
                "and compared with the structure, re-read with mofun and compared, re-written to a byte-identical fixed point; path / file-object "
                "dispatch of Atoms.save / Atoms.load. distinct = specs")
    rnd = random.Random(seed)
    cells = [None, 'ortho', 'tilted', 'partly-tilted', 'tiny-tilt', 'strong-tilt', 'xy-tilt', 'yz-tilt']
    termsets = [dict(), dict(bond=1), dict(bond=2, angle=1), dict(bond=2, angle=2, dihedral=1, improper=2), dict(dihedral=2), dict(improper=1), dict(dihedral=1, improper=2)]
    ttypes = [dict(bond=1, angle=1, dihedral=1, improper=1), dict(bond=2, angle=3, dihedral=1, improper=2), dict(bond=3, angle=1, dihedral=2, improper=3)]
    k = 0
    for cell in cells:
        for terms in termsets:
            for coeffs in (False, True, 'comment', 'mixed'):
                for style in ('full', 'atomic'):
                    k += 1
                    if tier == 'quick' and (k // 2 + (k - 1) // 8) % 2:
                        continue     # about every second case, shifted from one term set to the next so that every (coefficient mode, style) occurs
                    spec = dict(n=rnd.choice([1, 2, 4, 4]) if not terms else 4, ntypes=rnd.choice([1, 2, 3]), cell=cell, terms=terms, termtypes=ttypes[k % 3], coeffs=coeffs,
                                style=style, seed=seed * 1000 + k, dispatch=(k % 10 == 0), no_table=(['improper'] if (k % 4 == 0 and coeffs) else []))
                    msg = check(spec)
                    rec.case(repr(sorted(spec.items(), key=str)), sample=spec if len(rec.samples) < 2 else None)
                    if msg:
                        rec.fail('lmpdat', 'lmpdat', "%s on %r" % (msg, spec), spec, 'C13/lmpdat')
    # cells the box / tilt lines cannot describe (first vector off the x axis, second vector out of the xy plane) are refused, not written
    for ci, (i, j) in enumerate(((0, 1), (0, 2), (1, 2))):
        for style in ('full', 'atomic'):
            spec = dict(unoriented=[i, j], style=style)
            msg = check(spec)
            rec.case(('not-lammps-oriented', i, j, style), group='orientation-refused')
            if msg:
                rec.fail('lmpdat', 'lmpdat', "%s on %r" % (msg, spec), spec, 'C13/lmpdat')
    # more than nine types in a section (ids 10, 11, ... sort differently as text), and coefficient tables of kinds that have no terms
    for si, style in enumerate(('full', 'atomic')):
        for coeffs in (True, 'comment', 'mixed'):
            spec = dict(n=12, ntypes=12, cell='ortho' if si else 'tilted', terms=dict(bond=12, angle=3), termtypes=dict(bond=11, angle=2, dihedral=1, improper=1), coeffs=coeffs, style=style,
                        seed=seed * 1000 + 900 + si, dispatch=False, no_table=[])
            msg = check(spec)
            rec.case(repr(sorted(spec.items(), key=str)), group='many-types')
            if msg:
                rec.fail('lmpdat', 'lmpdat', "%s on %r" % (msg, spec), spec, 'C13/lmpdat')
            spec = dict(n=4, ntypes=2, cell='ortho', terms=dict(bond=2), termtypes=dict(bond=2, angle=3, dihedral=2, improper=1), coeffs=coeffs, style=style,
                        seed=seed * 1000 + 920 + si, dispatch=False, no_table=[], table_without_terms=['angle', 'dihedral', 'improper'])
            msg = check(spec)
            rec.case(repr(sorted(spec.items(), key=str)), group='table-without-terms')
            if msg:
                rec.fail('lmpdat', 'lmpdat', "%s on %r" % (msg, spec), spec, 'C13/lmpdat')
