"""C06 bounded stage: force-field terms and coefficients of the replacement arrive intact (real code, reference model by position)."""
import random
from collections import Counter
import numpy as np
from bounded.common import quiet
from bounded import geo, gen, repl

KINDS = (('bond', 'bonds'), ('angle', 'angles'), ('dihedral', 'dihedrals'), ('improper', 'impropers'))


def canon(t):
    t = tuple(t)
    return min(t, t[::-1])


def structure_with_terms(case, variant, rnd, dup=False):
    """Adds pre-existing typed terms inside, outside and across the planted copies."""
    from mofun import Atoms
    S = case['structure']
    planted = case['planted']
    n = len(S.positions)
    inside = set(i for t in planted for i in t)
    outside = [i for i in range(n) if i not in inside]
    kw = {}
    bonds, angles, dihedrals, impropers = [], [], [], []
    for t in planted:
        if len(t) >= 2:
            bonds.append((t[1], t[0]) if variant % 2 else (t[0], t[1]))      # forward or reversed relative to the pattern's term
        if len(t) >= 3:
            bonds.append((t[1], t[2]))
            angles.append((t[2], t[1], t[0]) if variant == 3 else (t[0], t[1], t[2]))
            if variant == 1:
                angles.append((t[1], t[0], t[2]))       # same atoms, different centre: NOT the pattern's angle, must survive
        if len(t) >= 4:
            bonds.append((t[2], t[3]))
            angles.append((t[1], t[2], t[3]))
            dihedrals.append((t[3], t[2], t[1], t[0]))
            impropers.append((t[3], t[2], t[0], t[1]) if variant == 3 else (t[1], t[0], t[2], t[3]))    # variant 3: every existing term listed backwards
        if outside:
            bonds.append((t[0], outside[0]))                                   # across the matched region
            if len(t) >= 2:
                angles.append((outside[0], t[0], t[1]))
    for a, b in zip(outside, outside[1:]):
        bonds.append((a, b))                                                   # outside
    if len(outside) >= 3:
        angles.append(tuple(outside[:3]))
    if dup and len(outside) >= 2:
        # the same atoms listed twice with different types (a bond defined twice, a two-term angle): rows are not keys; far from every match
        bonds.append((outside[0], outside[1]))
        if len(outside) >= 3:
            angles.append(tuple(outside[:3]))
    els = list(S.elements)
    uniq = list(dict.fromkeys(els))
    coeffs = variant != 2
    kw = dict(atom_types=[uniq.index(e) for e in els], positions=np.array(S.positions), atom_type_elements=uniq,
              atom_type_masses=[float(i + 1) for i in range(len(uniq))], atom_type_labels=["S_%s" % e for e in uniq],
              charges=[round(0.01 * i, 4) for i in range(n)], groups=[1] * n, cell=np.array(S.cell),
              bonds=bonds, bond_types=[i % 2 for i in range(len(bonds))], angles=angles, angle_types=[0] * len(angles),
              dihedrals=dihedrals, dihedral_types=[0] * len(dihedrals), impropers=impropers, improper_types=[0] * len(impropers))
    if dup and len(outside) >= 2:
        first = bonds.index((outside[0], outside[1]))
        kw['bond_types'][-1] = 1 - kw['bond_types'][first]          # the repeated bond has the other type
    if coeffs:
        kw.update(pair_coeffs=["lj/s %d.0 # S_%s" % (i, e) for i, e in enumerate(uniq)],
                  bond_type_coeffs=["harmonic 1.0 1.0 # Sb0", "harmonic 2.0 2.0 # Sb1"], angle_type_coeffs=["cosine 3.0 # Sa0"],
                  dihedral_type_coeffs=["harmonic 4 1 1 # Sd0"], improper_type_coeffs=["fourier 5 # Si0"])
    with quiet():
        return Atoms(**kw)


def replacement_with_terms(pairname, coeffs=True, long_text=False, same_labels=False, zero_groups=False, no_terms=False):
    from mofun import Atoms
    se, sx, re_, rx = repl.PAIRS[pairname]
    n = len(re_)
    els = list(re_)
    uniq = list(dict.fromkeys(els))
    bonds = [(i, i + 1) for i in range(n - 1)]
    angles = [(i, i + 1, i + 2) for i in range(n - 2)]
    dihedrals = [(i, i + 1, i + 2, i + 3) for i in range(n - 3)]
    impropers = [(1, 0, 2, 3)] if n >= 4 else []
    tail = "  with a rather long trailing comment text" if long_text else ""
    kw = dict(atom_types=[uniq.index(e) for e in els], positions=np.array(rx, dtype=float).reshape(-1, 3), atom_type_elements=uniq,
              atom_type_masses=[100.0 + i for i in range(len(uniq))],
              # same_labels: the pattern uses the structure's own type labels (a re-fitted type of the same name) with its own mass / pair coefficients
              atom_type_labels=[("S_%s" if same_labels else "P_%s") % e for e in uniq],
              charges=[0.5 + 0.1 * i for i in range(n)], groups=[0 if zero_groups else 7] * n,      # group 0 is a legitimate group of its own
              bonds=bonds, bond_types=[i % 2 for i in range(len(bonds))], angles=angles, angle_types=[0] * len(angles),
              dihedrals=dihedrals, dihedral_types=[0] * len(dihedrals), impropers=impropers, improper_types=[0] * len(impropers))
    if coeffs:
        kw.update(pair_coeffs=["lj/p %d.5 # P_%s%s" % (i, e, tail) for i, e in enumerate(uniq)],
                  bond_type_coeffs=["harmonic 11.0 1.1 # Pb0" + tail, "harmonic 12.0 1.2 # Pb1" + tail], angle_type_coeffs=["cosine 13.0 # Pa0" + tail],
                  dihedral_type_coeffs=["harmonic 14 1 1 # Pd0" + tail], improper_type_coeffs=["fourier 15 # Pi0" + tail])
    if no_terms:
        # a pure re-parameterisation: atoms (with their own labels, masses, pair coefficients, charges, groups) and no bonded term at all
        bonds, angles, dihedrals, impropers = [], [], [], []
        for pl_ in ('bonds', 'angles', 'dihedrals', 'impropers'):
            kw[pl_] = []
    for k, pl in KINDS:
        if not kw[pl]:
            for f in (pl, k + '_types', k + '_type_coeffs'):
                kw.pop(f, None)
    with quiet():
        return Atoms(**kw)


def expected(S, sp, rp, planted, poses, cell):
    """Reference model: atoms identified physically; returns expected atoms (pos, resolved data) and term multiset."""
    vs, vr = gen.view(S), gen.view(rp)
    smap = repl.shared_map(sp, rp)                                # replace idx -> search idx
    s_only = [j for j in range(len(sp.positions)) if j not in smap.values()]
    r_only = [i for i in range(len(rp.positions)) if i not in smap]
    D = {t[j] for t in planted for j in s_only}
    atoms = {}
    for i, a in enumerate(vs['atoms']):
        if i not in D:
            atoms[('s', i)] = dict(a)
    for k, t in enumerate(planted):
        for r, j in smap.items():
            pid = ('s', t[j])
            for f in ('label', 'el', 'mass', 'pair'):
                atoms[pid][f] = vr['atoms'][r][f]
        rot, centre = poses[k]
        for r in r_only:
            a = dict(vr['atoms'][r])
            a['pos'] = tuple(rot.apply(np.asarray(rp.positions[r]) - np.asarray(sp.positions).mean(axis=0)) + centre)
            atoms[('n', k, r)] = a
    terms = Counter()
    new_keys = {pl: set() for _, pl in KINDS}
    for k, t in enumerate(planted):
        corr = {r: (('s', t[smap[r]]) if r in smap else ('n', k, r)) for r in range(len(rp.positions))}
        for kind, pl in KINDS:
            for term in vr[pl]:
                key = canon(tuple(corr[x] for x in term['atoms']))
                terms[(pl, key, term['coeff'])] += 1
                new_keys[pl].add(key)
    for kind, pl in KINDS:
        for term in vs[pl]:
            if set(term['atoms']) & D:
                continue
            key = canon(tuple(('s', x) for x in term['atoms']))
            if key in new_keys[pl]:
                continue
            terms[(pl, key, term['coeff'])] += 1
    return atoms, terms


def observed(res, S, exp_atoms, cell):
    """Maps result atoms to physical ids by position; returns (mapping problems, atoms dict, term multiset)."""
    vr = gen.view(res)
    ids = []
    used = set()
    for i, a in enumerate(vr['atoms']):
        hit = None
        for pid, e in exp_atoms.items():
            if pid in used:
                continue
            if e['el'] == a['el'] and repl.lattice_equal(cell, e['pos'], a['pos'], 5e-3):
                hit = pid
                break
        if hit is None:
            return "result atom %d (%s at %r) is not an expected atom" % (i, a['el'], a['pos']), None, None
        used.add(hit)
        ids.append(hit)
    if len(used) != len(exp_atoms):
        return "expected atoms missing from the result: %r" % (sorted(set(exp_atoms) - used, key=repr)[:3],), None, None
    terms = Counter()
    for kind, pl in KINDS:
        for t in vr[pl]:
            terms[(pl, canon(tuple(ids[x] for x in t['atoms'])), t['coeff'])] += 1
    return None, {pid: vr['atoms'][i] for i, pid in enumerate(ids)}, terms


def check(spec):
    rnd = random.Random(spec['seed'])
    case = repl.planted(spec['cell'], spec['pair'], spec['copies'], spec['seed'], decoys=spec.get('decoys', 3))
    S = structure_with_terms(case, spec.get('variant', 0), rnd, dup=spec.get('dup', False)) if not spec.get('cif_like') else case['structure']
    sp, _ = repl.patterns(spec['pair'])
    rp = replacement_with_terms(spec['pair'], coeffs=spec.get('pattern_coeffs', True), long_text=spec.get('long_text', False), same_labels=spec.get('same_labels', False), zero_groups=spec.get('zero_groups', False), no_terms=spec.get('no_terms', False))
    cell = case['cell']
    planted, poses = case['planted'], case['poses']
    cur = dict(case, structure=S)
    with quiet():
        try:
            res, num = repl.do_replace(cur, sp, rp, seed=spec.get('rng', 0), **({'replace_fraction': spec['f']} if 'f' in spec else {}))
        except Exception as e:
            return "replace_pattern_in_structure raised %r" % (e,)
    if 'f' in spec:
        # a share of the occurrences is replaced: the result must be what replacing SOME subset of that size gives (which one is the draw's business)
        import itertools
        m = round(spec['f'] * len(planted))
        if num != m:
            return "reported match count %r, expected %d" % (num, m)
        first = None
        for sub in itertools.combinations(range(len(planted)), m):
            exp_atoms, exp_terms = expected(S, sp, rp, [planted[k] for k in sub], [poses[k] for k in sub], cell)
            prob, got_atoms, got_terms = observed(res, S, exp_atoms, cell)
            if not prob and got_terms == exp_terms:
                break
            first = first or (prob or "terms differ for every choice of %d replaced occurrences, e.g. unexpected %r, missing %r" % (
                m, list((got_terms - exp_terms).items())[:2], list((exp_terms - got_terms).items())[:2]))
        else:
            return first
    else:
        exp_atoms, exp_terms = expected(S, sp, rp, planted, poses, cell)
        prob, got_atoms, got_terms = observed(res, S, exp_atoms, cell)
    if prob:
        return prob
    if got_terms != exp_terms:
        extra = list((got_terms - exp_terms).items())[:2]
        missing = list((exp_terms - got_terms).items())[:2]
        return "terms differ: unexpected %r, missing %r" % (extra, missing)
    for pid, e in exp_atoms.items():
        g = got_atoms[pid]
        fields = ('label', 'el', 'mass', 'q', 'grp') + (('pair',) if not spec.get('cif_like') else ())
        for f in fields:
            if g[f] != e[f] and not (f == 'mass' and abs(float(g[f]) - float(e[f])) < 1e-9):
                return "atom %r resolves to %s=%r, expected %r" % (pid, f, g[f], e[f])
        if spec.get('cif_like') and pid[0] == 'n' and g['pair'] != e['pair']:
            return "CIF-loaded structure without pair coefficients: inserted atom %r resolves to pair coefficient %r, the pattern says %r" % (pid, g['pair'], e['pair'])
    probs = gen.wf_problems(res)
    if probs and not spec.get('cif_like'):
        return "inconsistent result: " + "; ".join(probs)
    if spec.get('second'):
        # second replacement applied to the result (e.g. metal centre then linker): terms of step 1 are now 'original' terms
        pair2 = spec['second']
        se2 = repl.PAIRS[pair2][0]
        sp2, _ = repl.patterns(pair2)
        rp2 = replacement_with_terms(pair2, long_text=spec.get('long_text', False))
        from mofun import find_pattern_in_structure
        with quiet():
            idx, pos, quats = find_pattern_in_structure(res, sp2, return_positions_and_quats=True)
        if len(idx) == 0:
            return None
        planted2 = [tuple(int(x) for x in t) for t in idx]
        poses2 = []
        for t, p, q in zip(planted2, pos, quats):
            # pose in the convention of expected(): rot about the pattern mean
            m = np.asarray(sp2.positions).mean(axis=0)
            fit_centre = np.asarray(p).mean(axis=0)
            poses2.append((q, fit_centre))
        cur2 = dict(structure=res, cell=cell)
        with quiet():
            try:
                res2, _ = repl.do_replace(cur2, sp2, rp2, seed=1)
            except Exception as e:
                return "second replacement raised %r" % (e,)
        exp_atoms2, exp_terms2 = expected(res, sp2, rp2, planted2, poses2, cell)
        prob, got_atoms2, got_terms2 = observed(res2, res, exp_atoms2, cell)
        if prob:
            return "second replacement: " + prob
        if got_terms2 != exp_terms2:
            extra = list((got_terms2 - exp_terms2).items())[:2]
            missing = list((exp_terms2 - got_terms2).items())[:2]
            return "second replacement: terms differ: unexpected %r, missing %r" % (extra, missing)
    return None


def replay(inp):
    msg = check(inp)
    return (msg is not None), (msg or 'terms and coefficients arrive intact')


REPLAY = {'terms': replay}


def run(rec, tier, seed):
    rec.rule = ("planted structures with pre-existing typed terms inside, outside and across the matched region (forward and reversed relative to the "
                "pattern's terms, all listed backwards; with and without coefficient tables; pattern type labels different from / equal to the structure's) x parameterised replacement patterns (bonds, angles, dihedrals, impropers, "
                "pair coefficients; short and long coefficient texts) x 3 cells; two-step workflows (second replacement on the result); the documented "
                "CIF workflow (structure with atom types but no pair table). Reference model identifies atoms by position and compares the multiset of "
                "(kind, atoms, coefficient text) and per-atom label/element/mass/pair/charge/group. distinct = specs")
    pairs = ['shrink-shared', 'grow-planar', 'swap-element', 'disjoint', 'identical', 'grow-interleaved', 'nudge-swap']
    for pi, pair in enumerate(pairs):
        for ci, cell in enumerate(['cubic', 'tri+', 'tri-']):
            for variant in (0, 1, 2):
                if tier == 'quick' and (pi + ci + variant) % 2:
                    continue
                spec = dict(cell=cell, pair=pair, copies=2, seed=seed * 100 + pi * 9 + ci, variant=variant, pattern_coeffs=(variant != 2), long_text=(variant == 1), rng=pi)
                msg = check(spec)
                rec.case(repr(sorted(spec.items())), sample=spec if len(rec.samples) < 2 else None, group='single')
                if msg:
                    rec.fail('terms', 'terms', "%s on %r" % (msg, spec), spec, 'C06/replace/terms')
    for pi, pair in enumerate(('identical', 'swap-element', 'shrink-shared', 'grow-planar')):
        for ci, cell in enumerate(('cubic', 'tri+')):
            if tier == 'quick' and (pi + ci) % 2:
                continue
            spec = dict(cell=cell, pair=pair, copies=2, seed=seed * 100 + 40 + pi, variant=3, same_labels=True, rng=pi, zero_groups=(pi % 2 == 1))
            msg = check(spec)
            rec.case(repr(sorted(spec.items())), group='single')
            if msg:
                rec.fail('terms', 'terms', "%s on %r" % (msg, spec), spec, 'C06/replace/terms')
    # replacement patterns without any bonded term (re-parameterisation of the atoms only)
    for pi, pair in enumerate(('identical', 'swap-element', 'grow-planar')):
        spec = dict(cell=['cubic', 'tri+', 'tri-'][pi], pair=pair, copies=2, seed=seed * 100 + 35 + pi, variant=pi % 2, no_terms=True, rng=pi)
        msg = check(spec)
        rec.case(repr(sorted(spec.items())), group='pattern-without-terms')
        if msg:
            rec.fail('terms', 'terms', "%s on %r" % (msg, spec), spec, 'C06/replace/terms')
    # a share of four occurrences replaced (two or three of them, in the order of the draw), patterns with retained atoms and terms on them
    for pi, pair in enumerate(('swap-element', 'grow-planar', 'shrink-shared', 'grow-interleaved')):
        for rng in (0, 1, 2, 3):
            if tier == 'quick' and (pi + rng) % 2:
                continue
            spec = dict(cell=['cubic', 'tri+', 'tri-'][(pi + rng) % 3], pair=pair, copies=4, seed=seed * 100 + 20 + pi, variant=rng % 3, pattern_coeffs=(rng % 3 != 2), f=[0.6, 0.75][rng % 2], rng=rng, decoys=2)
            msg = check(spec)
            rec.case(repr(sorted(spec.items())), group='fraction')
            if msg:
                rec.fail('terms', 'terms', "%s on %r" % (msg, spec), spec, 'C06/replace/terms')
    # a bond and an angle defined twice (different types) far from every match: both definitions survive
    for pi, pair in enumerate(('swap-element', 'grow-planar', 'identical')):
        spec = dict(cell=['cubic', 'tri+', 'tri-'][pi], pair=pair, copies=2, seed=seed * 100 + 30 + pi, variant=pi, pattern_coeffs=(pi != 2), dup=True, rng=pi, decoys=4)
        msg = check(spec)
        rec.case(repr(sorted(spec.items())), group='repeated-terms')
        if msg:
            rec.fail('terms', 'terms', "%s on %r" % (msg, spec), spec, 'C06/replace/terms')
    for (p1, p2) in (('swap-element', 'single-swap'), ('grow-planar', 'single-swap'), ('single-swap', 'grow-planar')):
        for cell in ('cubic', 'tri+'):
            spec = dict(cell=cell, pair=p1, copies=2, seed=seed * 100 + 60, variant=0, second=p2, long_text=True)
            msg = check(spec)
            rec.case(repr(sorted(spec.items())), group='two-step')
            if msg:
                rec.fail('terms', 'terms-two-step', "%s on %r" % (msg, spec), spec, 'C06/replace/two-step')
    for pair in ('grow-planar', 'swap-element'):
        spec = dict(cell='cubic', pair=pair, copies=2, seed=seed * 100 + 80, cif_like=True)
        msg = check(spec)
        rec.case(repr(sorted(spec.items())), group='cif-workflow')
        if msg:
            rec.fail('terms', 'pair-coeffs-cif-structure', "%s on %r" % (msg, spec), spec, 'C06/replace/cif-pair-coeffs')
