"""Shared harness for the replacement properties C04-C08 (real replace_pattern_in_structure on planted structures)."""
import itertools, random
import numpy as np
from bounded.common import quiet
from bounded import geo, gen

# (search pattern, replacement pattern) pairs on a common coordinate system; elements chosen so that no accidental matches arise
PAIRS = {
    # name: (search els, search xyz, replace els, replace xyz)
    'shrink-shared': ('CNOF', geo.PATTERNS['chiral4'][1], 'CN', geo.PATTERNS['chiral4'][1][:2]),
    'grow-shared': ('CN', geo.PATTERNS['pair'][1], 'CNS', geo.PATTERNS['pair'][1] + [[1.9, 1.2, 0.4]]),
    'swap-element': ('CNO', geo.PATTERNS['planar3'][1], 'CNS', geo.PATTERNS['planar3'][1]),
    'empty': ('CNO', geo.PATTERNS['planar3'][1], '', []),
    'disjoint': ('CNOF', geo.PATTERNS['chiral4'][1], 'SPP', [[0.1, 0.2, 0.3], [1.5, 0.3, 0.2], [0.4, 1.4, 1.0]]),
    'identical': ('CNOF', geo.PATTERNS['chiral4'][1], 'CNOF', geo.PATTERNS['chiral4'][1]),
    'single-swap': ('N', [[0., 0, 0]], 'P', [[0., 0, 0]]),
    'sym-grow': ('OCO', geo.PATTERNS['sym3'][1], 'OCOS', geo.PATTERNS['sym3'][1] + [[0.0, 1.5, 0.0]]),
    'grow-planar': ('CNO', geo.PATTERNS['planar3'][1], 'CNOSP', geo.PATTERNS['planar3'][1] + [[1.6, 1.5, 1.3], [2.4, 2.3, 2.1]]),
    # the first atom keeps its element but is displaced by 0.08 A in the replacement (more than the sameness threshold 1e-5, less than 0.1)
    'nudge-swap': ('CNO', geo.PATTERNS['planar3'][1], 'CNS', [[0.05, -0.05, 0.04]] + geo.PATTERNS['planar3'][1][1:]),
    # the new atom is listed BEFORE the atoms taken over (interleaved order): indices of retained atoms differ between the two patterns
    'grow-interleaved': ('CNO', geo.PATTERNS['planar3'][1], 'CSNOP', [geo.PATTERNS['planar3'][1][0], [1.6, 1.5, 1.3], geo.PATTERNS['planar3'][1][1], geo.PATTERNS['planar3'][1][2], [2.4, 2.3, 2.1]]),
    # elements whose one-letter symbols are prefixes of other symbols (B / Be Br Ba Bi, S / Si Se Sc Sn Sr Sb, I / In Ir)
    'bsi-swap': ('BSI', geo.PATTERNS['planar3'][1], 'BSO', geo.PATTERNS['planar3'][1]),
    # two atoms replaced by ONE atom that sits on neither of them (it still has to be carried into the frame of every match)
    'to-single-offset': ('CN', geo.PATTERNS['pair'][1], 'S', [[0.7, 0.55, 0.3]]),
    'collinear-swap': ('CNO', geo.PATTERNS['collinear3'][1], 'CNS', geo.PATTERNS['collinear3'][1][:2] + [[2.5, 0.0, 0.0]]),
}


def patterns(pairname, motion=None, with_terms=False, extras=False, relabel=False):
    """Returns (search Atoms, replace Atoms).  motion = (Rotation, translation) applied jointly to both."""
    from mofun import Atoms
    se, sx, re_, rx = PAIRS[pairname]
    sx, rx = np.array(sx, dtype=float).reshape(-1, 3), np.array(rx, dtype=float).reshape(-1, 3)
    if motion is not None:
        rot, tr = motion
        sx = rot.apply(sx) + tr
        rx = rot.apply(rx) + tr if len(rx) else rx
    kw = {}
    if with_terms and len(re_) >= 2:
        kw = dict(bonds=[(0, 1)] + ([(1, 2)] if len(re_) > 2 else []), bond_types=[0] + ([1] if len(re_) > 2 else []),
                  bond_type_coeffs=["harmonic 100.0 1.2 # pat-b0", "harmonic 200.0 1.5 # pat-b1"])
        if len(re_) > 2:
            kw.update(angles=[(0, 1, 2)], angle_types=[0], angle_type_coeffs=["fourier 50.0 1 1 1 # pat-a0"])
    if extras and len(re_):
        kw.update(extra_atom_labels=['_site_pat_note', '_site_pat_occ'], extra_atom_fields=[['p%d' % i, '0.5'] for i in range(len(re_))])
        if 'bonds' in kw:
            kw.update(extra_bond_labels=['_bond_pat_dist'], extra_bond_fields=[['1.%d' % i] for i in range(len(kw['bonds']))])
    with quiet():
        sp = Atoms(elements=list(se), positions=sx)
        if len(re_):
            rp = Atoms(elements=list(re_), positions=rx, charges=[0.1 * (i + 1) for i in range(len(re_))], groups=[7] * len(re_), **kw)
            if relabel:
                # the replacement names its atom types differently (C_3 instead of C): the atoms it shares with the search pattern are still the same atoms
                rp.atom_type_labels = ["%s_3" % l for l in rp.atom_type_labels]
        else:
            rp = Atoms()
    return sp, rp


def shared_map(sp, rp, tol=1e-5):
    """replace index -> search index for atoms common to both patterns (same element, same coordinates)."""
    m = {}
    for i in range(len(rp.positions)):
        for j in range(len(sp.positions)):
            if rp.elements[i] == sp.elements[j] and np.linalg.norm(rp.positions[i] - sp.positions[j]) < tol:
                m[i] = j
                break
    return m


def planted(cellname, pairname, copies, seed, decoys=3, straddle=True, noise=0.0, tilt=None, near_miss=0, atol=0.05, unwrapped=False):
    rnd = random.Random(seed)
    se, sx, _, _ = PAIRS[pairname]
    case = geo.build(cellname, None, copies, rnd, decoys=decoys, straddle=straddle, pattern_override=(se, sx), noise=noise, tilt=tilt, near_miss=near_miss, atol=atol, unwrapped=unwrapped)
    if seed % 2 == 1:
        gen.add_unused_type(case['structure'])     # every second planted structure carries a trailing atom type that no atom uses
    if len(se) == 1:
        # every atom of that element is an occurrence of a one-atom pattern
        case['planted'] = [(i,) for i, e in enumerate(case['structure'].elements) if e == se]
        from scipy.spatial.transform import Rotation as R
        case['poses'] = [(R.identity(), np.array(case['structure'].positions[i[0]])) for i in case['planted']]
    return case


def do_replace(case, sp, rp, seed=0, **kw):
    from mofun import replace_pattern_in_structure
    random.seed(seed)
    np.random.seed(seed)
    with quiet():
        return replace_pattern_in_structure(case['structure'], sp, rp, return_num_matches=True, **kw)


def lattice_equal(cell, a, b, tol):
    d = geo.frac(cell, np.asarray(a) - np.asarray(b))
    d = d - np.round(d)
    return np.linalg.norm(d.dot(cell)) <= tol


def snapshot(a):
    return gen.view(a)
